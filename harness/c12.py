"""C12  Internal-friction loss tensors satisfy the relaxation sum rule.

Tie: every output of Interstitial.losstensors on generated inputs is (a) evaluated directly against the
property in numpy (rates positive and eigenvalues of the independently assembled symmetrised rate matrix,
compliance symmetries, positive semidefinite, sum over modes = equilibrium covariance of the independently
populated site dipoles) and (b) handed, rationalised (every double is a dyadic rational), to the verified
Coq checker Model/Relax.check_loss over the ring Z, which decides the same statements exactly up to the
stated tolerances (soundness: C12_checker_sound; the right-hand side of the sum rule is the `covW` of
C12_parseval_cov / C12_cov_scale)."""
META = dict(
    level="proof",
    text=("Theorems (every ordered commutative ring, every finite network): phi^T(-Omega)phi of the symmetrised rate matrix is "
          "the Dirichlet sum of squares (negative semidefinite; every relaxation rate >= 0; on a connected network the only zero "
          "mode is sqrt(rho)), Parseval sum rule: any family resolving the identity on the complement of sqrt(rho) gives "
          "sum_p F_p(x)F_p = covariance of the site dipole; each F(x)F has the compliance symmetries and is positive "
          "semidefinite; soundness of the executable checker. Tie: the checker runs inside Coq on the rationalised output of "
          "Interstitial.losstensors for random crystals/energies/non-symmetric dipoles, plus a numpy evaluator of the property."),
    note=("Partial: eigenpairs are irrational, so 'the reported rate is an eigenvalue' is established per run by an exact residual "
          "certificate (|(-Omega)phi - lambda phi| <= 1e-9 maxrate |phi| on the doubles; the perturbation bound for symmetric "
          "matrices is trusted mathematics) and by comparison with numpy eigvalsh, not for all inputs. Trusted: Coq kernel/"
          "vm_compute; harness construction of the rate network from the implementation's jumpnetwork/sitelist/space group and "
          "of the independently populated site dipoles; LAPACK eigh inside the implementation is not modelled; tolerances 1e-9 "
          "relative (condition-scaled for stiff rate ratios). Disconnected unit-cell networks: sum rule evaluated per connected "
          "component in numpy only."),
    technique="Coq proof (Dirichlet form + Parseval over an ordered ring) + verified checker run on the implementation's output",
)

import itertools, math, re
import numpy as np
from fractions import Fraction
from . import gen
from .lib import CoqFailure, coq_Z, coq_list, coq_nat

RTOL = 1e-9
FORCED = ["hcp-oct-tet", "pmm2-3w", "wurtzite-int", "polar2w", "sq2w", "fcc-oct-tet"]


# ------------------------------------------------------------------------------------------
# independent reference computations (formulas of the property, not the code's helpers)
def pair_jumps(jn):
    """undirected edges: (cls, i, j, dx) for one member of every {jump, reverse} pair"""
    out = []
    for c, jl in enumerate(jn):
        used = [False] * len(jl)
        for a, ((i, j), dx) in enumerate(jl):
            if used[a]: continue
            used[a] = True
            for b in range(len(jl)):
                (i2, j2), dx2 = jl[b]
                if not used[b] and i2 == j and j2 == i and np.allclose(dx2, -dx, atol=1e-8):
                    used[b] = True
                    break
            else:
                raise RuntimeError("jump without reverse in the jump network")
            out.append((c, i, j, dx))
    return out


def components(N, edges):
    comp = list(range(N))
    def find(a):
        while comp[a] != a: a = comp[a]
        return a
    for (_, i, j, _) in edges: comp[find(i)] = find(j)
    roots = sorted({find(a) for a in range(N)})
    return [[a for a in range(N) if find(a) == r] for r in roots]


def populate_sites(crys, chem, sl, dipoles):
    """site dipoles: representative = average over its stabiliser of the symmetric part; carried by any g"""
    N = len(crys.basis[chem]); dim = crys.dim
    P = np.zeros((N, dim, dim))
    for sites, dip in zip(sl, dipoles):
        i0 = sites[0]
        sym = 0.5 * (np.asarray(dip) + np.asarray(dip).T)
        stab = [g for g in crys.G if g.indexmap[chem][i0] == i0]
        rep = sum(g.cartrot @ sym @ g.cartrot.T for g in stab) / len(stab)
        for i in sites:
            g = next(g for g in crys.G if g.indexmap[chem][i0] == i)
            P[i] = g.cartrot @ rep @ g.cartrot.T
    return P


def reference(crys, chem, sl, jn, pre, bE, preT, bET):
    N = len(crys.basis[chem])
    inv = [None] * N
    for w, sites in enumerate(sl):
        for i in sites: inv[i] = w
    wsite = np.array([pre[inv[i]] * math.exp(-bE[inv[i]]) for i in range(N)])
    rho = wsite / wsite.sum()
    und = pair_jumps(jn)
    wT = [preT[c] * math.exp(-bET[c]) for c in range(len(jn))]
    edges = []   # (i, j, lf, lb, sw)
    Om = np.zeros((N, N))
    for (c, i, j, dx) in und:
        lf, lb, sw = wT[c] / wsite[i], wT[c] / wsite[j], wT[c] / math.sqrt(wsite[i] * wsite[j])
        edges.append((i, j, lf, lb, sw))
        Om[i, i] -= lf; Om[j, j] -= lb; Om[i, j] += sw; Om[j, i] += sw
    return rho, und, edges, Om


# ------------------------------------------------------------------------------------------
def pow2_den(xs):
    m = 0
    for x in xs:
        d = Fraction(float(x)).denominator
        m = max(m, d.bit_length() - 1)
    return m


def coq_case(N, dim, edges, rho, P, modes, Om, scaleL, maxrate):
    """integer instance for Model/Relax.check_loss over Z (see module docstring of Relax.v)"""
    # rate network and rates: common power-of-two scale
    kr = pow2_den([x for e in edges for x in e[2:]] + [l for l, _ in modes])
    sR = 1 << kr
    Rt = coq_list(["mkRedge (K:=Zring) %s %s %s %s %s" % (coq_nat(i), coq_nat(j), coq_Z(Fraction(lf) * sR), coq_Z(Fraction(lb) * sR), coq_Z(Fraction(sw) * sR))
                   for (i, j, lf, lb, sw) in edges])
    kw = pow2_den(rho); sW = 1 << kw
    wi = [int(Fraction(float(r)) * sW) for r in rho]
    W = sum(Fraction(float(r)) for r in rho)
    kp = pow2_den(P.ravel())
    kl = pow2_den([x for _, L in modes for x in L.ravel()])
    m = max(kp, (kl + 1) // 2, 40)
    s1, s2 = 1 << m, 1 << (2 * m)
    Pt = coq_list([coq_list([coq_Z(Fraction(float(x)) * s1) for x in P[i].ravel()]) for i in range(N)])
    evals, evecs = np.linalg.eigh(-Om)
    mt = []
    for lam, L in modes:
        M = L.reshape(dim * dim, dim * dim)
        mu, v = np.linalg.eigh(0.5 * (M + M.T))
        Fs = [math.sqrt(mu[k]) * v[:, k] for k in range(len(mu)) if mu[k] > 1e-14 * scaleL]
        Ft = coq_list([coq_list([coq_Z(round(float(x) * s1)) for x in F]) for F in Fs])
        k = int(np.argmin(np.abs(evals - lam)))
        phi = evecs[:, k]
        pt = coq_list([coq_Z(round(float(x) * (1 << 40))) for x in phi])
        mt.append("mkMode (K:=Zring) %s %s %s %s" % (coq_Z(Fraction(float(lam)) * sR),
                                                    coq_list([coq_Z(Fraction(float(x)) * s2) for x in L.ravel()]), Ft, pt))
    tol_sym = int(Fraction(RTOL * scaleL) * s2)
    tol_cert = tol_sym
    tol_sum = int(Fraction(RTOL * scaleL) * W * W * sW * sW * s2)
    tau2 = Fraction(RTOL * maxrate) ** 2 * sR * sR
    term = "(%s, %s, %s, %s, %s, %s, (%s, %s, %s, %s, %s))" % (
        coq_nat(N), coq_nat(dim), Rt, coq_list([coq_Z(x) for x in wi]), Pt, coq_list(mt),
        coq_Z(tol_sym), coq_Z(tol_cert), coq_Z(tol_sum), coq_Z(tau2.numerator), coq_Z(tau2.denominator))
    return term


IMPORTS = """From Coq Require Import List ZArith.
From Onsager Require Import Base.OrdRing Base.Instances Model.Net Model.Relax.
Import ListNotations.
Local Open Scope Z_scope.
Definition run (c : nat * nat * rnet Zring * list Z * list (list Z) * list (mode Zring) * (Z * Z * Z * Z * Z)) : nat :=
  let '(n, d, R, w, P, modes, (ts, tc, tsum, tn, td)) := c in check_loss (K:=Zring) n d R w P modes ts tc tsum tn td.
"""


def run_cases(ck, name, terms, chunk=25):
    codes = []
    for a in range(0, len(terms), chunk):
        body = "Eval vm_compute in (map run %s)." % coq_list(terms[a:a + chunk])
        out = ck.coq_cases("%s_%d" % (name, a), body, IMPORTS)
        txt = out[out.index("="):] if "=" in out else ""
        txt = txt.split(":")[0]
        got = [int(x) for x in re.findall(r"\d+", txt.replace("%nat", ""))]
        if len(got) != len(terms[a:a + chunk]):
            raise CoqFailure("could not parse model output: " + out[:300])
        codes += got
    return codes


# ------------------------------------------------------------------------------------------
def evaluate(crys, chem, sl, jn, d, inp):
    """direct evaluation of the property on one input; returns (list of (key, message), info)"""
    dim = crys.dim; N = d.N
    pre, bE, dip, preT, bET = (inp[k] for k in ("pre", "bE", "dipole", "preT", "bET"))
    modes = d.losstensors(pre, bE, [np.array(x) for x in dip], preT, bET)
    modes = [(float(l), np.array(L)) for l, L in modes]
    rho, und, edges, Om = reference(crys, chem, sl, jn, pre, bE, preT, bET)
    P = populate_sites(crys, chem, sl, dip)
    comps = components(N, und)
    evals = np.linalg.eigvalsh(-Om)
    maxrate = max(np.abs(evals).max(), 1e-300)
    nz = sorted(evals)[len(comps):]
    cond = maxrate / max(min(nz), 1e-300) if nz else 1.0
    # covariance, per ergodic component (one component: the plain equilibrium covariance)
    cov = np.einsum('i,iab,icd->abcd', rho, P, P)
    for cset in comps:
        rc = rho[cset].sum()
        mP = np.einsum('i,iab->ab', rho[cset], P[cset])
        cov -= np.einsum('ab,cd->abcd', mP, mP) / rc
    scaleL = max(float(np.einsum('i,iab,iab->', rho, P, P)), 1e-300)
    # float accuracy of eigenvectors of a stiff matrix limits the sum rule: condition-scaled tolerance
    tol = max(RTOL, 200 * np.finfo(float).eps * cond) * scaleL
    bad = []
    for l, L in modes:
        if not (l > 0): bad.append(("c12-rate-nonpositive", "reported rate %.3g is not positive" % l))
        if np.abs(evals - l).min() > max(RTOL, 200 * np.finfo(float).eps) * maxrate:
            bad.append(("c12-rate-not-eigenvalue", "reported rate %.6g is not an eigenvalue of the symmetrised rate matrix (nearest %.6g)"
                        % (l, evals[np.argmin(np.abs(evals - l))])))
        if l > 0 and l < 1e-12 * maxrate:
            bad.append(("c12-zero-mode-reported", "reported rate %.3g is a zero mode" % l))
        s = max(np.abs(L - L.transpose(1, 0, 2, 3)).max(), np.abs(L - L.transpose(0, 1, 3, 2)).max(), np.abs(L - L.transpose(2, 3, 0, 1)).max())
        if s > RTOL * scaleL: bad.append(("c12-symmetry", "loss tensor lacks a compliance symmetry by %.3g" % s))
        M = L.reshape(dim * dim, dim * dim)
        emin = np.linalg.eigvalsh(0.5 * (M + M.T)).min()
        if emin < -RTOL * scaleL: bad.append(("c12-not-psd", "loss tensor has eigenvalue %.3g < 0" % emin))
    tot = sum((L for _, L in modes), np.zeros((dim,) * 4))
    err = np.abs(tot - cov).max()
    # per-mode reference: the tensor reported with rate l must be the loss tensor of l's eigenspace,
    #   L(l) = sum_{p : mu_p = l} F_p (x) F_p,  F_p = sum_i sqrt(rho_i) phi_p(i) P_i   (basis independent inside an eigenspace)
    mu, vec = np.linalg.eigh(-Om)
    live = [p for p in range(N) if mu[p] > 1e-12 * maxrate]
    Fp = {p: np.einsum('i,i,iab->ab', np.sqrt(rho), vec[:, p], P) for p in live}
    lv = sorted(mu[p] for p in live)
    gaps = [(b - a) / b for a, b in zip(lv, lv[1:])]
    ambiguous = any(1e-7 < g_ < 1e-3 for g_ in gaps)          # neither degenerate nor separated: merging is a matter of taste
    nclusters = (1 + sum(1 for g_ in gaps if g_ >= 1e-3)) if lv else 0
    mode_err = 0.0
    if not ambiguous:
        for l, L in modes:
            ref = sum((np.einsum('ab,cd->abcd', Fp[p], Fp[p]) for p in live if abs(mu[p] - l) <= 1e-4 * abs(l)), np.zeros((dim,) * 4))
            mode_err = max(mode_err, float(np.abs(L - ref).max()))
        if mode_err > tol:
            absgap = min([b - a for a, b in zip(lv, lv[1:]) if (b - a) / b >= 1e-3] + [np.inf])
            merged = len(modes) < nclusters and err <= tol
            key = "c12-absolute-merge" if (merged and absgap < 2e-8) else ("c12-modes-merged" if merged else "c12-mode-tensor")
            bad.append((key, "a reported (rate, tensor) pair is not a relaxation mode: the tensor differs by %.3g (scale %.3g) from the loss tensor "
                             "of the eigenspace of its rate; %d entries reported for %d distinct non-zero eigenvalues %s%s"
                        % (mode_err, scaleL, len(modes), nclusters, ["%.3g" % x for x in lv][:8],
                           " -- distinct modes closer than 1e-8 in ABSOLUTE rate were merged (sum rule still holds)" if key == "c12-absolute-merge" else "")))
    # diagnosis only: does the implementation populate the site dipoles as the property says?
    Pimpl = np.array(d.siteDipoles([np.array(x) for x in dip]))
    popbad = bool(np.abs(Pimpl - P).max() > RTOL * max(np.abs(P).max(), 1e-300))
    if err > tol:
        nrep = sum(1 for _ in modes)
        key = "c12-slow-mode-dropped" if (nz and min(nz) < 1e-8 * abs(np.trace(Om) / N)) else \
              ("c12-site-dipole-population" if popbad else "c12-sum-rule")
        bad.append((key, "sum of loss tensors differs from the equilibrium covariance by %.3g (scale %.3g, tol %.3g; %d modes "
                         "reported, %d non-zero eigenvalues, slowest/fastest = %.3g%s)" % (err, scaleL, tol, nrep, len(nz), 1 / cond,
                         "; Interstitial.siteDipoles differs from the stabiliser-averaged, symmetry-carried dipoles by %.3g"
                         % np.abs(Pimpl - P).max() if popbad else "")))
    info = dict(popbad=popbad, modes=modes, rho=rho, P=P, edges=edges, Om=Om, comps=comps, scaleL=scaleL, maxrate=maxrate, cond=cond,
                err=err / scaleL, nz=len(nz), mode_err=mode_err / scaleL, ambiguous=ambiguous, spread=1 / cond)
    return bad, info


def scaled_input(inp, k, how):
    """the same network with every rate multiplied by 10^-k: through the transition prefactors, or through the transition
    energies / kT (all barriers raised by k ln 10)"""
    i2 = dict(inp)
    if how == "pre": i2["preT"] = [x * 10.0 ** (-k) for x in inp["preT"]]
    else: i2["bET"] = [x + k * math.log(10.0) for x in inp["bET"]]
    return i2


def scale_sweep(crys, chem, sl, jn, d, inp, base, ks):
    """rate-scale invariance: 10^-k times the rates must give the same number of modes, the rates times 10^-k, identical loss
    tensors and the sum rule.  Only used where the base case is clean and its modes are within 1e6 of each other (NOT the
    regime of the known finding c12-slow-mode-dropped).  Returns list of (key, msg, input)."""
    out = []
    bm = sorted(base["modes"], key=lambda t: -t[0])
    for k in ks:
        for how in ("pre", "ene"):
            i2 = scaled_input(inp, k, how)
            bad, info = evaluate(crys, chem, sl, jn, d, i2)
            for key, msg in bad:
                out.append(("c12-scale-modes-dropped" if key in ("c12-sum-rule", "c12-slow-mode-dropped") else key,
                            "rates x 1e-%d (via %s): %s" % (k, "transition prefactors" if how == "pre" else "barriers/kT", msg), i2))
            if bad: continue
            sm = sorted(info["modes"], key=lambda t: -t[0])
            f = 10.0 ** k
            if len(sm) != len(bm):
                out.append(("c12-scale-mode-count", "rates x 1e-%d (via %s): %d modes reported instead of %d" % (k, how, len(sm), len(bm)), i2)); continue
            rerr = max([abs(a[0] * f - b[0]) / b[0] for a, b in zip(sm, bm)] + [0.0])
            terr = max([float(np.abs(a[1] - b[1]).max()) for a, b in zip(sm, bm)] + [0.0])
            if rerr > 1e-7 or terr > max(RTOL, 200 * np.finfo(float).eps * base["cond"]) * base["scaleL"]:
                out.append(("c12-scale-invariance", "rates x 1e-%d (via %s): rates/tensors change (relative rate error %.3g, tensor error %.3g)"
                            % (k, how, rerr, terr), i2))
    return out


SINGLE_LABELS = ("tet-edge2", "sq-edge2", "tet-x4", "sq-x4", "cub-x6", "hex-x6")


def reorder_network(jn, rng):
    """the same jump network listed by hand in another order: classes in random order, jumps shuffled inside every class (a jump is
    in general no longer followed by its reverse; the first jump = representative changes).  Returns (jn2, cmap) with
    jn2[c2][k] = jn[cmap[c2][0]][cmap[c2][1][k]]"""
    order = list(range(len(jn))); rng.shuffle(order)
    jn2, cmap = [], []
    for c in order:
        idx = list(range(len(jn[c])))
        for _ in range(6):
            rng.shuffle(idx)
            # prefer an order in which some jump is NOT followed by its reverse
            if len(idx) <= 2 or any(not (jn[c][idx[k]][0] == jn[c][idx[k + 1]][0][::-1] and np.allclose(jn[c][idx[k]][1], -jn[c][idx[k + 1]][1]))
                                    for k in range(0, len(idx) - 1, 2)): break
        jn2.append([jn[c][k] for k in idx]); cmap.append((c, idx))
    return jn2, cmap


def local_network(crys, chem, rng):
    """a short-range network that need not percolate and whose unit-cell graph falls apart (reorientation without long-range
    diffusion): cutoff just above the first or second shell.  None if it has no jump between two different sites or is connected."""
    sh = gen.shells(crys, chem)
    N = len(crys.basis[chem])
    for k in rng.sample([0, 1, 2], 3):
        if k >= len(sh): continue
        cut = sh[k] + 1e-4
        jn = crys.jumpnetwork(chem, cut)
        if not any(i != j for jl in jn for (i, j), dx in jl): continue
        if sum(len(t) for t in jn) > 80: continue
        if len(components(N, pair_jumps(jn))) > 1: return cut, crys.sitelist(chem), jn
    return None


def split_pair_crystals():
    """hosts with close pairs of interstitial sites split across mirror planes; only the jump inside a pair is below the cutoff"""
    from onsager import crystal
    a = np.array
    latt = a([[1.0, 0., 0.2], [0., 1.15, 0.], [0., 0., 1.3]])
    c1 = crystal.Crystal(latt, [[a([0., 0., 0.]), a([0.3, 0., 0.2])], [a([0.5, 0.09, 0.1]), a([0.5, -0.09, 0.1]), a([0.2, 0.42, 0.6]), a([0.2, 0.58, 0.6])]])
    yield "mono-splitpairs", c1, 1, 0.25
    c2 = crystal.Crystal(np.diag([1., 1.3]), [[a([0., 0.])], [a([0.5, 0.08]), a([0.5, -0.08]), a([0.1, 0.42]), a([0.1, 0.58]), a([-0.1, 0.42]), a([-0.1, 0.58])]])
    yield "rect-splitpairs", c2, 1, 0.25


def single_set_crystals():
    from onsager import crystal
    a = np.array
    yield "tet-edge2", crystal.Crystal(np.diag([1., 1., 1.2]), [[a([0., 0, 0])], [a([.5, 0, 0]), a([0, .5, 0])]], chemistry=["M", "I"]), 1
    yield "sq-edge2", crystal.Crystal(np.eye(2), [[a([0., 0])], [a([.5, 0]), a([0, .5])]], chemistry=["M", "I"]), 1
    yield "tet-x4", crystal.Crystal(np.diag([1., 1., 1.2]), [[a([0., 0, 0])], [a([.3, 0, 0]), a([-.3, 0, 0]), a([0, .3, 0]), a([0, -.3, 0])]],
                                    chemistry=["M", "I"]), 1
    for nm in ("sq-x4", "cub-x6", "hex-x6"):
        try:
            crys, chem = gen.named(nm)
        except KeyError:
            continue
        yield nm, crys, chem


def random_input(nr, sl, jn, dim, spread):
    """spread: (site energy range, barrier range above the sites) in kT"""
    es, et = spread
    bE = nr.uniform(0, es, len(sl))
    return dict(pre=nr.uniform(0.5, 2, len(sl)).tolist(), bE=bE.tolist(),
                dipole=[nr.normal(size=(dim, dim)).tolist() for _ in sl],
                preT=nr.uniform(0.5, 2, len(jn)).tolist(), bET=(bE.max() + nr.uniform(0.2, et, len(jn))).tolist())


def run(ck):
    ck.rule = ("crystal pool (named + random crystal systems, 2-D/3-D, 1-3 Wyckoff sets, up to 6 sites) x percolating cutoff x "
               "random prefactors/energies/non-symmetric dipoles; streams: normal (barrier spread <= 4 kT), stiff (<= 14 kT, "
               "condition-scaled tolerance), local (short cutoffs, disconnected non-percolating networks incl. split-pair crystals: one zero mode per connected part, "
               "sum rule per part), hand-ordered listings of half of the networks (classes and jumps shuffled, compared with the canonical listing), extreme (one barrier 20-26 kT above the rest), scale sweep (first data set of every network with all "
               "rates x 1e-3..1e-15 through prefactors and through barriers/kT: same modes, scaled rates, identical tensors, sum rule); every "
               "reported (rate, tensor) is compared with the loss tensor of the eigenspace of its rate; every case is evaluated in numpy and, "
               "for connected networks of the normal stream, by the Coq checker; distinct = distinct (crystal, cutoff, data); "
               "non-trivial = at least one relaxation mode reported or expected")
    ck.trusted += ["harness/c12.py: rate network / symmetrised matrix / populated dipoles built from the implementation's "
                   "jumpnetwork, sitelist and space group; numpy eigh for certificates",
                   "perturbation bound: |A phi - lam phi| <= eps |phi| for symmetric A implies an eigenvalue within eps of lam"]
    ck.theorems()
    rng = ck.rng
    ncases = ck.n(32, 260)
    skipped = {"nonpercolating": 0, "construct-failed": 0, "single-site": 0}
    coq_terms, coq_meta = [], []
    nsample = 0
    nsweep = 0
    from onsager import OnsagerCalc
    multi = ["hcp", "diamond", "polar", "polar2w", "re3", "hcp-oct-tet", "fcc-oct-tet", "bcc-tet", "honeycomb", "sq2w",
             "rect-polar2d", "oblique2d", "hcp-nonideal", "b2", "tria"]
    def source():
        # always present: several Wyckoff sets with different site data, atoms listed in a random (interleaving) order
        fl = list(FORCED); rng.shuffle(fl)
        for nm in fl[:ck.n(4, 6)]:
            crys, chem = gen.named(nm)
            yield nm + "~perm", gen.shuffled(crys, rng), chem
        # always present: ONE Wyckoff set of 2 / 4 / 6 equally probable sites with differently oriented dipoles: the relaxation
        # modes are then +-sqrt(rho_i) sign patterns ((1,-1)/sqrt2, (+,+,-,-)/2): same magnitudes as the equilibrium mode
        for lab, crys, chem in single_set_crystals():
            yield lab, (gen.shuffled(crys, rng) if rng.random() < 0.5 else crys), chem
        yield from gen.pool(rng, ncases, names=multi, random_frac=0.55, maxatoms=4)
    def networks():
        # always present: disconnected, non-percolating networks (losstensors needs no long-range diffusion); the relaxation
        # statement then applies per connected part: one zero mode per part, sum rule with the fluctuation inside the parts
        for lab, crys, chem, cut in split_pair_crystals():
            yield lab + "~local", crys, chem, (cut, crys.sitelist(chem), crys.jumpnetwork(chem, cut))
        for label, crys, chem in source():
            try:
                net = gen.percolating_network(crys, chem, rng, **(dict(maxshell=8, maxjumps=200) if label in SINGLE_LABELS else {}))
            except Exception:
                skipped["construct-failed"] += 1; net = None
            else:
                if net is None: skipped["nonpercolating"] += 1
            if net is not None: yield label, crys, chem, net
            if len(crys.basis[chem]) >= 2 and rng.random() < 0.5:
                try: ln = local_network(crys, chem, rng)
                except Exception: ln = None
                if ln is not None: yield label + "~local", crys, chem, ln
    for label, crys, chem, net in networks():
        cut, sl, jn = net
        N = len(crys.basis[chem])
        if N < 2 and rng.random() < 0.8:
            skipped["single-site"] += 1; continue
        jn_canon, cmap = jn, None
        if rng.random() < 0.5:
            jn, cmap = reorder_network(jn, rng); label += "~reordered"
        d = OnsagerCalc.Interstitial(crys, chem, sl, jn)
        dim = crys.dim
        for rep in range(ck.n(4, 5)):
            stream = "normal" if rep < ck.n(2, 3) else "stiff"
            nr = ck.nprng(rng.randrange(1 << 30))
            inp = random_input(nr, sl, jn, dim, (2.0, 4.0) if stream == "normal" else (3.0, 14.0))
            try:
                bad, info = evaluate(crys, chem, sl, jn, d, inp)
            except (ArithmeticError, ValueError, IndexError, np.linalg.LinAlgError) as e:
                ck.violation("Interstitial.losstensors raised %r" % (e,), {"crystal": repr(crys), "chem": chem, "cutoff": cut, **inp},
                             key="c12-exception")
                continue
            interleaved = any(list(w) != list(range(min(w), min(w) + len(w))) for w in sl) or [w[0] for w in sl] != sorted(w[0] for w in sl)
            kind = "%s:%dD-N%d-W%d-%s%s%s%s" % (stream, dim, N, len(sl), "conn" if len(info["comps"]) == 1 else "disc%d" % len(info["comps"]),
                                                "-interleaved" if interleaved else "", "-local" if "~local" in label else "", "-reordered" if cmap else "")
            if cmap is not None and rep == 0:
                # listing-order invariance: the canonical listing with the same data must give the same modes
                d0 = OnsagerCalc.Interstitial(crys, chem, sl, jn_canon)
                pT0 = [None] * len(jn); bT0 = [None] * len(jn)
                for c2, (c, idx) in enumerate(cmap): pT0[c] = inp["preT"][c2]; bT0[c] = inp["bET"][c2]
                m0 = sorted(((float(l), np.array(L)) for l, L in d0.losstensors(inp["pre"], inp["bE"], [np.array(x) for x in inp["dipole"]], pT0, bT0)), key=lambda t: -t[0])
                m1 = sorted(info["modes"], key=lambda t: -t[0])
                same = len(m0) == len(m1) and all(abs(a[0] - b[0]) <= 1e-9 * info["maxrate"] and np.abs(a[1] - b[1]).max() <= max(RTOL, 200 * np.finfo(float).eps * info["cond"]) * info["scaleL"]
                                                  for a, b in zip(m0, m1))
                ck.case(key=(label, round(cut, 5), inp["pre"], inp["bET"], "order"), nontrivial=True, kind="listing-order:" + kind)
                if not same:
                    ck.violation("losstensors depends on the order in which the jump network lists its classes / jumps (%d vs %d modes)" % (len(m1), len(m0)),
                                 {"crystal": repr(crys), "chem": chem, "cutoff": cut, **inp, "class_order": [c for c, _ in cmap]}, key="c12-listing-order")
            nsample += 1
            ck.case(key=(label, round(cut, 5), inp["pre"], inp["bE"], inp["bET"]), nontrivial=(info["nz"] > 0 or len(info["modes"]) > 0), kind=kind,
                    sample={"crystal": label, "cutoff": cut, "N": N, "stream": stream, "input": {k: inp[k] for k in ("pre", "bE", "preT", "bET")},
                            "dipole0": inp["dipole"][0], "rates": [l for l, _ in info["modes"]], "sumrule_relerr": info["err"]} if nsample <= 3 else None)
            for key, msg in bad:
                ck.violation(msg, {"crystal": repr(crys), "chem": chem, "cutoff": cut, "stream": stream, **inp,
                                   "rates_reported": [l for l, _ in info["modes"]],
                                   "eigenvalues_of_minus_Omega": np.linalg.eigvalsh(-info["Om"]).tolist()}, key=key)
            if rep == 0 and not bad and info["nz"] > 0 and info["spread"] > 1e-6:
                ks = rng.sample([3, 6, 8, 9, 12, 15], ck.n(3, 4))
                sw = scale_sweep(crys, chem, sl, jn, d, inp, info, ks)
                nsweep += len(ks) * 2
                ck.case(key=(label, round(cut, 5), inp["pre"], inp["bE"], inp["bET"], "sweep", ks), nontrivial=True, kind="sweep:" + kind)
                seen = set()
                for key, msg, i2 in sw:
                    if key in seen: continue          # one report per class and network
                    seen.add(key)
                    ck.violation(msg, {"crystal": repr(crys), "chem": chem, "cutoff": cut, "stream": "scale-sweep", **i2}, key=key)
            if stream == "normal" and len(info["comps"]) == 1 and N >= 2 and len(coq_terms) < ck.n(60, 400):
                coq_terms.append(coq_case(N, dim, info["edges"], info["rho"], info["P"], info["modes"], info["Om"], info["scaleL"], info["maxrate"]))
                coq_meta.append(dict(label=label, crys=repr(crys), chem=chem, cut=cut, inp=inp, kind=kind,
                                     rates=[l for l, _ in info["modes"]], popbad=info["popbad"]))
    # extreme stream: one class of jumps 20-26 kT above the others (a very slow relaxation mode)
    next_ext = 0
    for label in ["hcp-oct-tet", "fcc-oct-tet", "sq2w", "re3"][:ck.n(2, 4)]:
        crys, chem = gen.named(label)
        sl = crys.sitelist(chem)
        sh = gen.shells(crys, chem)
        jn = crys.jumpnetwork(chem, sh[min(2, len(sh) - 1)] + 1e-4)
        d = OnsagerCalc.Interstitial(crys, chem, sl, jn)
        nr = ck.nprng(7000 + next_ext); next_ext += 1
        inp = random_input(nr, sl, jn, crys.dim, (1.0, 1.0))
        # the class whose removal disconnects the network most cheaply: try each class
        for c in range(len(jn)):
            inp2 = dict(inp); bet = list(inp["bET"]); bet[c] += nr.uniform(20, 26); inp2["bET"] = bet
            bad, info = evaluate(crys, chem, sl, jn, d, inp2)
            ck.case(key=(label, "extreme", c, inp2["bET"]), nontrivial=info["nz"] > 0, kind="extreme:%s" % label)
            for key, msg in bad:
                ck.violation(msg, {"crystal": repr(crys), "chem": chem, "cutoff": sh[min(2, len(sh) - 1)] + 1e-4, "stream": "extreme", **inp2,
                                   "rates_reported": [l for l, _ in info["modes"]],
                                   "eigenvalues_of_minus_Omega": np.linalg.eigvalsh(-info["Om"]).tolist()}, key=key)
    # the verified checker on the rationalised outputs
    try:
        codes = run_cases(ck, "loss", coq_terms)
    except CoqFailure as e:
        ck.broken_proof = "correspondence Model/Relax.check_loss: %s" % e
        codes = []
    meaning = {1: "a reported rate is not positive", 2: "a loss tensor lacks the compliance symmetries",
               3: "a loss tensor is not a sum of squares (not positive semidefinite)", 4: "a reported rate fails the eigen-residual certificate",
               5: "sum over modes differs from the exact covariance", 6: "ill-formed rate network (harness)"}
    for mdat, c in zip(coq_meta, codes):
        ck.case(key=("coq", mdat["label"], round(mdat["cut"], 5), mdat["inp"]["pre"], mdat["inp"]["bE"], mdat["inp"]["bET"]),
                nontrivial=len(mdat["rates"]) > 0, kind="coq:" + mdat["kind"])
        if c == 6: raise RuntimeError("harness built an ill-formed rate network: " + mdat["label"])
        if c != 0:
            ck.violation("Coq checker: %s" % meaning.get(c, c), {"crystal": mdat["crys"], "chem": mdat["chem"], "cutoff": mdat["cut"], **mdat["inp"],
                                                               "rates_reported": mdat["rates"], "model_diagnosis": c},
                         key="c12-site-dipole-population" if (c == 5 and mdat["popbad"]) else "c12-coq-%d" % c)
    ck.extra["coq_checker_cases"] = len(codes)
    ck.extra["traces_validated_against_impl"] = len(codes)
    ck.extra["skipped"] = skipped
    ck.extra["scale_sweep_evaluations"] = nsweep
