"""C32  All cluster-expansion evaluators agree on every configuration.

Model  coq/Model/Energy.v : brute-force energy, evalcluster, expandcluster_matrices, clusterevaluator
(de-duplicated interaction list) and MonteCarloSampler.__init__/start/E over an arbitrary ring of values
and an arbitrary supercell index map; theorems coq/Proofs/Energy_proofs.v (evaluators_agree, unbounded).

Tie to /repo on every run
 (a) correspondence: the implementation's translist/Rveclist, cluster-count vectors, index matrices,
     (siteinteract, interact) lists and the four energies (integer cluster values, exact) are compared
     INSIDE Coq with what the model computes from the same supercell matrix / clusters / occupations;
     the decidable hypotheses of the theorem (index range, 0/1 occupation, vacancy != 1) are evaluated too;
 (b) direct evaluator: the four implementation evaluators against a Python brute force written from the
     property text (sites located through the supercell's documented position arrays, not through
     ClusterSupercell.index), EXHAUSTIVELY over all 2^n mobile occupations of small supercells, with and
     without a fixed vacancy, random spectator occupations, float values (1e-9 relative to sum |value|).
"""
META = dict(
    level="proof",
    text=("Theorem C32_evaluators_agree (Coq, closed under the global context): for every ordered commutative ring of "
          "values, every supercell (any translation list / periodic index map / site numbering), every list of cluster "
          "groups, values (with or without the constant), spectator and 0/1 mobile occupation, with or without a fixed "
          "vacancy, the cluster counter, the index-matrix expansion, the de-duplicated interaction list and the sampler "
          "arrays give the brute-force sum over clusters x translations of value x product of occupancies. Tie: model vs "
          "implementation compared inside Coq on exact integer data (structures and energies), plus an exhaustive direct "
          "evaluation of the four implementation evaluators over all 2^n occupations of small supercells."),
    note=("Trusted: Coq kernel/vm_compute; the hand-written model of the four routines (validated structurally on every "
          "run: translations, counts, matrices, siteinteract/interact lists are compared, not only energies); the python "
          "dict interdict is modelled as its key list in index order; python sorted() as insertion sort; numpy -1 padding "
          "of siteinteract modelled on Z. Float addition order/rounding is not modelled (float tier: 1e-9 relative). "
          "3-D supercells only (Supercell.maketrans is 3-D). Jump-network parts of the sampler belong to C33-C35."),
    technique="Coq proof (regrouping invariant of the de-duplicating fold) + in-Coq correspondence + exhaustive direct evaluation",
)

import itertools, math
import numpy as np
from . import gen
from .lib import CoqFailure, coq_Z, coq_list

RTOL = 1e-9


# ------------------------------------------------------------------------------------------------
# Coq literals
def cnat(n):
    n = int(n)
    assert 0 <= n < 5000, n
    return "%d" % n


def cvec(v): return "(%d, %d, %d)%%Z" % tuple(int(x) for x in v)


def csite(s): return "mkSite %d %d %s" % (s.ci[0], s.ci[1], cvec(s.R))


def ccluster(cl):
    vac = "(Some (%s))" % csite(cl.vacancy()) if cl.__vacancy__ else "None"
    return "mkCl %s %s" % (vac, coq_list([csite(s) for s in cl]))


def cmat(m): return "(%s, %s, %s)" % tuple(cvec(r) for r in m)


def cZlist(l): return coq_list(["%d" % int(x) if int(x) >= 0 else "(%d)" % int(x) for x in l]) + "%Z"


def cnatlist(l): return coq_list([cnat(x) for x in l]) + "%nat"


def cnat2(ll): return coq_list([coq_list([cnat(x) for x in l]) for l in ll]) + "%nat"


IMPORTS = """From Coq Require Import List ZArith Bool Arith.
From Onsager Require Import Base.OrdRing Base.Instances Model.Energy.
Import ListNotations.
Fixpoint leqb {A} (e : A -> A -> bool) (a b : list A) : bool :=
  match a, b with [], [] => true | x :: a', y :: b' => e x y && leqb e a' b' | _, _ => false end.
Record tcase := mkCase { t_sc : supercell; t_cl : list (list (@cluster csite)); t_vals : list Z; t_socc : list Z;
  t_trans : list vec; t_rvec : list vec; t_nsites : nat;
  t_mats : list (list (list (list nat))); t_si : list (list nat); t_ia : list Z;
  t_occ : list (list Z * list nat * (Z * Z * Z * Z)) }.
Definition run (c : tcase) : nat :=
  let sc := t_sc c in
  if negb (leqb veqb (sc_translist sc) (t_trans c)) then 1 else
  if negb (leqb veqb (sc_Rveclist sc) (t_rvec c)) then 2 else
  if negb (Nat.eqb (sc_Nsites sc) (t_nsites c)) then 3 else
  if negb (c_in_range sc (t_cl c)) then 4 else
  if negb (Nat.leb (length (t_vals c)) (S (length (t_cl c)))) then 5 else
  if negb (leqb (leqb (leqb (leqb Nat.eqb))) (c_matrices sc (t_cl c) (t_socc c)) (t_mats c)) then 6 else
  let '(si, ia) := c_clusterevaluator Zring sc (t_cl c) (t_vals c) (t_socc c) in
  if negb (leqb (leqb Nat.eqb) si (t_si c)) then 7 else
  if negb (leqb Z.eqb ia (t_ia c)) then 8 else
  fold_left (fun code o =>
    if Nat.eqb code 0 then
      let '(mocc, cnts, (e1, e2, e3, e4)) := o in
      if negb (c_valid_occ sc mocc) then 9 else
      if negb (leqb Nat.eqb (c_evalcluster sc (t_cl c) mocc (t_socc c)) cnts) then 10 else
      let eb := c_brute Zring sc (t_cl c) (t_vals c) mocc (t_socc c) in
      if negb (Z.eqb (c_counter Zring sc (t_cl c) (t_vals c) mocc (t_socc c)) e1) then 11 else
      if negb (Z.eqb (c_Ematrices Zring sc (t_cl c) (t_vals c) mocc (t_socc c)) e2) then 12 else
      if negb (Z.eqb (c_Einteract Zring sc (t_cl c) (t_vals c) mocc (t_socc c)) e3) then 13 else
      if negb (Z.eqb (c_Esampler Zring sc (t_cl c) (t_vals c) mocc (t_socc c)) e4) then 14 else
      if negb (Z.eqb eb e1 && Z.eqb eb e2 && Z.eqb eb e3 && Z.eqb eb e4) then 15 else 0
    else code) (t_occ c) 0.
"""

MEANING = {1: "translist differs from the model of Supercell.maketrans", 2: "Rveclist differs from the model",
           3: "number of mobile sites differs", 4: "a cluster site maps outside the mobile index range",
           5: "values longer than clusters+1 (harness)", 6: "expandcluster_matrices differs from the model",
           7: "clusterevaluator siteinteract differs from the model", 8: "clusterevaluator interact values differ from the model",
           9: "occupation outside the domain (harness)", 10: "evalcluster count vector differs from the model",
           11: "counter energy differs from the model", 12: "index-matrix energy differs from the model",
           13: "interaction-list energy differs from the model", 14: "sampler energy differs from the model",
           15: "an implementation energy differs from the model's brute-force energy"}


# ------------------------------------------------------------------------------------------------
# generators
def all_shells(crys, exclude=(), nmax=2, top=6):
    """sorted distinct inter-site distances over all (non-excluded) species"""
    ds = set()
    sites = [crys.basis[c][i] for (c, i) in crys.atomindices if c not in exclude]
    for u0 in sites:
        for u1 in sites:
            for R in itertools.product(range(-nmax, nmax + 1), repeat=crys.dim):
                d = np.linalg.norm(np.dot(crys.lattice, np.array(R) + u1 - u0))
                if d > 1e-6: ds.add(round(d, 6))
    return sorted(ds)[:top]


def random_superlatt(rng, maxdet, maxentry=2):
    """random integer 3x3 matrix, 1 <= |det| <= maxdet, preferring |det| >= 2 and non-diagonal ones"""
    for _ in range(400):
        if rng.random() < 0.35:
            m = np.diag([rng.randint(1, 3) for _ in range(3)])
            if rng.random() < 0.5:
                i, j = rng.sample(range(3), 2)
                m[i, j] = rng.choice([-1, 1])
        else:
            m = np.array([[rng.randint(-maxentry, maxentry) for _ in range(3)] for _ in range(3)])
        if rng.random() < 0.3: m = -m
        d = abs(int(round(np.linalg.det(m))))
        if 1 <= d <= maxdet and (d >= 2 or rng.random() < 0.15):
            return m
    return np.eye(3, dtype=int)


def random_clusters(rng, crys, ngroups, vacancy_ci=None):
    """hand-built clusters (not symmetry orbits): random distinct sites within a few cells"""
    from onsager import cluster
    ai = list(crys.atomindices)
    groups = []
    for _ in range(ngroups):
        grp = []
        for _ in range(rng.randint(1, 3)):
            k = rng.randint(1, 4)
            sites = {}
            while len(sites) < k:
                ci = rng.choice(ai)
                R = tuple(rng.randint(-2, 2) for _ in range(3))
                sites[(ci, R)] = cluster.ClusterSite(ci, np.array(R))
            sl = list(sites.values())
            if vacancy_ci is not None and rng.random() < 0.4:
                vci = vacancy_ci if rng.random() < 0.7 else rng.choice(ai)
                sp = cluster.ClusterSite(vci, np.zeros(3, dtype=int))
                sl = [s for s in sl if not (s.ci == vci and not np.any(s.R))]
                grp.append(cluster.Cluster([sp] + sl, vacancy=True))
            else:
                grp.append(cluster.Cluster(sl))
        groups.append(grp)
    return groups


def make_config(ck, rng, nmax_sites, want_vacancy):
    """-> dict(crys, label, sup, clusters (list of lists), desc) or None"""
    from onsager import cluster, supercell
    for label, crys, _chem in gen.pool(rng, 1, dims=(3,), random_frac=0.5, nchem_max=3, maxatoms=2):
        pass
    nchem = crys.Nchem
    chems = list(range(nchem))
    nspec = rng.randint(0, nchem - 1)
    spectator = sorted(rng.sample(chems, nspec))
    mobile = [c for c in chems if c not in spectator]
    Nmobile = sum(len(crys.basis[c]) for c in mobile)
    Nspec = sum(len(crys.basis[c]) for c in spectator)
    if Nmobile > nmax_sites: return None
    maxdet = min(nmax_sites // Nmobile, 12)
    S = random_superlatt(rng, maxdet)
    sup = supercell.ClusterSupercell(crys, S, spectator=spectator)
    n = sup.size * sup.Nmobile
    vac = None
    if want_vacancy:
        vac = rng.randrange(n)
        sup.addvacancy(vac)
    snap = snapshot(sup)
    # clusters
    mode = rng.random()
    desc = {}
    clusters = []
    if mode < 0.7:
        exclude = [c for c in chems if rng.random() < 0.15]
        if len(exclude) == nchem: exclude = []
        sh = all_shells(crys, exclude)
        if not sh: return None
        k = rng.randint(0, min(4, len(sh) - 1))
        cutoff = sh[k] + 1e-3
        maxorder = rng.randint(2, 4)
        for _try in range(8):
            ce = cluster.makeclusters(crys, cutoff, maxorder, exclude=exclude)
            tot = sum(len(g) for g in ce)
            if tot * sup.size <= ck.n(700, 2500): break
            if maxorder > 2 and (rng.random() < 0.5 or k == 0): maxorder -= 1
            elif k > 0: k -= 1; cutoff = sh[k] + 1e-3
            else: break
        if sum(len(g) for g in ce) * sup.size > ck.n(1500, 5000): return None
        clusters = [list(g) for g in ce]
        desc = dict(kind="makeclusters", cutoff=cutoff, maxorder=maxorder, exclude=exclude)
        if vac is not None:
            ci_vac = sup.mobileindices[vac % sup.Nmobile]
            vchems = [ci_vac[0]] + [c for c in mobile if c != ci_vac[0] and rng.random() < 0.5]
            for vc in vchems:
                if vc in exclude: continue
                clusters += [list(g) for g in cluster.makeVacancyClusters(crys, vc, ce)]
            desc["vacancy_chems"] = vchems
        if rng.random() < 0.3:
            clusters += random_clusters(rng, crys, rng.randint(1, 3),
                                        None if vac is None else sup.mobileindices[vac % sup.Nmobile])
            desc["kind"] += "+random"
    else:
        clusters = random_clusters(rng, crys, rng.randint(2, 6), None if vac is None else sup.mobileindices[vac % sup.Nmobile])
        desc = dict(kind="random")
    if rng.random() < 0.5: rng.shuffle(clusters)
    return dict(label=label, crys=crys, sup=sup, S=S, spectator=spectator, vac=vac, clusters=clusters, desc=desc, n=n,
                Nspec=Nspec * sup.size, snap=snap)


def snapshot(sup):
    """pristine deep copy of a freshly built supercell (with its crystal) + the attribute names of both objects"""
    import copy
    return dict(fresh=copy.deepcopy(sup), supkeys=sorted(vars(sup).keys()), cryskeys=sorted(vars(sup.crys).keys()),
                arrays={(w, k): np.array(v, copy=True) for w, o in (("sup", sup), ("crys", sup.crys)) for k, v in vars(o).items()
                        if isinstance(v, np.ndarray)})


def history_check(ck, cfg, values, socc):
    """after all evaluations: the used supercell / crystal objects carry no new attributes and unmodified arrays, and the
    evaluators give on the used objects exactly what they give on the pristine copy"""
    sup, snap, clusters = cfg["sup"], cfg["snap"], cfg["clusters"]
    rep = dict(describe(cfg), values=np.asarray(values).tolist(), socc=np.asarray(socc).tolist())
    for obj, keys, what in ((sup, snap["supercell" if False else "supkeys"], "ClusterSupercell"), (sup.crys, snap["cryskeys"], "Crystal")):
        now = sorted(vars(obj).keys())
        if now != keys:
            ck.violation("the evaluators left the %s object changed: added attributes %s, removed %s"
                         % (what, sorted(set(now) - set(keys)), sorted(set(keys) - set(now))), rep, key="c32-object-mutated")
    for (w, k), v in snap["arrays"].items():
        cur = getattr(sup if w == "sup" else sup.crys, k, None)
        if cur is None or not np.array_equal(cur, v):
            ck.violation("the evaluators modified the array attribute %s.%s" % (w, k), rep, key="c32-object-mutated"); break
    fresh = snap["fresh"]
    try:
        a = sup.clusterevaluator(socc, clusters, values); b = fresh.clusterevaluator(socc, clusters, values)
        same = (a[0] == b[0]) and np.array_equal(np.asarray(a[1]), np.asarray(b[1]))
        ma = sup.expandcluster_matrices(socc, clusters); mb = fresh.expandcluster_matrices(socc, clusters)
        same = same and all(len(x) == len(y) and all(np.array_equal(p_, q_) for p_, q_ in zip(x, y)) for x, y in zip(ma, mb))
        occs = all_occupations(cfg["n"], cfg["vac"])
        for j in sorted(set([0, len(occs) - 1, len(occs) // 3])):
            same = same and np.array_equal(sup.evalcluster(occs[j], socc, clusters), fresh.evalcluster(occs[j], socc, clusters))
    except Exception as e:
        ck.violation("evaluator raised %s: %s when re-run after the other evaluations" % (type(e).__name__, e), rep, key="c32-history")
        return
    if not same:
        ck.violation("an evaluator returns something else on the used supercell than on a pristine copy built the same way", rep,
                     key="c32-history")


def fixed_config(ck, name, S, cutoff, maxorder, spectator=(), vac=None, exclude=()):
    """small supercells in which a supercell lattice vector equals an in-cluster neighbour vector, so that two sites of
    one cluster image are the same supercell site (clusterevaluator then lists the interaction twice on that site)"""
    from onsager import cluster, supercell
    crys, _ = gen.named(name)
    S = np.array(S, dtype=int)
    sup = supercell.ClusterSupercell(crys, S, spectator=list(spectator))
    n = sup.size * sup.Nmobile
    if vac is not None: sup.addvacancy(vac)
    snap = snapshot(sup)
    ce = cluster.makeclusters(crys, cutoff, maxorder, exclude=list(exclude))
    clusters = [list(g) for g in ce]
    desc = dict(kind="self-imaged" if not exclude else "spectator-only", cutoff=cutoff, maxorder=maxorder, exclude=list(exclude))
    if vac is not None:
        ci_vac = sup.mobileindices[vac % sup.Nmobile]
        clusters += [list(g) for g in cluster.makeVacancyClusters(crys, ci_vac[0], ce)]
    Nspec = sum(len(crys.basis[c]) for c in spectator)
    return dict(label=name, crys=crys, sup=sup, S=S, spectator=sorted(spectator), vac=vac, clusters=clusters, desc=desc, n=n,
                Nspec=Nspec * sup.size, snap=snap)


FIXED = [("fcc", [[1, 0, 0], [0, 3, 0], [0, 0, 3]], 0.75, 3, (), None),          # FCC 1x3x3, nearest neighbours
         ("fcc", [[2, 0, 0], [0, 2, 0], [0, 0, 2]], 1.42, 2, (), 3),             # FCC 2x2x2 primitive cells, cutoff >= sqrt(2) a/... with vacancy
         ("sc", [[1, 0, 0], [0, 2, 0], [0, 0, 3]], 1.01, 3, (), None),
         ("b2", [[1, 0, 0], [0, 2, 0], [0, 0, 2]], 1.01, 3, (0,), None),
         ("b2", [[1, 0, 0], [0, 1, 0], [0, 0, 2]], 1.01, 2, (0,), None, (1,)),   # clusters on the spectator sublattice only
         ("hcp", [[1, 0, 0], [0, 2, 0], [0, 0, 2]], 1.01, 3, (), 2),
         ("bcc", [[2, 0, 0], [0, 2, 0], [0, 0, 1]], 1.01, 2, (), None)]


# ------------------------------------------------------------------------------------------------
# the brute force of the property text (independent of ClusterSupercell.index)
class Brute:
    def __init__(self, cfg):
        sup, crys = cfg["sup"], cfg["crys"]
        self.sup, self.crys = sup, crys
        self.Sinv = np.linalg.inv(cfg["S"].astype(float))
        self.spectator = set(cfg["spectator"])
        self.mobpos, self.specpos = np.array(sup.mobilepos).reshape(-1, 3), np.array(sup.specpos).reshape(-1, 3)
        self.size = abs(int(round(np.linalg.det(cfg["S"]))))
        # one lattice vector per translation class of the supercell (all translations of the property text)
        c0 = next(c for c in range(crys.Nchem) if c not in self.spectator)
        seen, self.trans = set(), []
        m = int(np.abs(cfg["S"]).sum())
        for R in sorted(itertools.product(range(-m, m + 1), repeat=3), key=lambda r: (sum(abs(x) for x in r), r)):
            k = self.locate(np.array(R), (c0, 0))[1]
            if k not in seen:
                seen.add(k); self.trans.append(np.array(R))
                if len(self.trans) == self.size: break
        assert len(self.trans) == self.size
        self.vac = cfg["vac"]
        self.vac_ciR = None
        if self.vac is not None:
            for ci in sup.mobileindices:
                for R in self.trans:
                    if self.locate(R, ci) == (True, self.vac): self.vac_ciR = (ci, R)
            assert self.vac_ciR is not None

    def locate(self, R, ci):
        """(mobile?, index) of the site at lattice vector R, basis atom ci, via the position arrays"""
        x = np.dot(self.Sinv, R + self.crys.basis[ci[0]][ci[1]])
        mob = ci[0] not in self.spectator
        pos = self.mobpos if mob else self.specpos
        d = pos - x
        d -= np.round(d)
        k = np.where(np.sum(d * d, axis=1) < 1e-8)[0]
        assert len(k) == 1, (R, ci, k)
        return mob, int(k[0])

    def instances(self, clusters):
        """[(group, mobile indices, spectator indices)] over clusters x translations"""
        out = []
        for g, grp in enumerate(clusters):
            for cl in grp:
                if cl.__vacancy__:
                    if self.vac is None or cl.vacancy().ci != self.vac_ciR[0]: continue
                    Rs = [self.vac_ciR[1]]
                else:
                    Rs = self.trans
                for R in Rs:
                    mob, spec = [], []
                    for s in cl:                       # the non-special sites
                        m, k = self.locate(R + s.R, s.ci)
                        (mob if m else spec).append(k)
                    out.append((g, mob, spec))
        return out

    def energies(self, inst, values, ngroups, socc, occs):
        """brute-force energy of every row of occs (M x n)"""
        E = np.zeros(len(occs))
        if len(values) > ngroups: E += self.size * values[ngroups]
        for g, mob, spec in inst:
            if g >= len(values): continue
            if not all(socc[k] == 1 for k in spec): continue
            if mob:
                E += values[g] * np.all(occs[:, mob] == 1, axis=1)
            else:
                E += values[g]
        return E


def all_occupations(n, vac):
    free = [i for i in range(n) if i != vac]
    M = 1 << len(free)
    occs = np.zeros((M, n), dtype=int)
    idx = np.arange(M)
    for b, i in enumerate(free):
        occs[:, i] = (idx >> b) & 1
    if vac is not None: occs[:, vac] = -1
    return occs


def eval_matrices(mats, values, size, ngroups, occs):
    counts = np.zeros((len(occs), ngroups + 1))
    counts[:, -1] = size
    for g, mlist in enumerate(mats):
        for m in mlist:
            m = np.asarray(m)
            if m.size == 0:
                if m.ndim == 2: counts[:, g] += m.shape[0]      # rows without mobile sites: always on
                continue
            counts[:, g] += np.all(occs[:, m] == 1, axis=2).sum(axis=1)
    return counts


def eval_interact(si, ia, occs):
    """documented evaluation of (siteinteract, interact): count unoccupied sites per interaction"""
    mult = np.zeros((occs.shape[1], len(ia)))
    for i, l in enumerate(si):
        for m in l: mult[i, m] += 1
    cnt = (occs == 0).astype(float) @ mult
    return ((cnt == 0) * np.asarray(ia, dtype=float)[None, :]).sum(axis=1)


def dotvals(values, counts, ngroups):
    v = np.asarray(values, dtype=float)
    if len(v) > ngroups: return counts @ v
    return counts[..., :len(v)] @ v


def describe(cfg):
    crys = cfg["crys"]
    return dict(crystal=cfg["label"], lattice=crys.lattice.tolist(), basis=[[u.tolist() for u in b] for b in crys.basis],
                superlatt=cfg["S"].tolist(), spectator=cfg["spectator"], vacancy=cfg["vac"], clusters=cfg["desc"],
                cluster_list=[[str(cl) for cl in g] for g in cfg["clusters"]][:40])


# ------------------------------------------------------------------------------------------------
def direct(ck, rng, cfg, br, inst, exhaustive_counter):
    """four implementation evaluators vs brute force, all occupations; returns #occupations"""
    from onsager import cluster
    sup, clusters, n = cfg["sup"], cfg["clusters"], cfg["n"]
    ng = len(clusters)
    nr = ck.nprng(rng.randrange(1 << 30))
    values = nr.normal(size=ng + (1 if rng.random() < 0.75 else 0))
    if rng.random() < 0.15: values = np.round(values * 4) / 4          # ties / exact cancellations
    socc = nr.integers(0, 2, size=cfg["Nspec"])
    occs = all_occupations(n, cfg["vac"])
    Eb = br.energies(inst, values, ng, socc, occs)
    scale = max(1.0, sum(abs(values[g]) for g, _, _ in inst if g < len(values)) + (br.size * abs(values[-1]) if len(values) > ng else 0))
    tol = RTOL * scale
    rep = dict(describe(cfg), values=values.tolist(), socc=socc.tolist())

    def report(name, E, key):
        bad = np.where(~(np.abs(E - Eb) <= tol))[0]
        if len(bad):
            j = int(bad[0])
            ck.violation("%s energy differs from the brute-force sum over clusters by %.3g (tol %.1g) on %d of %d occupations"
                         % (name, abs(E[j] - Eb[j]), tol, len(bad), len(occs)),
                         dict(rep, mocc=occs[j].tolist(), E_impl=float(E[j]), E_brute=float(Eb[j]), evaluator=name), key=key)

    def guarded(name, fn, key):
        try:
            return fn()
        except Exception as e:  # implementation exception inside the domain
            ck.violation("%s raised %s: %s" % (name, type(e).__name__, e), dict(rep, evaluator=name),
                         key=key if key.endswith("no-mobile-interaction") else key + "-exception")
            return None
    # 2. matrices
    mats = guarded("expandcluster_matrices", lambda: sup.expandcluster_matrices(socc, clusters), "c32-matrices")
    if mats is not None:
        report("index-matrix expansion", dotvals(values, eval_matrices(mats, values, sup.size, ng, occs), ng), "c32-matrices")
    # 3. interaction list
    ev = guarded("clusterevaluator", lambda: sup.clusterevaluator(socc, clusters, values), "c32-interact")
    if ev is not None:
        report("interaction-list evaluator", eval_interact(ev[0], ev[1], occs), "c32-interact")
    # 4. sampler
    def samp():
        mc = cluster.MonteCarloSampler(sup, socc, clusters, values)
        E = np.zeros(len(occs))
        for j, o in enumerate(occs):
            mc.start(o.copy()); E[j] = mc.E()
        return E
    E = guarded("MonteCarloSampler", samp, "c32-sampler")
    if E is not None: report("Monte Carlo sampler", E, "c32-sampler")
    # 4b. the same occupations REACHED by update(): a Gray-code walk visits every occupation by single-site updates;
    #     random multi-site updates (several sites occupied and unoccupied in one call) between random occupations
    free = [i for i in range(n) if i != cfg["vac"]]
    # a cluster set without any mobile interaction gives the sampler a siteinteract array of shape (0,): start() then
    # registers no site at all and update() raises KeyError -- its own class of failing input
    ukey = "c32-sampler-update" if (ev is None or any(len(l) for l in ev[0])) else "c32-sampler-no-mobile-interaction"
    def samp_walk():
        mc = cluster.MonteCarloSampler(sup, socc, clusters, values)
        mc.start(occs[0].copy())
        E = np.full(len(occs), np.nan); E[0] = mc.E()
        idx = 0
        for g in range(1, len(occs)):
            b = (g & -g).bit_length() - 1
            idx ^= (1 << b)
            if occs[idx, free[b]] == 1: mc.update(occsites=[free[b]])
            else: mc.update(unoccsites=[free[b]])
            E[idx] = mc.E()
        if not np.array_equal(np.asarray(mc.occ), occs[idx]): raise RuntimeError("sampler occupation differs from the updates applied")
        return E
    if len(occs) > 1:
        E = guarded("MonteCarloSampler.update (single-site walk)", samp_walk, ukey)
        if E is not None: report("Monte Carlo sampler after single-site update()", E, ukey)
        def samp_multi():
            mc = cluster.MonteCarloSampler(sup, socc, clusters, values)
            pairs = [(int(nr.integers(0, len(occs))), int(nr.integers(0, len(occs)))) for _ in range(ck.n(60, 200))]
            out = []
            for a_, b_ in pairs:
                mc.start(occs[a_].copy())
                on = [i for i in free if occs[a_, i] == 0 and occs[b_, i] == 1]
                off = [i for i in free if occs[a_, i] == 1 and occs[b_, i] == 0]
                mc.update(occsites=on, unoccsites=off)
                out.append((b_, mc.E()))
            return out
        res = guarded("MonteCarloSampler.update (multi-site)", samp_multi, ukey) if E is not None else None
        if res is not None:
            bad = [(j, e) for j, e in res if not abs(e - Eb[j]) <= tol]
            if bad:
                j, e = bad[0]
                ck.violation("Monte Carlo sampler after a multi-site update() differs from the brute-force sum over clusters by %.3g on %d of %d updates"
                             % (abs(e - Eb[j]), len(bad), len(res)),
                             dict(rep, mocc=occs[j].tolist(), E_impl=float(e), E_brute=float(Eb[j]), evaluator="sampler-update"),
                             key=ukey)
    if ev is not None:
        cfg["self_imaged"] = any(len(set(l)) < len(l) for l in ev[0])
    # 1. cluster counter (slow: python loops) -- exhaustive when affordable, else a structured + random subset
    # evalcluster costs ~9 us per cluster image: all occupations when that fits the budget of the tier
    if (exhaustive_counter and len(occs) * len(inst) * 9e-6 <= ck.n(5.0, 60.0)) or len(occs) <= 64:
        sel = np.arange(len(occs))
    else:
        sel = np.unique(np.concatenate([[0, len(occs) - 1], nr.integers(0, len(occs), size=ck.n(150, 600))]))
    def cnt():
        return np.array([dotvals(values, sup.evalcluster(occs[j], socc, clusters).astype(float), ng) for j in sel])
    E = guarded("evalcluster", cnt, "c32-counter")
    if E is not None:
        bad = np.where(~(np.abs(E - Eb[sel]) <= tol))[0]
        if len(bad):
            j = int(sel[bad[0]])
            ck.violation("cluster counter energy differs from the brute-force sum over clusters by %.3g on %d of %d occupations"
                         % (abs(E[bad[0]] - Eb[j]), len(bad), len(sel)),
                         dict(rep, mocc=occs[j].tolist(), E_impl=float(E[bad[0]]), E_brute=float(Eb[j]), evaluator="evalcluster"),
                         key="c32-counter")
    return len(occs), len(sel), values, socc


def coq_case(ck, rng, cfg, br, inst):
    """exact integer case: implementation outputs + Coq term"""
    from onsager import cluster
    sup, clusters, n = cfg["sup"], cfg["clusters"], cfg["n"]
    ng = len(clusters)
    values = [rng.randint(-9, 9) for _ in range(ng + (1 if rng.random() < 0.75 else 0))]
    socc = [rng.randint(0, 1) for _ in range(cfg["Nspec"])]
    occs = all_occupations(n, cfg["vac"])
    if len(occs) > 40:
        pick = sorted(set([0, len(occs) - 1] + [rng.randrange(len(occs)) for _ in range(ck.n(10, 24))]))
        occs = occs[pick]
    socc_a = np.array(socc, dtype=int)
    mats = sup.expandcluster_matrices(socc_a, clusters)
    si, ia = sup.clusterevaluator(socc_a, clusters, values)
    mc = cluster.MonteCarloSampler(sup, socc_a, clusters, values)
    Eb = br.energies(inst, np.array(values, dtype=float), ng, socc, occs)
    rows, reported = [], False
    for o, eb in zip(occs, Eb):
        cnts = sup.evalcluster(o, socc_a, clusters)
        e1 = int(dotvals(values, cnts.astype(float), ng))
        e2 = int(round(float(dotvals(values, eval_matrices(mats, values, sup.size, ng, o[None, :]), ng)[0])))
        e3 = int(round(float(eval_interact(si, ia, o[None, :])[0])))
        mc.start(o.copy())
        e4 = int(mc.E())
        rows.append("(%s, %s, (%s, %s, %s, %s))" % (cZlist(o), cnatlist(cnts), coq_Z(e1), coq_Z(e2), coq_Z(e3), coq_Z(e4)))
        if not (e1 == e2 == e3 == e4 == int(round(eb))) and not reported:
            reported = True
            ck.violation("integer-valued energies disagree: counter %d, matrices %d, interaction list %d, sampler %d, brute force %d"
                         % (e1, e2, e3, e4, int(round(eb))),
                         dict(describe(cfg), values=values, socc=socc, mocc=o.tolist()), key="c32-integer")
    matl = []
    for mlist in mats:
        gl = []
        for m in mlist:
            m = np.asarray(m)
            gl.append([] if m.ndim < 2 else [[int(x) for x in r] for r in m])
        matl.append(gl)
    crys = cfg["crys"]
    sc = "(mkSup %s %s %s %s)" % (cmat(cfg["S"]), cnatlist([len(b) for b in crys.basis]), cnatlist(sup.spectator),
                                   "None" if cfg["vac"] is None else "(Some %s)" % cnat(cfg["vac"]))
    term = "(mkCase %s %s %s %s %s %s %s %s %s %s %s)" % (
        sc, coq_list([coq_list([ccluster(c) for c in g]) for g in clusters]), cZlist(values), cZlist(socc),
        coq_list([cvec(t) for t in sup.translist]), coq_list([cvec(t) for t in sup.Rveclist]), cnat(n),
        coq_list([coq_list([cnat2(m) for m in gl]) for gl in matl]), cnat2(si), cZlist(ia), coq_list(rows))
    return term, dict(values=values, socc=socc, nocc=len(occs))


def run_coq(ck, name, terms, chunk=6):
    import re
    codes = []
    for a in range(0, len(terms), chunk):
        body = "Eval vm_compute in (map run %s)." % coq_list(terms[a:a + chunk])
        out = ck.coq_cases("%s_%d" % (name, a), body, IMPORTS)
        txt = out[out.index("="):] if "=" in out else ""
        txt = txt.split(": list nat")[0]
        got = [int(x) for x in re.findall(r"\d+", txt.replace("%nat", ""))]
        if len(got) != len(terms[a:a + chunk]):
            raise CoqFailure("could not parse model output: " + out[:300])
        codes += got
    return codes


def run(ck):
    ck.rule = ("3-D crystal pool (named + random systems, 1-3 chemistries, 1-2 atoms each) x random spectator subset x random "
               "integer supercell matrix (|det| <= 12, non-diagonal, negative det) x {makeclusters(cutoff at 1st-3rd shell, "
               "order 2-4, exclusions) [+ makeVacancyClusters] [+ hand-built random clusters], hand-built only} x "
               "{no vacancy, vacancy at a random site}; direct tier: float values, random spectator occupation, ALL 2^n "
               "mobile occupations, the sampler both right after start() and reached by update() (Gray-code walk of single-site updates "
               "through all occupations + random multi-site updates); fixed small supercells whose lattice vectors equal in-cluster "
               "neighbour vectors (self-imaged clusters: FCC 1x3x3, 2x2x2, sc 1x2x3, B2 1x2x2, ...); correspondence tier: integer values, all (n<=5) or sampled occupations, compared in Coq. "
               "One case = one (supercell, clusters, values, spectator occupation); non-trivial = at least one mobile "
               "interaction and two cells or two mobile sites.")
    ck.trusted += ["harness/c32.py (brute force from the property text; site lookup through mobilepos/specpos)",
                   "hand-written Gallina model of evalcluster/expandcluster_matrices/clusterevaluator/MonteCarloSampler.start,E "
                   "(structurally compared with the implementation on every run)"]
    ck.theorems()
    rng = ck.rng
    # (max mobile sites, exhaustive counter?) per configuration
    if ck.quick:
        plan = [(6, True)] * 5 + [(8, True)] * 6 + [(10, True)] * 4 + [(12, False)] * 2 + [(13, False)]
    else:
        plan = [(6, True)] * 20 + [(8, True)] * 20 + [(10, True)] * 12 + [(12, True)] * 5 + [(13, False)] * 4 + [(14, False)] * 3
    terms, infos = [], []
    skipped = {"too-many-sites": 0, "construct-failed": 0}
    nocc_total = ncounter_total = 0
    hist = {}
    fixed = FIXED if not ck.quick else FIXED[:5]
    plan = [("fixed", f) for f in fixed] + plan
    nself = 0
    for k, (nmax, exh) in enumerate(plan):
        cfg = None
        if nmax == "fixed":
            cfg = fixed_config(ck, *exh); exh = True; nmax = cfg["n"]
        for _try in range(30 if cfg is None else 0):
            try:
                cfg = make_config(ck, rng, nmax, want_vacancy=(k % 2 == 1))
            except Exception as e:
                # construction problems of crystals / clusters are not this property's business
                skipped["construct-failed"] += 1; cfg = None; continue
            if cfg is None: skipped["too-many-sites"] += 1; continue
            if cfg["n"] >= max(2, nmax - 2): break
        if cfg is None: continue
        br = Brute(cfg)
        inst = br.instances(cfg["clusters"])
        nmob = sum(1 for _, mob, _ in inst if mob)
        for rep in range(ck.n(1, 2)):
            nocc, ncnt, values, socc = direct(ck, rng, cfg, br, inst, exh)
            nocc_total += nocc; ncounter_total += ncnt
            kind = "n=%d%s-%s" % (cfg["n"], "-vac" if cfg["vac"] is not None else "", cfg["desc"]["kind"])
            hist[cfg["n"]] = hist.get(cfg["n"], 0) + 1
            nself += bool(cfg.get("self_imaged"))
            ck.case(key=("direct", describe(cfg), values.tolist(), socc.tolist()), nontrivial=(nmob > 0 and cfg["n"] >= 2),
                    kind="direct:" + kind,
                    sample=dict(tier="direct", **{k2: v for k2, v in describe(cfg).items() if k2 != "cluster_list"},
                                n_mobile_sites=cfg["n"], occupations=nocc, cluster_images=len(inst)) if len(ck.samples) < 3 else None)
        if len(terms) < ck.n(12, 60) and len(inst) <= 1200:
            term, info = coq_case(ck, rng, cfg, br, inst)
            terms.append(term); infos.append((cfg, info, nmob))
        history_check(ck, cfg, values, socc)
    try:
        codes = run_coq(ck, "corr", terms)
    except CoqFailure as e:
        ck.broken_proof = "correspondence Model/Energy: %s" % e
        codes = []
    for (cfg, info, nmob), c in zip(infos, codes):
        kind = "n=%d%s-%s" % (cfg["n"], "-vac" if cfg["vac"] is not None else "", cfg["desc"]["kind"])
        ck.case(key=("coq", describe(cfg), info["values"], info["socc"]), nontrivial=(nmob > 0 and cfg["n"] >= 2), kind="coq:" + kind,
                sample=dict(tier="coq", crystal=cfg["label"], superlatt=cfg["S"].tolist(), vacancy=cfg["vac"], values=info["values"],
                            occupations=info["nocc"]) if len(ck.samples) < 5 else None)
        if c in (5, 9):
            raise RuntimeError("harness produced a case outside the domain: code %d" % c)
        if c != 0:
            ck.violation("model/implementation correspondence: %s" % MEANING.get(c, c),
                         dict(describe(cfg), values=info["values"], socc=info["socc"], model_code=c), key="c32-corr-%d" % c)
    ck.extra["exhaustive"] = True
    ck.extra["occupations_evaluated"] = nocc_total
    ck.extra["occupations_evaluated_by_counter"] = ncounter_total
    ck.extra["mobile_sites_histogram"] = {str(k): v for k, v in sorted(hist.items())}
    ck.extra["self_imaged_supercells"] = nself
    ck.extra["coq_cases"] = len(codes)
    ck.extra["traces_validated_against_impl"] = len(codes)
    ck.extra["skipped"] = skipped
    ck.note("direct: %d occupations (all 2^n of %d supercells, %d of them with self-imaged clusters; counter on %d; sampler also "
            "reached by update()); coq cases: %d" % (nocc_total, sum(hist.values()), nself, ncounter_total, len(codes)))
