"""C03  Transport tensors are symmetric, non-negative and crystal-invariant.

Theorems (Properties/C03.v, every ordered ring / network / torus size): L symmetric; L_AA >= 0 in every direction
(scalar and 2-plane tensor form); a crystal operation that maps the edge multiset onto itself gives L = R L R^T
(L_iso) and the executable check of that premise is sound.
Tie: (a) exact - for each interstitial-type network of the pool with rational geometry and dyadic rates the Coq
checker over Z decides, for EVERY operation of crys.G, that (g.rot, g.indexmap) maps the implementation's
jump network with its class rates onto itself (the premise of L_iso), and encloses the implementation's D by the
exact coefficient (as C02);  (b) direct evaluator on the implementation, floats: symmetry, invariance under every
g, positive semidefiniteness of D, L0vv, Lss; symmetry/invariance of Lsv, L1vv and the elastodiffusion tensor;
rate ratios up to 1e12 (tolerance scaled by ratio*eps: the exact model cannot exhibit rounding - partial);
(c) cross tensor Lsv: Onsager reciprocity exchanges species AND indices, so symmetry of Lsv in its Cartesian indices
is refuted in general (C03_cross_symmetric_refuted) and proved exactly when the point group has no invariant
antisymmetric tensor (C03_cross_symmetric_partial, executable criterion no_axialb).  Exact tier: on one-site crystals
(rect/square: criterion true; oblique/monoclinic/triclinic: false) Coq evaluates the exact cross tensor of the
solute-vacancy torus chain from a corrector certificate (cross_report), encloses the implementation's Lsv (torus GF
injected) by it, evaluates the criterion on crys.G and reports whether the exact tensor is symmetric.  On crystals whose
group admits an antisymmetric invariant the exact Lsv is NOT symmetric and the code reproduces it: known finding
c03-Lsv-asym-axialgroup (the property text over-claims there; symmetrising would break C01)."""
META = dict(
    level="proof",
    text=("Theorems: symmetry, non-negativity (scalar and tensor form) and invariance under every network automorphism "
          "for all reversible networks over any ordered ring; sound executable symmetry checker. Tie: Coq decides over Z that "
          "every op of crys.G maps the implementation's network (jumps + class rates) onto itself; float evaluator of "
          "symmetry/invariance/PSD on all tensors incl. elastodiffusion and extreme rate ratios."),
    note=("Trusted: Coq kernel/vm_compute; network construction from the implementation's jumpnetwork; float tolerances "
          "1e-9..1e-7 relative (scaled by rate-ratio*eps in the extreme regime, which the exact model cannot exhibit)."),
    technique="Coq proof (L_sym, L_psd, L_iso, cross-tensor criterion + refutation) + symmetry-checker and exact cross-tensor correspondence over Z + float evaluator",
)

import numpy as np
from fractions import Fraction
from . import gen, vm, netcase, tcommon, exact
from .lib import CoqFailure, coq_Z, coq_nat, coq_list

K_AXIAL = "c03-Lsv-asym-axialgroup"

CROSS_IMPORTS = """From Coq Require Import List ZArith Bool Arith.
From Onsager Require Import Base.OrdRing Base.Instances Model.Net Model.Interstitial Model.NetMaps Model.Lump Model.TensorSym.
Import ListNotations.
Local Open Scope Z_scope.
Definition mk (a : nat * nat * Z * list Z) : edge Zring := let '(s, t, c, d) := a in mkEdge (K:=Zring) s t c d.
Definition runcross (c : nat * nat * list (nat * nat * Z * list Z) * list (list Z) * list (list (list Z) * list nat * list nat) * list (list Z) * list (list Z)) : nat :=
  let '(n, dim, es, gam, ops, lo, hi) := c in cross_code (K:=Zring) n dim (map mk es) gam ops lo hi.
"""


def cross_term(d, th, M, Lsv_impl, tol):
    """exact pair chain (both species' displacements, lattice coordinates) + corrector certificate + integer enclosure of the
    implementation's Lsv + the point group in lattice coordinates, as a Coq term for cross_code"""
    from .c07 import exact_edges
    crys = d.crys; dim = crys.dim; N = d.N
    edges = exact_edges(d, th, M)
    if edges is None: return None
    c = vm.torus_chain(d, *d.preene2betafree(1.0, **th), M=M, solute=True)
    n = c.n
    index = {st: x for x, st in enumerate(c.states)}
    basis = crys.basis[d.chem]
    gam = exact.corrector(n, edges, 2 * dim)
    if gam is None: return None
    sc = exact.lcm_den([e[2] for e in edges])
    sd = exact.lcm_den([v for e in edges for v in e[3]])
    sg = exact.lcm_den([g * sd for gk in gam for g in gk])
    s = sd * sg
    F = lambda x: Fraction(float(x))
    ZV = sum(F(th["preV"][d.invmap[i]]) for i in range(N)); ZS = sum(F(th["preS"][d.invmap[i]]) for i in range(N))
    # implementation: Lsv[a,b] = (vacancy a, solute b), Cartesian; chain: X[a][b] = Bform(S_a, V_b) = 2 * (ZV ZS / N) * sc * s^2 * L_latt[a][b]
    Ll = (crys.invlatt @ np.asarray(Lsv_impl).T @ crys.invlatt.T)
    fac = 2 * ZV * ZS / N * sc * s * s
    width = tol * np.abs(Ll).max()
    lo = [[exact.ffloor(F(Ll[a, b] - width) * fac) for b in range(dim)] for a in range(dim)]
    hi = [[exact.fceil(F(Ll[a, b] + width) * fac) for b in range(dim)] for a in range(dim)]
    enc = lambda e: "(%s, %s, %s, %s)" % (coq_nat(e[0]), coq_nat(e[1]), coq_Z(int(e[2] * sc)), coq_list([coq_Z(int(v * s)) for v in e[3]]))
    mat = lambda m: coq_list([coq_list([coq_Z(int(x)) for x in row]) for row in m])
    # every space-group operation as (rotation in lattice coordinates, permutation of the chain's states, its inverse)
    opl = []
    for g in crys.G:
        imap = g.indexmap[d.chem]
        cell = [np.round(g.rot @ basis[i] + g.trans - basis[imap[i]]).astype(int) for i in range(N)]
        p = []
        for (s_, v_, R) in c.states:
            cs = cell[s_]; cv = g.rot @ np.array(R) + cell[v_]
            p.append(index[(imap[s_], imap[v_], tuple(int(x) for x in (cv - cs) % M))])
        q = [0] * n
        for a, b in enumerate(p): q[b] = a
        opl.append("(%s, %s, %s)" % (mat(g.rot.tolist()), coq_list([coq_nat(x) for x in p]), coq_list([coq_nat(x) for x in q])))
    Rs = coq_list(opl)
    bits = max(int(abs(int(g * s))).bit_length() for gk in gam for g in gk)
    term = "(%s, %s, %s, %s, %s, %s, %s)" % (coq_nat(n), coq_nat(dim), coq_list([enc(e) for e in edges]),
                                          coq_list([coq_list([coq_Z(int(g * s)) for g in gk]) for gk in gam]), Rs, mat(lo), mat(hi))
    return term, dict(n=n, edges=len(edges), bits=bits)


def check_tensor(ck, name, T, crys, psd, tol, doc, keypre):
    scale = max(np.abs(T).max(), 1e-300)
    if not np.all(np.isfinite(T)):
        ck.violation("%s is not finite" % name, doc, key=keypre + "-finite"); return
    if tcommon.sym_err(T) > tol * scale:
        ck.violation("%s not symmetric: %.3g relative" % (name, tcommon.sym_err(T) / scale), doc, key=keypre + "-sym")
    e = tcommon.inv_err(crys, T)
    if e > max(tol, 1e-9) * 10 * scale:
        ck.violation("%s not invariant under the point group: %.3g relative" % (name, e / scale), doc, key=keypre + "-inv")
    if psd:
        m = tcommon.min_eig(T)
        if m < -tol * scale:
            ck.violation("%s not positive semidefinite: min eigenvalue %.3g (scale %.3g)" % (name, m, scale), doc, key=keypre + "-psd")


def run(ck):
    ck.rule = ("interstitial pool (named+random, 2-D/3-D) x percolating cutoff x random data incl. rate ratios to 1e12; "
               "vacancy-mediated calculators on small crystals x random interactions; exact tier: every g in crys.G checked "
               "by Coq on the integer network; distinct = (crystal, data); non-trivial = |G|>1 or >=2 jump classes")
    ck.trusted += ["harness/tcommon.py network + operation encoding (g.rot on lattice-coordinate displacements, g.indexmap on sites)"]
    ck.theorems()
    rng = ck.rng
    # ---------------- interstitial: exact symmetry tier + float evaluator ------------------------------
    sym_terms, sym_meta = [], []
    enc_terms, enc_meta = [], []
    nfl = 0
    for label, crys, chem, cut, sl, jn, d in tcommon.interstitial_pool(ck, rng, ck.n(14, 70)):
        jumps = tcommon.unitcell_network(crys, jn)
        if jumps is not None and len(jumps) <= 80:
            preT = [gen.dyadic(rng, 0.25, 4.0, 3) for _ in jn]
            pre = [gen.dyadic(rng, 0.5, 2.0, 3) for _ in sl]
            ops = [(g.rot.tolist(), list(g.indexmap[chem])) for g in crys.G]
            sym_terms.append(tcommon.sym_term(d.N, crys.dim, [Fraction(p) for p in preT], jumps, ops))
            sym_meta.append(dict(label=label, crys=repr(crys), cut=cut, nops=len(ops), njumps=len(jumps), preT=preT))
            D = d.diffusivity(np.array(pre), np.zeros(len(sl)), np.array(preT), np.zeros(len(jn)))
            Dl = crys.invlatt @ D @ crys.invlatt.T
            Z = sum(Fraction(pre[d.invmap[i]]) for i in range(d.N))
            term, info = netcase.integer_case(d.N, crys.dim, [Fraction(p) for p in preT], jumps, Dl, 1e-9 * np.abs(Dl).max(), 2 * Z)
            if term is not None and info["bits"] < 3000:
                enc_terms.append(term); enc_meta.append(dict(label=label, crys=repr(crys), cut=cut, pre=pre, preT=preT, D=D.tolist()))
        # float evaluator
        nr = ck.nprng(rng.randrange(1 << 30))
        for rep in range(ck.n(3, 5)):
            spread = [1.0, 3.0, 7.0][rep % 3] if rep < 3 else rng.choice([1.0, 5.0])
            pre, bE, preT, bET = tcommon.random_interstitial_data(nr, sl, jn, spread)
            ratio = np.exp(4 * spread)
            tol = max(1e-9, 1e-14 * ratio)
            doc = {"crystal": repr(crys), "chem": chem, "cutoff": cut, "pre": pre.tolist(), "betaene": bE.tolist(),
                   "preT": preT.tolist(), "betaeneT": bET.tolist()}
            try:
                D = d.diffusivity(pre, bE, preT, bET)
                dip = [nr.uniform(-1, 1, (crys.dim, crys.dim)) for _ in sl]
                dipT = [nr.uniform(-1, 1, (crys.dim, crys.dim)) for _ in jn]
                D2, dD = d.elastodiffusion(pre, bE, dip, preT, bET, dipT)
            except Exception as e:
                ck.violation("interstitial calculator raised %r" % e, doc, key="c03-raise"); continue
            nfl += 1
            ck.case(key=("int", label, round(cut, 5), pre.round(12).tolist(), bE.round(12).tolist(), preT.round(12).tolist(), bET.round(12).tolist()),
                    nontrivial=(len(crys.G) > 1 or len(jn) > 1), kind="interstitial:%dD-spread%g" % (crys.dim, spread),
                    sample={"crystal": label, "G": len(crys.G), "D": D.tolist(), "spread": spread} if nfl <= 2 else None)
            doc["D"] = D.tolist()
            check_tensor(ck, "interstitial D", D, crys, True, tol, doc, "c03-D")
            # the diffusivity returned alongside the elastodiffusion tensor is the same tensor (symmetric, PSD, invariant)
            doc["D_from_elastodiffusion"] = D2.tolist()
            check_tensor(ck, "D returned by elastodiffusion()", D2, crys, True, tol, doc, "c03-D-elasto")
            if np.abs(D2 - D).max() > max(tol, 1e-9) * 10 * max(np.abs(D).max(), 1e-300):
                ck.violation("elastodiffusion() returns a diffusivity that differs from diffusivity() by %.3g relative"
                             % (np.abs(D2 - D).max() / max(np.abs(D).max(), 1e-300)), doc, key="c03-D-elasto-differs")
            # elastodiffusion: symmetric in (ab) and (cd), invariant as a rank-4 tensor
            sc = max(np.abs(dD).max(), 1e-300)
            e1 = np.abs(dD - dD.transpose(1, 0, 2, 3)).max(); e2 = np.abs(dD - dD.transpose(0, 1, 3, 2)).max()
            if max(e1, e2) > max(tol, 1e-9) * 10 * sc:
                ck.violation("elastodiffusion tensor not symmetric in its index pairs: %.3g" % (max(e1, e2) / sc), doc, key="c03-dD-sym")
            e4 = tcommon.inv_err4(crys, dD)
            if e4 > max(tol, 1e-9) * 100 * sc:
                ck.violation("elastodiffusion tensor not invariant under the point group: %.3g" % (e4 / sc), doc, key="c03-dD-inv")
    try:
        bad = tcommon.run_sym(ck, "sym", sym_terms)
        codes = netcase.run_cases(ck, "enc", enc_terms)
    except CoqFailure as e:
        ck.broken_proof = "correspondence isob/diagnose: %s" % e
        bad, codes = [], []
    nops = 0
    for m, b in zip(sym_meta, bad):
        nops += m["nops"]
        ck.case(key=("sym", m["label"], m["cut"], m["preT"]), nontrivial=m["nops"] > 1, kind="exact-sym:|G|=%d" % m["nops"],
                sample={"tier": "exact-symmetry", "crystal": m["label"], "ops": m["nops"], "jumps": m["njumps"]})
        if b != 0:
            ck.violation("%d of %d operations of crys.G do not map the jump network (with class rates) onto itself" % (b, m["nops"]),
                         m, key="c03-network-not-symmetric")
    for m, c in zip(enc_meta, codes):
        if c == 4: raise RuntimeError("harness certificate rejected")
        if c != 0:
            ck.violation("exact enclosure failed (code %d)" % c, m, key="c03-exact-%d" % c)
    ck.extra["group_operations_checked_in_coq"] = nops
    ck.extra["traces_validated_against_impl"] = len(bad) + len(codes)
    # ---------------- exact cross tensor of the solute-vacancy chain (one-site crystals) -----------------------
    cterms, cmeta = [], []
    for nm in (["rect", "oblique1"] if ck.quick else ["rect", "oblique1", "square", "oblique1", "mono", "tric"]):
        crys, chem = gen.named(nm)
        net = gen.percolating_network(crys, chem, rng, maxshell=1, maxjumps=30)
        if net is None: continue
        cut, sl, jn = net
        d = vm.make(crys, chem, sl, jn, 1)
        M = vm.min_torus(d)
        if d.N * d.N * M ** crys.dim > (150 if ck.quick else 400): continue
        for attempt in range(4):
            th = vm.random_thermo(d, rng, interact=True, site_energies=False, dyadic=True)
            args = d.preene2betafree(1.0, **th)
            try:
                I = vm.inject(d, args, M)
            except Exception as e:
                ck.violation("Lij raised %r" % e, {"crystal": nm}, key="c03-raise"); break
            r = cross_term(d, th, M, I[2], 1e-9)
            if r is None or r[1]["bits"] > 4000: continue
            cterms.append(r[0])
            cmeta.append(dict(crystal=nm, cutoff=cut, M=M, thermo={k: np.asarray(v).tolist() for k, v in th.items()}, Lsv=I[2].tolist(),
                              axial_dim=tcommon.axial_dim(crys), **r[1]))
            break
    ccodes = []
    try:
        for a in range(0, len(cterms), 2):
            out = ck.coq_cases("cross_%d" % a, "Eval vm_compute in (map runcross %s)." % coq_list(cterms[a:a + 2]), CROSS_IMPORTS)
            import re
            txt = out[out.index("="):].split(":")[0] if "=" in out else ""
            got = [int(x) for x in re.findall(r"\d+", txt.replace("%nat", ""))]
            if len(got) != len(cterms[a:a + 2]): raise CoqFailure("could not parse model output: " + out[:300])
            ccodes += got
    except CoqFailure as e:
        ck.broken_proof = "correspondence cross_code: %s" % e
        ccodes = []
    for m, c in zip(cmeta, ccodes):
        ck.case(key=("cross", m["crystal"], m["thermo"]), nontrivial=True, kind="exact-cross:%s:code%d" % (m["crystal"], c),
                sample={"tier": "exact-cross-tensor", "crystal": m["crystal"], "states": m["n"], "code": c, "axial_dim": m["axial_dim"]})
        if c == 4: raise RuntimeError("harness certificate rejected (cross tensor)")
        if c == 6:
            ck.violation("some operation of crys.G does not map the solute-vacancy chain built from the calculator's classes onto itself "
                         "(premise of C03_cross_invariant fails)", m, key="c03-cross-not-invariant"); continue
        if c == 5:
            ck.violation("Lsv (torus GF injected) is not enclosed by the exact cross tensor of the solute-vacancy chain", m, key="c03-cross-enclosure")
            continue
        crit, symm = (c - 10) // 2, (c - 10) % 2
        if crit != (1 if m["axial_dim"] == 0 else 0):
            raise RuntimeError("harness: no_axialb (Coq, lattice coordinates) disagrees with axial_dim (numpy, Cartesian)")
        if crit == 1 and symm == 0:
            raise RuntimeError("model contradiction: C03_cross_symmetric_checker_sound excludes an asymmetric exact tensor here")
        if crit == 0 and symm == 0:
            ck.violation("Lsv is not symmetric in its Cartesian indices on a crystal whose point group leaves an antisymmetric tensor "
                         "invariant (exact cross tensor of the chain, enclosing the implementation's value, is asymmetric)", m, key=K_AXIAL)
    ck.extra["exact_cross_tensor_cases"] = len(ccodes)
    # ---------------- vacancy-mediated tensors -----------------------------------------------------------
    names = ["rect", "oblique1", "square", "mono", "honeycomb", "ortho", "sq2w", "tria", "chiral:p4", "oblique2d", "sc", "b2"] + ([] if ck.quick else ["rect-polar2d", "tria-disp", "polar3w2d", "polar", "tric", "chiral:p3", "chiral:P4/m", "chiral:p6", "chiral:P-3", "hcp", "fcc", "bcc", "re3", "tet", "hcp-nonideal"])
    nvm = 0
    for rep in range(ck.n(10, 28)):
        nm = names[rep % len(names)] if rep < len(names) else rng.choice(names)
        if nm.startswith("chiral:"):
            from . import starcase
            crys, chem = starcase.chiral_crystal(nm[7:])[:2]
        else:
            crys, chem = gen.named(nm)
        net = gen.percolating_network(crys, chem, rng, maxshell=1, maxjumps=30)
        if net is None: continue
        cut, sl, jn = net
        d = vm.make(crys, chem, sl, jn, 1)
        for r2 in range(ck.n(2, 3)):
            th = vm.random_thermo(d, rng, interact=True, site_energies=True)
            if r2 == 1:  # strong / weak exchange
                th["eneT2"] = th["eneT2"] + rng.choice([-6.0, 6.0])
            if r2 == 0 and not vm.exchange_mixes_stars(d):
                # exchange fast enough for the large-omega2 algorithm, inequivalent exchange classes spread over decades
                # (crystals outside the known large-omega2 failure regimes of C08 only)
                th["preT2"] = th["preT2"] * 10.0 ** rng.uniform(9, 11) * np.array([10.0 ** rng.uniform(0, 3) for _ in th["preT2"]])
            args = d.preene2betafree(1.0, **th)
            doc = {"crystal": nm, "cutoff": cut, "thermo": {k: np.asarray(v).tolist() for k, v in th.items()}}
            try:
                L0vv, Lss, Lsv, L1vv = [np.array(x) for x in d.Lij(*args)]
            except Exception as e:
                ck.violation("Lij raised %r" % e, doc, key="c03-raise"); continue
            nvm += 1
            ck.case(key=("vm", nm, [np.asarray(a).round(12).tolist() for a in args]), nontrivial=True, kind="vm:%s" % nm,
                    sample={"crystal": nm, "Lss": Lss.tolist()} if nvm <= 2 else None)
            doc.update(L0vv=L0vv.tolist(), Lss=Lss.tolist(), Lsv=Lsv.tolist(), L1vv=L1vv.tolist())
            check_tensor(ck, "L0vv", L0vv, crys, True, 1e-9, doc, "c03-L0vv")
            check_tensor(ck, "Lss", Lss, crys, True, 1e-6, doc, "c03-Lss")
            # Lsv and L1vv are differences of terms proportional to the exchange rate: rounding grows like eps * (omega2/omega0)
            # (measured 2e-17 * ratio on oblique/monoclinic lattices, where symmetry does not force the pieces to be symmetric)
            r20 = float(np.exp(-np.min(args[5])) / np.exp(-np.min(args[3])))
            tolc = max(1e-7, 1e-15 * r20)
            if tcommon.axial_dim(crys) > 0:
                # the exact Lsv is not symmetric here (C03_cross_symmetric_refuted); invariance is still required
                scale = max(np.abs(Lsv).max(), 1e-300)
                if tcommon.inv_err(crys, Lsv) > 10 * tolc * scale:
                    ck.violation("Lsv not invariant under the point group: %.3g relative" % (tcommon.inv_err(crys, Lsv) / scale), doc, key="c03-Lsv-inv")
                if tcommon.sym_err(Lsv) > tolc * scale:
                    ck.violation("Lsv not symmetric: %.3g relative (point group admits an invariant antisymmetric tensor)"
                                 % (tcommon.sym_err(Lsv) / scale), doc, key=K_AXIAL)
            else:
                check_tensor(ck, "Lsv", Lsv, crys, False, tolc, doc, "c03-Lsv")
            check_tensor(ck, "L1vv", L1vv, crys, False, tolc, doc, "c03-L1vv")
    ck.extra["float_interstitial_cases"] = nfl
    ck.extra["float_vacancy_cases"] = nvm
