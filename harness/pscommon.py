"""Helpers shared by the checks C13, C14, C15, C36 (value types / cache / HDF5 / tags)."""
import re
import numpy as np
from .lib import CoqFailure, coq_list


class Once:
    """report at most one violation per key (the first failing input); count the rest"""
    def __init__(self, ck):
        self.ck, self.seen = ck, {}

    def __call__(self, what, replay, key):
        n = self.seen.get(key, 0)
        self.seen[key] = n + 1
        if n == 0:
            self.ck.violation(what, replay, key=key)
        self.ck.extra["violations_per_key"] = dict(self.seen)


def run_nat_cases(ck, name, imports, fn, terms, chunk=150):
    """Eval vm_compute in (map fn [terms]) -> list of nat codes"""
    codes = []
    for a in range(0, len(terms), chunk):
        body = "Eval vm_compute in (map %s %s)." % (fn, coq_list(terms[a:a + chunk]))
        out = ck.coq_cases("%s_%d" % (name, a), body, imports)
        txt = out[out.index("="):] if "=" in out else ""
        txt = txt.split(":")[0]
        got = [int(x) for x in re.findall(r"\d+", txt.replace("%nat", ""))]
        if len(got) != len(terms[a:a + chunk]):
            raise CoqFailure("could not parse model output: " + out[:300])
        codes += got
    return codes


def small_calculator(name, Nthermo=1, NGFmax=4, rng=None):
    """VacancyMediated calculator on a named lattice with a percolating first-shell network"""
    from onsager import OnsagerCalc
    from . import gen
    import random
    crys, chem = gen.named(name)
    net = gen.percolating_network(crys, chem, rng or random.Random(0), maxshell=1)
    if net is None: return None
    cut, sl, jn = net
    return OnsagerCalc.VacancyMediated(crys, chem, sl, jn, Nthermo, NGFmax), crys, chem, sl, jn


def random_thermo(d, nr, scale=1.0):
    """random Lij input (bFV, bFS, bFSV, bFT0, bFT1, bFT2) for calculator d, well inside the domain"""
    nw = len(d.sitelist)
    bFV = nr.uniform(0, 0.5, nw) * scale; bFV -= bFV.min()
    bFS = nr.uniform(0, 0.5, nw) * scale; bFS -= bFS.min()
    bFSV = nr.uniform(-0.5, 0.5, len(d.thermo.stars)) * scale
    bFT0 = nr.uniform(1.0, 2.0, len(d.om0_jn))
    bFT1 = nr.uniform(1.0, 2.0, len(d.om1_jn))
    bFT2 = nr.uniform(1.0, 2.0, len(d.om2_jn))
    return bFV, bFS, bFSV, bFT0, bFT1, bFT2


class Unencodable(Exception):
    """an implementation output that has no image in the model's value domain"""


def encode(V, key, replay, fn):
    """build a Coq term from IMPLEMENTATION outputs; an output that cannot be encoded (nat out of range, value off the
    exact grid, tag/key the implementation should not have produced, NaN ...) is a violation with its input as replay,
    never a harness crash.  Returns the term or None."""
    try:
        return fn()
    except (Unencodable, AssertionError, KeyError, ValueError, TypeError, OverflowError) as e:
        V("implementation output cannot be expressed as a value of the model (%s: %s)" % (type(e).__name__, e), replay, key)
        return None
