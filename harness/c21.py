"""C21  Jump networks are complete, closed and obstruction-aware.

Tie (every run): for crystals with rational lattice-coordinate geometry the implementation's
`jumpnetwork(chem, cutoff, closestdistance)` is converted EXACTLY to jumps (i, j, R) (verified
rounding of invlatt.dx - u_j + u_i) and handed, together with the crystal, the space group read
from crys.G and box certificates, to the Coq decision `Model/Jumps.check_network` (soundness:
C21_check_network_sound): code 0 means the implementation returned exactly the set of unobstructed
jumps below the cutoff -- with no box restriction, by the Cauchy-Schwarz range certificate --,
each once, every class closed under every group operation and reversal, and
jumpnetwork2lattice identical.  The same decision is evaluated independently in Python integers
(direct evaluator; produces the witness jump when something is missing)."""
META = dict(
    level="proof",
    text=("Theorems (every integer-scaled crystal of dimension <= 3, every cutoff, every operation list): the model "
          "enumeration is sound, complete and duplicate-free within its box; a decidable Cauchy-Schwarz certificate "
          "(range_ok) proves that no jump or obstructing atom lies outside the box, so the enumeration equals the box-free "
          "specification (0 < |dx|^2 < cutoff^2, no atom of a tested species within the closest distance of the closed "
          "segment); the symmetry expansion is closed under reversal and covers all jumps; valid operations and reversal "
          "preserve jump length; the closure checker and the whole correspondence decision check_network are sound. "
          "Tie: check_network evaluated by vm_compute on the implementation's jumpnetwork / jumpnetwork2lattice output and "
          "crys.G for random crystals (2-D/3-D, 1-3 species, scalar / per-species / default closest distance, skewed "
          "low-symmetry cells with long cutoffs), plus an independent exact Python evaluator."),
    note=("Trusted: Coq kernel/vm_compute; harness conversion of Cartesian dx to lattice coordinates (rounding verified to "
          "1e-7, geometry rationalised with verification); crys.G is taken from the implementation and validated per "
          "operation by the Coq checker op_okb (isometry + site map), its completeness is C18. Inputs are kept > 1e-6 away "
          "from the cutoff and obstruction thresholds (the float comparisons there are not modelled). nnlist is compared "
          "as supporting information only."),
    technique="Coq proof (Geom3/Jumps: enumeration + range certificate + verified checker) + exact correspondence on jumpnetwork output",
)

import itertools, math, time
from fractions import Fraction
import numpy as np
from . import sitegen as sg
from .lib import CoqFailure, coq_Z, coq_list, coq_nat

IMPORTS = """From Coq Require Import List ZArith.
From Onsager Require Import Model.Geom3 Model.Jumps.
Import ListNotations.
Local Open Scope Z_scope.
Definition run (k : netcase) : nat * nat := (check_network k, length (model_jumps k)).
"""

MEANING = {1: "certificate rejected by the model (harness/group inconsistency)", 2: "a jump appears twice",
           3: "implementation returns a jump that is too long, of zero length or obstructed",
           4: "implementation misses a jump below the cutoff", 5: "a class is not closed under the space group and reversal",
           6: "jumpnetwork2lattice encodes different jumps"}


def ceil_frac(f): return -((-f.numerator) // f.denominator)


def shells(ex, chem, nbox=3):
    qs = set()
    P = ex.pos[chem]
    rng3 = [range(-nbox, nbox + 1)] * ex.dim + [range(0, 1)] * (3 - ex.dim)
    for i, pi in enumerate(P):
        for j, pj in enumerate(P):
            for R in itertools.product(*rng3):
                v = tuple(ex.D * R[k] + pj[k] - pi[k] for k in range(3))
                q = ex.qf(v)
                if q > 0: qs.add(q)
    return sorted(qs)


def py_model(ex, chem, c2, nmax, obst, onmax, near_only=None):
    """exact integer evaluation of the specification (mirror of Model/Jumps.jumps)"""
    P = ex.pos[chem]; D = ex.D
    box = list(itertools.product(*[range(-n, n + 1) for n in nmax]))
    obox = list(itertools.product(*[range(-n, n + 1) for n in onmax]))
    out = []
    for i, pi in enumerate(P):
        for j, pj in enumerate(P):
            for R in box:
                dx = tuple(D * R[k] + pj[k] - pi[k] for k in range(3))
                d2 = ex.qf(dx)
                if not (0 < d2 < c2): continue
                blocked = False
                for c, m2 in enumerate(obst):
                    if m2 is None or c == chem: continue
                    for pa in ex.pos[c]:
                        for n in obox:
                            xa = tuple(D * n[k] + pa[k] - pi[k] for k in range(3))
                            qa = ex.qf(xa)
                            if (qa - d2) * m2.denominator > m2.numerator: continue              # |xa|^2 <= |dx|^2 + mind2 is necessary
                            if near_only is not None and qa >= near_only: continue               # (statistic only)
                            t = ex.bil(xa, dx)
                            if 0 <= t <= d2 and (qa * d2 - t * t) * m2.denominator <= m2.numerator * d2:
                                blocked = True; break
                        if blocked: break
                    if blocked: break
                if not blocked: out.append((i, j, R))
    return out


def boundary_margin(ex, chem, r2, obst, onmax, nmax):
    """0.0 if some threshold decision of the code (cutoff, closest distance incl. the np.isclose band, segment
    end points) is closer than the separation rule allows, else 1.0"""
    scale = float(ex.scale)
    P = ex.pos[chem]; D = ex.D
    box = list(itertools.product(*[range(-n, n + 1) for n in nmax]))
    obox = list(itertools.product(*[range(-n, n + 1) for n in onmax]))
    r = math.sqrt(float(r2))
    for i, pi in enumerate(P):
        for j, pj in enumerate(P):
            for R in box:
                dx = tuple(D * R[k] + pj[k] - pi[k] for k in range(3))
                d2 = ex.qf(dx)
                if d2 == 0: continue
                if abs(math.sqrt(d2 / scale) - r) < 1e-6: return 0.0
                if d2 >= float(r2) * scale: continue
                for c, m2 in enumerate(obst):
                    if m2 is None or c == chem: continue
                    for pa in ex.pos[c]:
                        for n in obox:
                            xa = tuple(D * n[k] + pa[k] - pi[k] for k in range(3))
                            qa = ex.qf(xa)
                            if qa > d2 + 1.01 * float(m2) + 1e-4 * scale + 1: continue      # too far to be within reach of the segment
                            t = ex.bil(xa, dx)
                            dd = Fraction(qa * d2 - t * t, d2)
                            near_seg = -1e-6 * scale <= t <= d2 + 1e-6 * scale
                            band = 1e-6 + 3e-5 * float(m2) / scale          # np.isclose(d2, mind2): atol 1e-8, rtol 1e-5
                            if near_seg and dd != m2 and abs(float(dd - m2)) / scale < band: return 0.0
                            if dd <= m2 * (1 + Fraction(1, 1000)) and (abs(t) / scale < 1e-7 or abs(t - d2) / scale < 1e-7):
                                return 0.0          # atom (within reach) exactly/nearly beside an end point: float tie in the code
    return 1.0


def convert(ex, crys, chem, jn):
    """implementation classes -> lists of exact (i, j, R); None on a rounding failure"""
    out = []
    for cl in jn:
        lst = []
        for (i, j), dx in cl:
            Rf = np.dot(crys.invlatt, dx) - crys.basis[chem][j] + crys.basis[chem][i]
            R = np.round(Rf)
            if np.abs(Rf - R).max() > 1e-7: return None
            lst.append((int(i), int(j), tuple([int(x) for x in R] + [0] * (3 - ex.dim))))
        out.append(lst)
    return out


def coq_ops(ex, chem):
    terms = []
    for op in ex.ops:
        perm, shifts = [], []
        for i in range(len(ex.pos[chem])):
            r = ex.site_shift(op, chem, i)
            if r is None: return None
            perm.append(r[0]); shifts.append(r[1])
        terms.append("mkOp %s %s %s %s" % (sg.cm3(ex.S3(op["S"])), sg.cv3(op["tD"]), coq_list([coq_nat(p) for p in perm]),
                                          coq_list([sg.cv3(s) for s in shifts])))
    return terms


def py_ops(ex, chem):
    out = []
    for op in ex.ops:
        perm, shifts = [], []
        for i in range(len(ex.pos[chem])):
            r = ex.site_shift(op, chem, i)
            if r is None: return None
            perm.append(r[0]); shifts.append(r[1])
        out.append((op["S"], perm, shifts))
    return out


def act(ex, g, x):
    S, perm, sh = g
    i, j, R = x
    SR = ex.apply(S, R)
    return (perm[i], perm[j], tuple(SR[k] + sh[j][k] - sh[i][k] for k in range(3)))


def rev(x): return (x[1], x[0], tuple(-a for a in x[2]))


def choose_cutoff(ex, chem, rng, maxjumps, shell_choices=(0, 0, 1, 1, 2, 3)):
    sh = shells(ex, chem)
    if not sh: return None
    k = min(rng.choice(shell_choices), len(sh) - 2)
    if k < 0: return None
    lo, hi = math.sqrt(sh[k] / ex.scale), math.sqrt(sh[k + 1] / ex.scale)
    if hi - lo < 1e-5: return None
    cut = lo + min(1e-3, 0.5 * (hi - lo)) if rng.random() < 0.5 else lo + rng.uniform(0.1, 0.9) * (hi - lo)
    return float(cut)


def lattice_cutoff(ex, chem, rng, which=0):
    """cutoff just above the (which+1)-th shortest lattice-vector length: every site then has the jumps (i,i,R), which
    share their displacement across all sites of the species"""
    rr = [range(-2, 3)] * ex.dim + [range(0, 1)] * (3 - ex.dim)
    ql = sorted(set(ex.qf(tuple(ex.D * x for x in R)) for R in itertools.product(*rr) if any(R)))
    if which >= len(ql): return None
    q = ql[which]
    sh = [x for x in shells(ex, chem) if x > q]
    lo = math.sqrt(q / ex.scale)
    hi = math.sqrt(sh[0] / ex.scale) if sh else lo + 1.0
    if hi - lo < 1e-5: return None
    return float(lo + min(rng.choice([1e-4, 1e-3, 1e-2]), 0.4 * (hi - lo)))


def shared_displacements(ex, chem, model):
    """number of model jumps whose displacement vector equals that of a jump between a DIFFERENT pair of sites"""
    by = {}
    P = ex.pos[chem]
    for (i, j, R) in model:
        dx = tuple(ex.D * R[k] + P[j][k] - P[i][k] for k in range(3))
        by.setdefault(dx, set()).add((i, j))
    return sum(1 for (i, j, R) in model if len(by[tuple(ex.D * R[k] + P[j][k] - P[i][k] for k in range(3))]) > 1)


def min_other_distance(ex, chem):
    """smallest distance from a site of chem to an atom of another species"""
    best = None
    rng3 = [range(-1, 2)] * ex.dim + [range(0, 1)] * (3 - ex.dim)
    for c, lst in enumerate(ex.pos):
        if c == chem: continue
        for pa in lst:
            for pi in ex.pos[chem]:
                for n in itertools.product(*rng3):
                    q = ex.qf(tuple(ex.D * n[k] + pa[k] - pi[k] for k in range(3)))
                    if best is None or q < best: best = q
    return None if best is None else math.sqrt(best / ex.scale)


def copy_arg(arg): return list(arg) if isinstance(arg, list) else arg


def one_case(ck, rng, label, crys, chem, ex, cutoff, mode, maxjumps, skipped, cd_override=None):
    """returns dict describing the case (with Coq term) or None if skipped"""
    r2 = cutoff * cutoff
    c2 = ceil_frac(Fraction(r2) * ex.scale)
    # closest distance argument
    dmin = min_other_distance(ex, chem)
    def dy(frac): return math.floor(frac * dmin * 64) / 64.0
    if cd_override is not None:
        arg = cd_override
        cds = list(arg) if isinstance(arg, list) else [arg] * crys.Nchem
    elif dmin is None or mode == "default":
        arg = None; cds = [0.0] * crys.Nchem
    elif mode == "scalar":
        v = dy(rng.choice([0.3, 0.5, 0.7, 0.85, 1.05, 1.3]))
        arg = v; cds = [v] * crys.Nchem
    else:
        cds = [dy(rng.choice([0.0, 0.3, 0.6, 0.85, 1.1, 1.4])) for _ in range(crys.Nchem)]
        arg = list(cds)
    obst = [None if c == chem else Fraction(float(x) ** 2) * ex.scale for c, x in enumerate(cds)]
    c2o = c2 + max([ceil_frac(m) for m in obst if m is not None] + [0])
    g33 = c2o
    spread = ex.spread(chem, [chem])
    ospread = ex.spread(chem, range(crys.Nchem))
    nmax = ex.min_nmax(c2, spread, g33)
    onmax = ex.min_nmax(c2o, ospread, g33)
    nbox = np.prod([2 * n + 1 for n in nmax]) * len(ex.pos[chem]) ** 2
    if nbox > 400000:
        skipped["too-large"] += 1; return None
    if boundary_margin(ex, chem, r2, obst, onmax, nmax) < 1e-6:
        skipped["near-threshold"] += 1; return None
    model = py_model(ex, chem, c2, nmax, obst, onmax)
    nfree = len(py_model(ex, chem, c2, nmax, [None] * len(obst), onmax)) if any(m is not None for m in obst) else len(model)
    # jumps removed only by species whose obstruction distance is exactly 0 (an atom exactly ON the straight path)
    if any(m is not None and m == 0 for m in obst) and nfree != len(model):
        nthrough = len(py_model(ex, chem, c2, nmax, [None if (m is None or m == 0) else m for m in obst], onmax)) - len(model)
    else:
        nthrough = 0
    # jumps whose ONLY obstructing atoms are farther than the cutoff from the start site (beside the far end of the jump)
    nfar = len(py_model(ex, chem, c2, nmax, obst, onmax, near_only=c2)) - len(model) if nfree != len(model) else 0
    if len(model) > maxjumps:
        skipped["too-many-jumps"] += 1; return None
    # the code's own box (for the record)
    code_nmax = [int(np.ceil(np.sqrt(r2 / crys.metric[i, i]))) + 1 for i in range(crys.dim)] + [0] * (3 - crys.dim)   # cutoff/|a_i| + 1 (for the record)
    t0 = time.time()
    snap0 = sg.state_snapshot(crys)
    try:
        jn = crys.jumpnetwork(chem, cutoff) if arg is None else crys.jumpnetwork(chem, cutoff, copy_arg(arg))
        jl = crys.jumpnetwork2lattice(chem, jn)
    except Exception as e:
        return dict(error="%s: %s" % (type(e).__name__, e), label=label, cutoff=cutoff, arg=arg, chem=chem, crys=repr(crys),
                    njumps=len(model), nclasses=0, nG=len(ex.ops), nmax=nmax, code_nmax=code_nmax)
    timpl = time.time() - t0
    sdiff = sg.state_diff(snap0, sg.state_snapshot(crys))
    impl = convert(ex, crys, chem, jn)
    latt = [[(int(i), int(j), tuple([int(x) for x in R] + [0] * (3 - ex.dim))) for (i, j), R in cl] for cl in jl]
    ops = coq_ops(ex, chem)
    res = dict(label=label, cutoff=cutoff, arg=arg, chem=chem, model=model, impl=impl, latt=latt, nmax=nmax, code_nmax=code_nmax,
               timpl=timpl, crys=repr(crys), njumps=len(model), nclasses=len(jn), nG=len(ex.ops), obst=obst,
               box_small=any(code_nmax[k] < nmax[k] for k in range(3)), state_diff=sdiff, _ex=ex, _crys=crys, c2=c2, nblocked=nfree - len(model), nfar=nfar, nthrough=nthrough,
               nshared=shared_displacements(ex, chem, model), nwyck=len(crys.sitelist(chem)))
    if impl is None:
        res["error"] = "displacement does not correspond to a lattice vector between the named sites"; return res
    if ops is None:
        res["error"] = "a group operation does not map the sites as its indexmap says"; return res
    # ---- direct evaluator (python integers) -------------------------------------------------
    flat = [x for cl in impl for x in cl]
    sflat, smodel = set(flat), set(model)
    res["dups"] = len(flat) - len(sflat)
    res["extra"] = sorted(sflat - smodel)[:5]
    res["missing"] = sorted(smodel - sflat)[:5]
    gl = py_ops(ex, chem)
    notclosed = None
    for ci, cl in enumerate(impl):
        s = set(cl)
        for x in cl:
            if rev(x) not in s: notclosed = (ci, x, "reverse"); break
            for gi, g in enumerate(gl):
                if act(ex, g, x) not in s: notclosed = (ci, x, "op %d" % gi); break
            if notclosed: break
        if notclosed: break
    res["notclosed"] = notclosed
    res["lattdiff"] = impl != latt
    # single orbit? (information only)
    res["single_orbit"] = all(len(set(cl)) == len(orbit_of(ex, gl, cl[0])) for cl in impl if cl)
    # ---- Coq term -------------------------------------------------------------------------
    obst_t = coq_list(["None" if m is None else "Some (%s, %s)" % (coq_Z(m.numerator), coq_Z(m.denominator)) for m in obst])
    cls_t = lambda cls: coq_list([coq_list([sg.cjump(x) for x in cl]) for cl in cls])
    res["term"] = "(mkCase %s %s %s %s %s %s %s %s %s %s %s %s)" % (
        sg.ccrystal(ex, g33), coq_nat(chem), coq_Z(c2), sg.cv3(nmax), sg.cv3(spread), obst_t, coq_Z(c2o), sg.cv3(onmax),
        sg.cv3(ospread), coq_list(ops), cls_t(impl), cls_t(latt))
    return res


def orbit_of(ex, gl, x):
    s = set()
    for g in gl:
        y = act(ex, g, x); s.add(y); s.add(rev(y))
    return s


def nnlist_check(ex, crys, chem, cutoff, c2, nmax):
    """supporting: nnlist(site, cutoff) against the exact neighbour vectors; returns number of missing vectors"""
    miss = 0
    for i in range(len(ex.pos[chem])):
        want = set()
        for j, pj in enumerate(ex.pos[chem]):
            for R in itertools.product(*[range(-n, n + 1) for n in nmax]):
                v = tuple(ex.D * R[k] + pj[k] - ex.pos[chem][i][k] for k in range(3))
                if 0 < ex.qf(v) < c2: want.add(v)
        got = set()
        for dx in crys.nnlist((chem, i), cutoff):
            v = np.dot(crys.invlatt, dx) * ex.D
            got.add(tuple([int(round(x)) for x in v] + [0] * (3 - ex.dim)))
        miss += len(want - got) + len(got - want)
    return miss


def run_coq(ck, name, cases, chunk=12):
    import re
    out = []
    for a in range(0, len(cases), chunk):
        body = "Eval vm_compute in (map run %s)." % coq_list([c["term"] for c in cases[a:a + chunk]])
        txt = ck.coq_cases("%s_%d" % (name, a), body, IMPORTS)
        txt = txt[txt.index("="):].split(": list")[0]
        got = re.findall(r"\(\s*(\d+)%nat,\s*(\d+)%nat\)|\(\s*(\d+),\s*(\d+)\)", txt)
        got = [(int(g[0] or g[2]), int(g[1] or g[3])) for g in got]
        if len(got) != len(cases[a:a + chunk]):
            raise CoqFailure("could not parse model output: " + txt[:300])
        out += got
    return out


def report(ck, res, code, nmodel):
    """turn one evaluated case into counters / violations"""
    rep = {k: res.get(k) for k in ("label", "crys", "chem", "cutoff", "arg", "nmax", "code_nmax", "njumps", "nclasses", "nG")}
    rep["closestdistance"] = res.get("arg")
    kind = "%s|cd=%s|%s" % (res["label"].split("-")[0] if res["label"].startswith(("rand", "farend", "multiW", "through", "history", "noreduce")) else "named",
                            "default" if res["arg"] is None else ("list" if isinstance(res["arg"], list) else "scalar"),
                            "boxsmall" if res.get("box_small") else "boxok") + ("|obstructed" if res.get("nblocked") else "") + ("|far-end-obstructor" if res.get("nfar") else "") + ("|pass-through-d0" if res.get("nthrough") else "") + ("|shared-dx-%dW" % res.get("nwyck", 1) if res.get("nshared") else "")
    ck.case(key=(res["label"], res["crys"], res["chem"], round(res["cutoff"], 9), res["arg"]), nontrivial=res.get("njumps", 0) >= 2, kind=kind,
            sample={"crystal": res["crys"], "chem": res["chem"], "cutoff": res["cutoff"], "closestdistance": res["arg"],
                    "jumps": res.get("njumps"), "jumps_removed_by_obstruction": res.get("nblocked"), "of_which_only_by_atoms_beyond_cutoff_from_start": res.get("nfar"),
                    "of_which_by_an_atom_exactly_on_the_path_with_distance_0": res.get("nthrough"),
                    "jumps_sharing_dx_with_another_site_pair": res.get("nshared"), "wyckoff_sets_of_species": res.get("nwyck"), "classes": res.get("nclasses"), "|G|": res.get("nG"), "certified_box": res.get("nmax"),
                    "code_box": res.get("code_nmax"), "coq_code": code})
    if "error" in res:
        ck.violation("jumpnetwork failed or returned malformed data: " + res["error"], rep, key="c21-malformed"); return
    bad = []
    if res["dups"]: bad.append(("c21-duplicate-jump", "a jump appears %d times too often" % res["dups"]))
    if res["extra"]: bad.append(("c21-extra-jump", "returned jumps that are not unobstructed jumps below the cutoff, e.g. (i,j,R)=%s" % (res["extra"][0],)))
    if res["missing"]:
        key = "c21-box-too-small" if res["box_small"] and all(any(abs(x[2][k]) > res["code_nmax"][k] for k in range(3)) for x in res["missing"]) else "c21-missing-jump"
        bad.append((key, "misses %s jump(s) below the cutoff, e.g. (i,j,R)=%s (the code searches |R_k| <= %s; the certified box is %s)" %
                    (len(res["missing"]) if len(res["missing"]) < 5 else ">=5", res["missing"][0], res["code_nmax"], list(res["nmax"]))))
    if res.get("state_diff"): bad.append(("c21-crystal-state-changed", "the call changed the Crystal object: attributes %s" % res["state_diff"]))
    if res.get("fresh_diff"): bad.append(("c21-history-dependent", "the network differs from the one a fresh Crystal object returns for the same arguments "
                                         "(earlier calls on this object: %s): %s" % (res.get("history"), res["fresh_diff"])))
    if res["notclosed"]: bad.append(("c21-class-not-closed", "class %d is not closed: image of %s under %s is absent" % res["notclosed"]))
    if res["lattdiff"]: bad.append(("c21-lattice-form", "jumpnetwork2lattice differs from the displacement form"))
    rep.update(extra=res["extra"], missing=res["missing"], notclosed=res["notclosed"], coq_code=code, model_jumps=nmodel)
    for key, what in bad:
        ck.violation("jumpnetwork(%s, chem=%d, cutoff=%.6f, closestdistance=%s): %s" % (res["label"], res["chem"], res["cutoff"], res["arg"], what), rep, key=key)
    if code is not None:
        if code == 1:
            raise RuntimeError("harness certificate rejected by the Coq model: %s" % rep)
        if (code != 0) != bool([b for b in bad if b[0] not in ("c21-crystal-state-changed", "c21-history-dependent")]) or nmodel != res["njumps"]:
            ck.violation("Coq decision (code %s: %s; %s model jumps) and the Python evaluator (%s; %d jumps) disagree" %
                         (code, MEANING.get(code, "ok"), nmodel, [b[0] for b in bad], res["njumps"]), rep, key="c21-model-evaluator-disagree")


def passthrough_setup(ex, chem, rng):
    """(cutoff, species) such that some jump of chem runs exactly THROUGH a site of another species (collinear, strictly
    between the end points) and is shorter than the cutoff; None if the geometry has no such jump within two cells"""
    P = ex.pos[chem]; D = ex.D; scale = ex.scale
    rr = [range(-2, 3)] * ex.dim + [range(0, 1)] * (3 - ex.dim)
    cands = []
    for i, pi in enumerate(P):
        for j, pj in enumerate(P):
            for R in itertools.product(*rr):
                dx = tuple(D * R[k] + pj[k] - pi[k] for k in range(3))
                d2 = ex.qf(dx)
                if d2 == 0: continue
                for c, lst in enumerate(ex.pos):
                    if c == chem: continue
                    for pa in lst:
                        for n in itertools.product(*rr):
                            xa = tuple(D * n[k] + pa[k] - pi[k] for k in range(3))
                            t = ex.bil(xa, dx)
                            if 0 < t < d2 and ex.qf(xa) * d2 == t * t: cands.append((d2, c))
    if not cands: return None
    dmin2 = min(d for d, c in cands)
    d2, c = rng.choice([x for x in cands if x[0] <= 2 * dmin2])
    sh = [x for x in shells(ex, chem, nbox=3) if x > d2]
    lo = math.sqrt(d2 / scale)
    hi = math.sqrt(sh[0] / scale) if sh else lo + 1.0
    if hi - lo < 1e-5: return None
    return float(lo + min(rng.choice([1e-4, 1e-3, 1e-2]), 0.4 * (hi - lo))), c


def far_end_setup(ex, chem, rng, maxshell=5):
    """(cutoff, closest distance) such that some jump is obstructed only by an atom that lies beside the FAR end of the
    jump, farther than the cutoff from the start site; None if the geometry offers none"""
    sh = shells(ex, chem, nbox=2)[:maxshell + 1]
    if len(sh) < 2: return None
    P = ex.pos[chem]; D = ex.D; scale = ex.scale
    rr = [range(-2, 3)] * ex.dim + [range(0, 1)] * (3 - ex.dim)
    ro = [range(-3, 4)] * ex.dim + [range(0, 1)] * (3 - ex.dim)
    cands = []
    for i, pi in enumerate(P):
        for j, pj in enumerate(P):
            for R in itertools.product(*rr):
                dx = tuple(D * R[k] + pj[k] - pi[k] for k in range(3))
                d2 = ex.qf(dx)
                if d2 == 0 or d2 not in sh[:-1]: continue
                nxt = sh[sh.index(d2) + 1]
                for c, lst in enumerate(ex.pos):
                    if c == chem: continue
                    for pa in lst:
                        for n in itertools.product(*ro):
                            xa = tuple(D * n[k] + pa[k] - pi[k] for k in range(3))
                            t = ex.bil(xa, dx); qa = ex.qf(xa)
                            if not (0 < t < d2) or qa <= d2: continue
                            dd = Fraction(qa * d2 - t * t, d2)
                            if dd == 0 or dd >= d2: continue
                            cands.append((d2, min(qa, nxt), dd, c))
    if not cands: return None
    d2, up, dd, c = rng.choice(cands)
    lo, hi = math.sqrt(d2 / scale), math.sqrt(up / scale)
    if hi - lo < 1e-5: return None
    cutoff = lo + min(rng.choice([1e-4, 1e-3, 1e-2]), 0.4 * (hi - lo))
    d = math.sqrt(float(dd) / scale)
    cd = (math.floor(d * 256) + rng.choice([1, 2, 4])) / 256.0
    return float(cutoff), cd, c


def run(ck):
    ck.rule = ("crystal pool (named lattices + random crystal systems incl. hexagonal/monoclinic/triclinic, 2-D/3-D, 1-3 species, "
               "1-3 sites per species, positions on a 1/12 grid, lattice scale 1/2..4) x diffusing species x cutoff between two "
               "neighbour shells (just above a shell or mid-gap, shell 1-4) x closest distance (default / scalar / per-species, dyadic, "
               "0.3-1.4 x the smallest site-atom distance); plus skewed low-symmetry cells with long cutoffs; plus low-symmetry "
               "multi-species cells built so that a jump is obstructed ONLY by an atom beside its far end (farther than the cutoff "
               "from the start site) with the cutoff just above the jump length; plus species occupying >= 2 Wyckoff sets (named multi-set "
               "crystals with permuted atom order, omega phase, random P1 cells) with the cutoff just above a lattice-vector length so "
               "that inequivalent jumps share one displacement vector; plus multi-species crystals (B2, rock salt, perovskite, fluorite, "
               "2-D centred/edge-decorated rectangles, random) with a cutoff reaching a jump that runs exactly through a site of another "
               "species, closest distance exactly 0 (default or a 0 list entry) or positive; plus call histories on one Crystal object (same "
               "species and cutoff, closest distance scanned downwards after a large one; compared with a fresh object; attributes of "
               "the object must not change); inputs within 1e-6 of a threshold are "
               "skipped and counted; distinct = distinct (crystal, species, cutoff, closest distance); non-trivial = at least 2 jumps")
    ck.trusted += ["harness/c21.py, sitegen.py: exact read-back of the crystal, conversion dx -> (i,j,R) (verified rounding), Coq literal printing",
                   "crys.G taken from the implementation (validated per operation by op_okb; completeness is property C18)"]
    ck.theorems()
    rng = ck.rng
    from . import gen
    skipped = {"too-large": 0, "near-threshold": 0, "too-many-jumps": 0, "no-cutoff": 0, "irrational-geometry": 0}
    cases = []
    n = ck.n(18, 150)
    maxjumps = ck.n(120, 260)
    for label, crys, chem, ex in sg.pool(rng, n, random_frac=0.7, nchem_max=3, maxatoms=3, scales=(1.0, 1.0, 0.5, 2.0, 4.0)):
        cutoff = choose_cutoff(ex, chem, rng, maxjumps)
        if cutoff is None:
            skipped["no-cutoff"] += 1; continue
        modes = ["default"] if crys.Nchem == 1 else [rng.choice(["default", "scalar", "list"]), rng.choice(["scalar", "list"])]
        for mode in modes[:ck.n(1, 2)] if crys.Nchem > 1 else modes:
            res = one_case(ck, rng, label, crys, chem, ex, cutoff, mode, maxjumps, skipped)
            if res is not None: cases.append(res)
    skipped["irrational-geometry"] += sg.pool.rejected
    # skewed low-symmetry cells, long cutoffs: the regime where |R_k| <= r/|a_k| + 1 is not enough
    nskew = ck.n(1, 6)
    tries = 0
    found = 0
    while found < nskew and tries < 40:
        tries += 1
        dim = 2 if ck.quick or rng.random() < 0.7 else 3
        if ck.quick:      # deterministic regression probe (reverse of fix 3e34d82): reduced oblique cell, cutoff of ~14 lattice constants
            r = ("oblique-skew", gen.crystal.Crystal(np.array([[1., 0.], [0.47, 0.85]]).T, [np.zeros(2)]))
        else:
            r = sg.random_rational_crystal(rng, dim, maxatoms=1, nchem=1, skew=True)
        if r is None: continue
        ex = sg.Exact(r[1])
        if not ex.ok: continue
        crys = r[1]
        # shortest cutoff for which a box |R_k| <= ceil(cutoff/|a_k|) + 1 misses a lattice vector
        cand = skew_cutoff(ex, crys, rmax=(19.0 if dim == 2 else 6.5))
        if cand is None: continue
        res = one_case(ck, rng, "rand-" + r[0], crys, 0, ex, cand, "default", 2500, skipped)
        if res is not None:
            cases.append(res); found += 1
    # strongly sheared user cells kept by noreduce=True (shear 4..6): the jumps along the sheared direction have lattice
    # coefficients beyond cutoff/|a_i| + 1 -- deterministic, always run
    a = np.array
    probes = [("sheared-square-4", lambda: gen.crystal.Crystal(a([[1., 0.], [4., 1.]]).T, [np.zeros(2)], noreduce=True), 0, 1.001),
              ("sheared-square-6", lambda: gen.crystal.Crystal(a([[1., 0.], [6., 1.]]).T, [np.zeros(2)], noreduce=True), 0, 1.45),
              ("sheared-rect-5-2sp", lambda: gen.crystal.Crystal(a([[1., 0.], [5., 1.25]]).T, [[a([0., 0.])], [a([.5, .5])]], noreduce=True), 0, 1.2501),
              ("sheared-ortho-2site", lambda: gen.crystal.Crystal(a([[1., 0, 0], [0, 1.1, 0], [4., 3.3, 1.2]]).T,
                                                                 [a([0., 0, 0]), a([.5, .5, .5])], noreduce=True), 0, 1.2005)]
    if not ck.quick:
        probes += [("sheared-square-5", lambda: gen.crystal.Crystal(a([[1., 0.], [5., 1.]]).T, [np.zeros(2)], noreduce=True), 0, 2.01),
                   ("sheared-hex-4", lambda: gen.crystal.Crystal(a([[1., 0.], [-.5 + 4, math.sqrt(3) / 2]]).T, [np.zeros(2)], noreduce=True), 0, 1.001)]
    nprobe = 0
    for label, make, chem, cutoff in probes:
        crys = make(); ex = sg.Exact(crys)
        if not ex.ok: raise RuntimeError("regression probe %s is not rational" % label)
        res = one_case(ck, rng, "noreduce-" + label, crys, chem, ex, cutoff, "default", 400, skipped,
                       cd_override=(None if crys.Nchem == 1 else 0.25))
        if res is None: raise RuntimeError("regression probe %s was skipped (%s)" % (label, skipped))
        cases.append(res); nprobe += 1
    ck.extra["sheared_noreduce_probes"] = nprobe
    # species occupying >= 2 Wyckoff sets, cutoff beyond the shortest lattice vector: inequivalent jumps (i,i,R), (j,j,R)
    # share one displacement vector -- each must still appear, in its own class
    from . import gen
    nmw = ck.n(5, 30)
    srcs = []
    fl = ["sq2w", "polar2w", "pmm2-3w", "re3", "wurtzite-int", "fcc-oct-tet", "hcp-oct-tet"]
    rng.shuffle(fl)
    for nm in fl:
        crys, chem = gen.named(nm)
        srcs.append((nm + "~perm", gen.shuffled(crys, rng), chem))
    omega = gen.crystal.Crystal(np.array([[1., 0, 0], [-.5, math.sqrt(3) / 2, 0], [0, 0, 0.6]]).T,
                                [np.array([0., 0, 0]), np.array([1 / 3, 2 / 3, .5]), np.array([2 / 3, 1 / 3, .5])])
    srcs.insert(1, ("omega-1a2d", omega, 0))
    found = tries = 0
    si = 0
    while found < nmw and tries < 12 * nmw:
        tries += 1
        if si < len(srcs) and (tries % 2 == 1):
            label, crys, chem = srcs[si]; si += 1
        else:
            r = sg.random_rational_crystal(rng, rng.choice([2, 2, 3]), maxatoms=3, nchem=rng.choice([1, 1, 2]), skew=rng.random() < 0.2)
            if r is None: continue
            label, crys = "multiW-" + r[0], r[1]
            chem = max(range(crys.Nchem), key=lambda c: len(crys.sitelist(c)))
        if len(crys.sitelist(chem)) < 2: continue
        ex = sg.Exact(crys)
        if not ex.ok: continue
        cutoff = lattice_cutoff(ex, chem, rng, which=rng.choice([0, 0, 1]))
        if cutoff is None: continue
        mode = "default" if crys.Nchem == 1 else rng.choice(["default", "scalar", "list"])
        res = one_case(ck, rng, label if label.startswith("multiW") else "multiW-" + label, crys, chem, ex, cutoff, mode, ck.n(200, 400), skipped)
        if res is not None and res.get("nshared"):
            cases.append(res); found += 1
    # multi-species crystals in which a jump runs exactly THROUGH a site of another species, closest distance exactly 0
    # (the default, or a 0 entry of the per-species list) or positive
    a = np.array
    def mk(latt, basis): return gen.crystal.Crystal(latt, basis)
    fcc = 0.5 * a([[0, 1, 1], [1, 0, 1], [1, 1, 0.]]).T
    through = [("b2", lambda: mk(np.eye(3), [[a([0., 0, 0])], [a([.5, .5, .5])]])),
               ("rocksalt", lambda: mk(fcc, [[a([0., 0, 0])], [a([.5, .5, .5])]])),
               ("perovskite", lambda: mk(np.eye(3), [[a([0., 0, 0])], [a([.5, .5, .5])], [a([.5, .5, 0]), a([.5, 0, .5]), a([0, .5, .5])]])),
               ("fluorite", lambda: mk(fcc, [[a([0., 0, 0])], [a([.25, .25, .25]), a([.75, .75, .75])]])),
               ("crect-centre-2d", lambda: mk(np.diag([1., 1.25]), [[a([0., 0])], [a([.5, .5])]])),
               ("rect-edges-2d", lambda: mk(np.diag([1., 1.25]), [[a([0., 0])], [a([.5, 0]), a([0, .5])]])),
               ("tet-b2", lambda: mk(np.diag([1., 1., 1.2]), [[a([0., 0, 0])], [a([.5, .5, .5])]]))]
    rng.shuffle(through)
    nthr = ck.n(6, 36)
    found = tries = si = 0
    while found < nthr and tries < 15 * nthr:
        tries += 1
        if si < len(through) and tries % 2 == 1:
            label, make = through[si]; si += 1
            crys = make()
        else:
            r = sg.random_rational_crystal(rng, rng.choice([2, 3]), maxatoms=2, nchem=rng.choice([2, 3]))
            if r is None: continue
            label, crys = r
        ex = sg.Exact(crys)
        if not ex.ok: continue
        chem = rng.randrange(crys.Nchem)
        ps = passthrough_setup(ex, chem, rng)
        if ps is None: continue
        cutoff, c = ps
        dmin = min_other_distance(ex, chem)
        mode = rng.choice(["default", "default", "list0", "list0", "scalar"])
        if mode == "default": arg = None
        elif mode == "scalar": arg = math.floor(0.4 * dmin * 64) / 64.0
        else: arg = [0.0 if (k == c or rng.random() < 0.5) else math.floor(rng.choice([0.3, 0.6]) * dmin * 64) / 64.0 for k in range(crys.Nchem)]
        if arg is None:
            res = one_case(ck, rng, "through-" + label, crys, chem, ex, cutoff, "default", ck.n(130, 400), skipped)
        else:
            res = one_case(ck, rng, "through-" + label, crys, chem, ex, cutoff, "override", ck.n(130, 400), skipped, cd_override=arg)
        if res is not None and (res.get("nthrough") or (mode == "scalar" and res.get("nblocked"))):
            cases.append(res); found += 1
    # low-symmetry / polar cells with an obstructing atom beside the far end of a jump, cutoff just above the jump length
    nfarwant = ck.n(6, 40)
    tries = found = 0
    while found < nfarwant and tries < 30 * nfarwant:
        tries += 1
        dim = rng.choice([2, 2, 3])
        r = sg.random_rational_crystal(rng, dim, maxatoms=2, nchem=rng.choice([2, 2, 3]), skew=rng.random() < 0.3)
        if r is None: continue
        crys = r[1]
        if len(crys.G) > 4: continue
        ex = sg.Exact(crys)
        if not ex.ok: continue
        chem = rng.randrange(crys.Nchem)
        fe = far_end_setup(ex, chem, rng)
        if fe is None: continue
        cutoff, cd, c = fe
        arg = cd if rng.random() < 0.5 else [cd if k == c else 0.0 for k in range(crys.Nchem)]
        res = one_case(ck, rng, "farend-" + r[0], crys, chem, ex, cutoff, "override", maxjumps, skipped, cd_override=arg)
        if res is not None and res.get("nfar"):
            cases.append(res); found += 1
    # call histories on ONE Crystal object: same species and cutoff, closest distance scanned downwards (scalar, list, default 0)
    # after the earlier call with a large distance; every answer is judged by the exact oracle and compared with a fresh object
    cand = [c for c in cases if c.get("nblocked") and "_crys" in c and c.get("arg") is not None and c["njumps"] <= 150]
    rng.shuffle(cand)
    nhist = 0
    for b in cand[:ck.n(3, 20)]:
        crys, ex, chem, cutoff = b["_crys"], b["_ex"], b["chem"], b["cutoff"]
        a0 = b["arg"]
        big = max(a0) if isinstance(a0, list) else a0
        hist = [a0]
        steps = [math.floor(0.5 * big * 256) / 256.0,
                 [math.floor(0.25 * big * 256) / 256.0 if k == rng.randrange(crys.Nchem) else 0.0 for k in range(crys.Nchem)],
                 None]
        for st in steps:
            if st is None:
                res = one_case(ck, rng, "history-" + b["label"], crys, chem, ex, cutoff, "default", 400, skipped)
            else:
                res = one_case(ck, rng, "history-" + b["label"], crys, chem, ex, cutoff, "override", 400, skipped, cd_override=st)
            if res is None: continue
            res["history"] = list(hist); hist.append(st)
            if res.get("impl") is not None:
                try:
                    fresh = gen.crystal.Crystal(np.array(crys.lattice, copy=True), [[np.array(u, copy=True) for u in l] for l in crys.basis], chemistry=list(crys.chemistry))
                    if fresh.N == crys.N and np.array_equal(fresh.lattice, crys.lattice):
                        fj = fresh.jumpnetwork(chem, cutoff) if st is None else fresh.jumpnetwork(chem, cutoff, copy_arg(st))
                        fc = convert(ex, fresh, chem, fj)
                        if fc is not None:
                            a, f = set(x for cl in res["impl"] for x in cl), set(x for cl in fc for x in cl)
                            if a != f: res["fresh_diff"] = "only fresh: %s; only this object: %s" % (sorted(f - a)[:3], sorted(a - f)[:3])
                except Exception as e:
                    ck.note("fresh-object comparison failed (%s: %s)" % (type(e).__name__, str(e)[:60]))
            cases.append(res); nhist += 1
    ck.extra["history_calls_on_one_object"] = nhist
    # ---- Coq decision on every case -----------------------------------------------------------
    good = [c for c in cases if "term" in c]
    codes = {}
    try:
        small = [c for c in good if c["njumps"] <= 300]
        big = [c for c in good if c["njumps"] > 300]
        for c, r in zip(small, run_coq(ck, "net", small)): codes[id(c)] = r
        for k, c in enumerate(big):
            codes[id(c)] = run_coq(ck, "big%d" % k, [c], chunk=1)[0]
    except CoqFailure as e:
        ck.broken_proof = "correspondence Model/Jumps.check_network: %s" % e
        ck.note("CORRESPONDENCE BROKEN: " + str(e)[:300])
    nn_mismatch = 0
    for c in cases:
        code, nmodel = codes.get(id(c), (None, c.get("njumps")))
        report(ck, c, code, nmodel)
    # nnlist (supporting information)
    nn_cases = [c for c in cases if "_ex" in c and c["njumps"] <= ck.n(300, 700)]
    for c in nn_cases[:ck.n(8, 40)] + [c for c in nn_cases if c.get("box_small")][:3]:
        m = nnlist_check(c["_ex"], c["_crys"], c["chem"], c["cutoff"], c["c2"], c["nmax"])
        if m:
            nn_mismatch += 1
            ck.note("nnlist((%d,i), %.6f) of %s differs from the exact neighbour vectors in %d entries (supporting information, not counted)" %
                    (c["chem"], c["cutoff"], c["label"], m))
    ck.extra["nnlist_mismatch_cases"] = nn_mismatch
    ck.extra["skipped"] = skipped
    ck.extra["cases_checked_by_coq"] = len(codes)
    ck.extra["traces_validated_against_impl"] = len(codes)
    ck.extra["classes_all_single_orbits"] = all(c.get("single_orbit", True) for c in cases)
    ck.extra["cases_multi_wyckoff_shared_displacement"] = sum(1 for c in cases if c.get("nshared") and c.get("nwyck", 1) >= 2)
    ck.extra["cases_pass_through_distance_0"] = sum(1 for c in cases if c.get("nthrough"))
    ck.extra["cases_with_far_end_obstructor"] = sum(1 for c in cases if c.get("nfar"))
    ck.extra["code_box_smaller_than_certified"] = sum(1 for c in cases if c.get("box_small"))
    ck.extra["impl_seconds"] = round(sum(c.get("timpl", 0) for c in cases), 1)


def skew_cutoff(ex, crys, rmax):
    """shortest cutoff (just above a shell) for which some lattice vector below the cutoff lies outside the code's box"""
    g = crys.metric; dim = crys.dim
    N = 26 if dim == 2 else 12
    best = None
    for R in itertools.product(*([range(-N, N + 1)] * dim)):
        q = ex.qf(tuple([ex.D * x for x in R] + [0] * (3 - dim)))
        if q == 0: continue
        d = math.sqrt(q / ex.scale)
        if d > rmax or (best is not None and d >= best): continue
        r = d + 1e-4
        nm = [int(np.ceil(np.sqrt(r * r / g[k, k]))) + 1 for k in range(dim)]          # the (insufficient) box cutoff/|a_k| + 1
        if any(abs(R[k]) > nm[k] for k in range(dim)): best = d
    return None if best is None else best + 1e-4
