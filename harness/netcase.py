"""Turn a unit-cell (or torus) reversible network with exact rational data into the integer
certificate consumed by Model/Interstitial.check_case over the ring Z (see that file)."""
from fractions import Fraction
from . import exact
from .lib import coq_Z, coq_list, coq_nat


def integer_case(n, dim, wT, jumps, target, tol, factor):
    """wT: Fractions per class; jumps: (i, j, cls, [Fraction dx]) directed, both directions present.
    target[k][l] (float/Fraction): value whose exact counterpart is  Bform/factor ; tol absolute.
    Returns (coq_term, info) or (None, reason)."""
    edges = [(i, j, wT[c], dx) for (i, j, c, dx) in jumps]
    gam = exact.corrector(n, edges, dim)
    if gam is None: return None, "no-corrector"
    sw = exact.lcm_den(wT)
    sd = exact.lcm_den([x for (_, _, _, dx) in jumps for x in dx])
    sg = exact.lcm_den([g * sd for gk in gam for g in gk])
    s = sd * sg
    wTi = [int(w * sw) for w in wT]
    ji = [(i, j, c, [int(x * s) for x in dx]) for (i, j, c, dx) in jumps]
    gi = [[int(g * s) for g in gk] for gk in gam]
    scale = Fraction(sw * s * s) * Fraction(factor)
    lo = [[exact.ffloor((Fraction(target[k][l]) - Fraction(tol)) * scale) for l in range(dim)] for k in range(dim)]
    hi = [[exact.fceil((Fraction(target[k][l]) + Fraction(tol)) * scale) for l in range(dim)] for k in range(dim)]
    exactL = [[exact.bform(edges, gam, k, l) / Fraction(factor) for l in range(dim)] for k in range(dim)]
    term = "(%s, %s, %s, %s, %s, %s, %s)" % (
        coq_nat(n), coq_nat(dim), coq_list([coq_Z(w) for w in wTi]),
        coq_list(["mkJump (K:=Zring) %s %s %s %s" % (coq_nat(i), coq_nat(j), coq_nat(c), coq_list([coq_Z(x) for x in dx]))
                  for (i, j, c, dx) in ji]),
        coq_list([coq_list([coq_Z(g) for g in gk]) for gk in gi]),
        coq_list([coq_list([coq_Z(v) for v in row]) for row in lo]),
        coq_list([coq_list([coq_Z(v) for v in row]) for row in hi]))
    bits = max([abs(v).bit_length() for row in lo + hi for v in row] + [1])
    return term, {"exactL": exactL, "bits": bits, "gam": gam}


IMPORTS = """From Coq Require Import List ZArith.
From Onsager Require Import Base.OrdRing Base.Instances Model.Net Model.Interstitial.
Import ListNotations.
Local Open Scope Z_scope.
Definition run (c : nat * nat * list Z * list (jump Zring) * list (list Z) * list (list Z) * list (list Z)) : nat :=
  let '(n, dim, wT, jumps, gam, lo, hi) := c in diagnose (K:=Zring) n dim wT jumps gam lo hi.
"""


def run_cases(ck, name, terms, chunk=40):
    """evaluate the checker on the terms; returns list of diagnosis codes (0 = all checks pass)"""
    import re
    codes = []
    for a in range(0, len(terms), chunk):
        body = "Eval vm_compute in (map run %s)." % coq_list(terms[a:a + chunk])
        out = ck.coq_cases("%s_%d" % (name, a), body, IMPORTS)
        txt = out[out.index("="):] if "=" in out else ""
        txt = txt.split(":")[0]
        got = [int(x) for x in re.findall(r"\d+", txt.replace("%nat", ""))]
        if len(got) != len(terms[a:a + chunk]):
            from .lib import CoqFailure
            raise CoqFailure("could not parse model output: " + out[:300])
        codes += got
    return codes
