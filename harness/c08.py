"""C08  The two omega2 algorithms agree and stay finite for extreme rates.

Theorems (Properties/C08.v): the rearrangement (g^-1 + w)^-1 - w^-1 = -(w + w g w)^-1 used by the large-exchange-rate
algorithm, and the two-step Dyson update, are identities in every unital ring (matrices of any size).
Floating-point behaviour (finiteness, smooth approach to the limit) cannot be exhibited by an exact model - partial;
it is covered by the evaluator:  omega2 prefactors scaled by f in 1e-3..1e16;
 (a) forced standard (large_om2=1e300) vs forced large (large_om2=1e-30): agree within 1e-14*f + 1e-9 for f <= 1e8
     (the standard algorithm loses eps*f; measured 4e-16*f on the unchanged tree);
 (b) default selection: finite, symmetric for every f; the distance to the f=1e16 value decays like 1/f
     (<= 3 A/f + 1e-9 with A fitted at f=1e3);
 (c) the forced-large algorithm with the exact torus Green function injected vs the exact torus chain (f <= 1e3)."""
META = dict(
    level="proof",
    text=("Theorems: the large-omega2 rearrangement and the two-step Dyson update are ring identities (any matrix size). "
          "Evaluator: both forced algorithm choices and the default over omega2 scalings 1e-3..1e16 (agreement where the "
          "standard one is valid, finiteness, symmetry, 1/f approach to the limit) and the forced-large algorithm against "
          "the exact torus chain."),
    note=("Trusted: Coq kernel; eigen-decomposition / pinv of the implementation not modelled; float behaviour up to 1e16 "
          "only sampled (partial); tolerances calibrated on the unchanged tree (standard algorithm error = 4e-16*f)."),
    technique="Coq proof (non-commutative ring identities) + algorithm-vs-algorithm and torus-oracle evaluator",
)

import numpy as np
from . import gen, vm, tcommon
from .c01 import polar_projector, compare_injected

FS = [1e-3, 1.0, 1e3, 1e6, 1e8, 1e10, 1e12, 1e14, 1e16]


K_MULTI = "c08-largeom2-exchange-mixes-stars"
K_CANCEL = "c08-largeom2-LsvL1vv-cancellation"


def run(ck):
    ck.rule = ("named crystals (2-D, small 3-D, multi-site, multi-Wyckoff, polar) x random interacting data x omega2 prefactor scale f in "
               "1e-3..1e16 x {forced standard, forced large, default}; distinct = (crystal, data, f); non-trivial = f != 1")
    ck.trusted += ["harness/c08.py tolerance calibration and the classification of the three known large-omega2 failure regimes"]
    ck.theorems()
    rng = ck.rng
    # rect / ortho / tet / hcp have several inequivalent exchange (omega2) classes
    # oblique1 / mono / tric: point groups with an invariant antisymmetric tensor (the two algorithms must agree on the
    # antisymmetric part of Lsv as well; fixed defect 3c84ed4)
    names = ["rect", "oblique1", "square", "mono", "honeycomb", "ortho", "sq2w", "tria", "rect-polar2d", "chiral:p3", "polar3w2d", "sc"] + ([] if ck.quick else ["pg4", "tric", "chiral:p4", "hcp", "fcc", "bcc", "b2", "re3", "tet", "polar", "diamond", "hcp-nonideal"])
    ncase = 0
    for rep in range(ck.n(12, 26)):
        nm = names[rep % len(names)]
        if nm.startswith("chiral:"):
            from . import starcase
            crys, chem = starcase.chiral_crystal(nm[7:])[:2]
        else:
            crys, chem = gen.named(nm)
        net = gen.percolating_network(crys, chem, rng, maxshell=1, maxjumps=30)
        if net is None: continue
        cut, sl, jn = net
        d = vm.make(crys, chem, sl, jn, 1)
        multi = vm.exchange_mixes_stars(d); polar = len(d.OSindices) > 0   # 'multi': see vm.exchange_mixes_stars
        th = vm.random_thermo(d, rng, interact=True, site_energies=True)
        # inequivalent exchange classes get rates spread over up to three decades
        spread = np.array([10.0 ** rng.uniform(0, 1.5) for _ in th["preT2"]])
        th["preT2"] = th["preT2"] * spread
        smax = float(spread.max())   # effective exchange scale is f * smax: tolerances below use it
        res = {}
        for f in FS:
            t = {k: np.array(v, dtype=float) for k, v in th.items()}; t["preT2"] = t["preT2"] * f
            args = d.preene2betafree(1.0, **t)
            doc = {"crystal": nm, "cutoff": cut, "f": f, "Wyckoff_sets": len(sl), "origin_state_vector_stars": len(d.OSindices),
                   "thermo": {k: np.asarray(v).tolist() for k, v in t.items()}}
            out = {}
            for lab, lo in (("standard", 1e300), ("default", None), ("large", 1e-30)):
                if lab == "standard" and f > 1e8: continue
                d.clearcache()
                try:
                    out[lab] = [np.array(x) for x in (d.Lij(*args) if lo is None else d.Lij(*args, large_om2=lo))]   # None: the calculator's own default
                except Exception as e:
                    key = K_MULTI if (multi and f >= 1e6) else "c08-raise"
                    ck.violation("Lij(large_om2=%s) raised %r at omega2 scale %g" % (lo, e, f), doc, key=key); out[lab] = None
            if out.get("default") is None: continue
            ncase += 1
            L = out["default"]; scale = np.abs(L[0]).max()
            ck.case(key=(nm, f, [np.asarray(v).round(10).tolist() for v in th.values()]), nontrivial=(f != 1.0),
                    kind="f=%g:%s" % (f, "multiW" if multi else ("polar" if polar else "plain")),
                    sample={"crystal": nm, "f": f, "Lss": L[1].tolist()} if ncase <= 2 else None)
            doc["Lij_default"] = [x.tolist() for x in L]
            if not all(np.all(np.isfinite(x)) for x in L):
                ck.violation("default algorithm returns non-finite tensors at omega2 scale %g" % f, doc, key=(K_MULTI if multi and f >= 1e6 else "c08-finite")); continue
            axial = tcommon.axial_dim(crys) > 0     # Lsv is not symmetric there (C03 known finding c03-Lsv-asym-axialgroup)
            sy = max(tcommon.sym_err(x) / max(np.abs(x).max(), scale) for k, x in enumerate(L) if not (axial and k == 2))
            if sy > 1e-8 + 1e-15 * f * smax: ck.violation("default algorithm returns non-symmetric tensors (%.3g) at omega2 scale %g" % (sy, f), doc, key=(K_MULTI if multi and f >= 1e6 else "c08-symmetric"))
            if out.get("standard") is not None and out.get("large") is not None:
                tol = 1e-14 * f * smax + 1e-9
                ess = np.abs(out["standard"][1] - out["large"][1]).max() / scale
                esv = max(np.abs(a - b).max() for a, b in zip(out["standard"][2:], out["large"][2:])) / scale
                dd = dict(doc, standard=[x.tolist() for x in out["standard"]], large=[x.tolist() for x in out["large"]])
                if multi and f <= 1e3:
                    # the known multi-Wyckoff loss of accuracy of the large algorithm grows like eps*f^2 (measured 1e-16*f^2);
                    # at ordinary rates the two algorithms must agree - a disagreement here is NOT the known finding
                    tolm = 1e-9 + 1e-15 * (f * smax) ** 2
                    if max(ess, esv) > tolm:
                        ck.violation("multi-Wyckoff crystal: standard and large-omega2 algorithms differ by %.3g at ordinary exchange scale %g (allowed %.3g)"
                                     % (max(ess, esv), f, tolm), dd, key="c08-agree-multiwyckoff-ordinary")
                elif multi:
                    if max(ess, esv) > tol:
                        ck.violation("multi-Wyckoff crystal: standard and large-omega2 algorithms differ by %.3g at scale %g" % (max(ess, esv), f), dd, key=K_MULTI)
                else:
                    if ess > tol:
                        ck.violation("standard and large-omega2 algorithms: Lss differs by %.3g relative at scale %g (allowed %.3g)" % (ess, f, tol), dd, key="c08-agree")
                    if esv > tol:
                        ck.violation("standard and large-omega2 algorithms: Lsv/L1vv differ by %.3g relative at scale %g (allowed %.3g)" % (esv, f, tol), dd,
                                     key="c08-agree")
            res[f] = L
        # smooth approach to the limit.  References: Lss -> value at the largest f; Lsv/L1vv -> value at f = 1e10
        # (beyond that the known cancellation sets in).  Regimes with known failures are keyed separately.
        fmax_ok = 1e6 if multi else 1e16
        if fmax_ok in res and 1e3 in res:
            lim = res[fmax_ok]; scale = np.abs(lim[0]).max()
            A = abs(res[1e3][1] - lim[1]).max() * 1e3
            for f in FS:
                if f < 1e3 or f not in res: continue
                dlt = np.abs(res[f][1] - lim[1]).max()
                # floor: the standard algorithm (used below the switch at ~1e8) carries eps*f error (measured 4e-16*f)
                if dlt > 3 * A / f + (1e-9 + 1e-14 * min(f, 1e8) * smax) * scale:
                    key = K_MULTI if (multi and f > 1e6) else "c08-smooth-Lss"
                    ck.violation("Lss does not approach its large-rate limit smoothly: |Lss(f=%g) - limit| = %.3g > 3A/f = %.3g" % (f, dlt, 3 * A / f),
                                 {"crystal": nm, "cutoff": cut, "thermo": {k: np.asarray(v).tolist() for k, v in th.items()}, "f": f,
                                  "L_f": [x.tolist() for x in res[f]], "L_limit": [x.tolist() for x in lim]}, key=key)
        fref = 1e6 if multi else 1e10   # origin-state crystals behave like plain ones since fix b4a4433
        if fref in res and 1e3 in res:
            lim = res[fref]; scale = np.abs(lim[0]).max()
            A = max(np.abs(a - b).max() for a, b in zip(res[1e3][2:], lim[2:])) * 1e3
            for f in FS:
                if f < 1e3 or f not in res: continue
                dlt = max(np.abs(a - b).max() for a, b in zip(res[f][2:], lim[2:]))
                if dlt > 3 * A / min(f, fref) + 1e-5 * smax * scale:   # floor: cancellation noise of the f=1e10 reference itself (~1e-16*f)
                    if multi and f > 1e6: key = K_MULTI
                    elif f >= 1e12: key = K_CANCEL
                    else: key = "c08-smooth-LsvL1vv"
                    ck.violation("Lsv/L1vv do not approach their large-rate limit smoothly: deviation %.3g at f=%g (allowed %.3g)" % (dlt, f, 3 * A / min(f, fref) + 1e-5 * smax * scale),
                                 {"crystal": nm, "cutoff": cut, "thermo": {k: np.asarray(v).tolist() for k, v in th.items()}, "f": f,
                                  "L_f": [x.tolist() for x in res[f]], "L_reference": [x.tolist() for x in lim]}, key=key)
        # (b') the algorithm choice must not depend on the absolute time unit: all rates scaled by g (omega0/1/2 prefactors)
        # must scale Lss by g exactly, also where the exchange is 1e12..1e14 x the bare rate (Lss is accurate there for
        # plain crystals; Lsv/L1vv are in the known cancellation regime and not compared)
        if not multi:
            for g in (1e-13, 1e9):
                for f in (1e12, 1e14):
                    if f not in res: continue
                    t = {k: np.array(v, dtype=float) for k, v in th.items()}
                    t["preT2"] = t["preT2"] * f
                    for k in ("preT0", "preT1", "preT2"): t[k] = t[k] * g
                    d.clearcache()
                    try:
                        Lg = [np.array(x) for x in d.Lij(*d.preene2betafree(1.0, **t))]
                    except Exception as e:
                        ck.violation("Lij raised %r with all rates scaled by %g" % (e, g), {"crystal": nm, "g": g, "f": f}, key="c08-raise"); continue
                    scale = np.abs(res[f][0]).max()
                    e0 = np.abs(Lg[0] / g - res[f][0]).max() / scale; es = np.abs(Lg[1] / g - res[f][1]).max() / scale
                    ck.case(key=("timeunit", nm, g, f, [np.asarray(v).round(10).tolist() for v in th.values()]), nontrivial=True, kind="timeunit:g=%g,f=%g" % (g, f))
                    if max(e0, es) > 1e-6:
                        ck.violation("scaling every rate by %g changes L0vv/Lss by more than the factor (relative %.3g, %.3g) at exchange scale %g: "
                                     "the algorithm selection depends on the time unit" % (g, e0, es, f),
                                     {"crystal": nm, "cutoff": cut, "g": g, "f": f, "thermo": {k: np.asarray(v).tolist() for k, v in th.items()},
                                      "L_scaled_over_g": [(x / g).tolist() for x in Lg], "L": [x.tolist() for x in res[f]]}, key="c08-timeunit")
        # (b'') inequivalent exchange classes separated by nine decades (one class 1e9 x the others): both forced algorithms must
        # still agree (standard error ~ eps * 1e9) and Lss must stay positive semidefinite
        if not multi and len(th["preT2"]) >= 2:
            for k0 in range(len(th["preT2"])):
                t = {k: np.array(v, dtype=float) for k, v in th.items()}
                t["preT2"][k0] = t["preT2"][k0] * 1e9
                args = d.preene2betafree(1.0, **t)
                outw = {}
                for lab, lo in (("standard", 1e300), ("default", None), ("large", 1e-30)):
                    d.clearcache()
                    try:
                        outw[lab] = [np.array(x) for x in (d.Lij(*args) if lo is None else d.Lij(*args, large_om2=lo))]
                    except Exception as e:
                        ck.violation("Lij(large_om2=%s) raised %r with exchange classes nine decades apart" % (lo, e), {"crystal": nm, "class": k0}, key="c08-raise"); outw[lab] = None
                if any(v is None for v in outw.values()): continue
                scale = np.abs(outw["default"][0]).max()
                ck.case(key=("widespread", nm, k0, [np.asarray(v).round(10).tolist() for v in th.values()]), nontrivial=True, kind="class-spread-1e9")
                ess = max(np.abs(outw["standard"][1] - outw["large"][1]).max(), np.abs(outw["default"][1] - outw["large"][1]).max()) / scale
                mn = tcommon.min_eig(outw["default"][1]) / scale
                docw = {"crystal": nm, "cutoff": cut, "fast_class": k0, "thermo": {k: np.asarray(v).tolist() for k, v in t.items()},
                        "standard": [x.tolist() for x in outw["standard"]], "large": [x.tolist() for x in outw["large"]], "default": [x.tolist() for x in outw["default"]]}
                # Lsv / L1vv as well: the standard algorithm carries eps * 1e9 there too; the large algorithm must keep the slow
                # exchange class (a pseudo-inverse cutoff relative to the FAST class would drop it)
                esvw = max(np.abs(a - b).max() for a, b in zip(outw["standard"][2:], outw["large"][2:])) / scale
                if esvw > 1e-13 * 1e9 * smax + 1e-9:
                    ck.violation("exchange classes nine decades apart: Lsv/L1vv of the standard and large-omega2 algorithms differ by %.3g relative" % esvw, docw, key="c08-agree-classspread-LsvL1vv")
                if ess > 1e-14 * 1e9 * smax + 1e-9:
                    ck.violation("exchange classes nine decades apart: Lss of the standard/default and large-omega2 algorithms differ by %.3g relative" % ess, docw, key="c08-agree-classspread")
                if mn < -1e-6:
                    ck.violation("exchange classes nine decades apart: default Lss not positive semidefinite (min eig %.3g relative)" % mn, docw, key="c08-psd-classspread")
        # (c) forced-large algorithm vs the exact torus chain (crystals outside the known failure regimes)
        M = vm.min_torus(d)
        if not multi and d.N * d.N * M ** crys.dim <= (700 if ck.quick else 2600):
            for f in (1.0, 30.0):
                t = {k: np.array(v, dtype=float) for k, v in th.items()}; t["preT2"] = t["preT2"] * f
                args = d.preene2betafree(1.0, **t)
                orig = d.Lij
                try:
                    d.Lij = lambda *a, **kw: orig(*a, large_om2=1e-30)   # force the large algorithm inside vm.inject
                    I, o, errs, npolar = compare_injected(ck, d, args, M, nm, None)
                finally:
                    d.Lij = orig
                ck.case(key=("oracle", nm, f, [np.asarray(v).round(10).tolist() for v in th.values()]), nontrivial=True, kind="oracle-large:f=%g" % f)
                for k in ("Lss", "Lsv", "L1vv"):
                    errs[k] = max(errs[k], errs[k + "_polar"])   # all components, also in the span of a site vector basis
                    if errs[k] > 1e-7:
                        ck.violation("forced large-omega2 algorithm: %s differs from the exact torus chain by %.3g (f=%g)" % (k, errs[k], f),
                                     {"crystal": nm, "cutoff": cut, "f": f, "M": M, "thermo": {kk: np.asarray(v).tolist() for kk, v in t.items()},
                                      "Lij_injected": [x.tolist() for x in I]}, key="c08-oracle")
    ck.extra["cases"] = ncase
