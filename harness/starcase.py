"""Shared by C24/C25/C26: exact lattice-coordinate view of a crystal's jump network and space group
(independent of onsager.crystalStars), brute-force reference enumerations in pure Python integers,
and printers of Coq literals for Model/Stars.v, Model/OmegaNet.v, Model/VecStars.v."""
import itertools, os
import numpy as np
from .lib import coq_Z, coq_list, coq_nat, coq_bool

TOL = 1e-8


class GeometryError(Exception):
    """the crystal's own data are not integer where they must be (outside the separated domain)"""


def iround(x, what, tol=TOL):
    r = np.round(x)
    if np.abs(np.asarray(x) - r).max(initial=0.) > tol:
        raise GeometryError("%s not integer: %r" % (what, np.asarray(x).tolist()))
    return tuple(int(v) for v in r)


def pad3(v):
    v = tuple(int(x) for x in v)
    return v + (0,) * (3 - len(v))


def latt_jumps(crys, chem, jn):
    """[(i, j, R, jumptype)] with R the integer cell difference, computed from dx independently"""
    out = []
    u = crys.basis[chem]
    for t, jl in enumerate(jn):
        for (i, j), dx in jl:
            R = iround(np.dot(crys.invlatt, dx) - u[j] + u[i], "jump cell vector", max(TOL, crys.threshold))
            out.append((int(i), int(j), pad3(R), t))
    return out


def embed3(S):
    S = np.asarray(S)
    d = S.shape[0]
    M = np.eye(3, dtype=int)
    M[:d, :d] = S
    return tuple(tuple(int(x) for x in row) for row in M)


def ops_of(crys, chem):
    """[(S 3x3 int rows, perm tuple, shifts tuple of 3-vectors)] for every g in crys.G, computed from
    rot/trans/indexmap and the basis -- the action on pair states is (p i, p j, S R + sh[j] - sh[i])"""
    u = crys.basis[chem]
    out = []
    for g in crys.G:
        S = iround(np.asarray(g.rot, dtype=float).ravel(), "rotation in lattice coordinates")
        S = np.array(S, dtype=int).reshape(crys.dim, crys.dim)
        perm = tuple(int(x) for x in g.indexmap[chem])
        sh = []
        for i in range(len(u)):
            # positions may carry noise up to the crystal's own symmetry threshold (relaxed coordinates)
            sh.append(pad3(iround(np.dot(S, u[i]) + g.trans - u[perm[i]], "site shift", max(TOL, crys.threshold))))
        out.append((embed3(S), perm, tuple(sh)))
    return out


def mulmv(S, v):
    return tuple(sum(S[a][b] * v[b] for b in range(3)) for a in range(3))


def vadd(a, b): return tuple(x + y for x, y in zip(a, b))
def vsub(a, b): return tuple(x - y for x, y in zip(a, b))
def vneg(a): return tuple(-x for x in a)
Z3 = (0, 0, 0)


def gact(g, s):
    S, perm, sh = g
    i, j, R = s
    return (perm[i], perm[j], vadd(mulmv(S, R), vsub(sh[j], sh[i])))


def gvec(g, a, b, R):
    """image of a displacement from (site a) to (site b, R cells away)"""
    S, perm, sh = g
    return vadd(mulmv(S, R), vsub(sh[b], sh[a]))


def iszero(s): return s[0] == s[1] and s[2] == Z3


def ps_of(PS):
    return (int(PS.i), int(PS.j), pad3(PS.R))


def reach_bruteforce(jumps, N, nsites, origin):
    """non-zero end points of every chain of 1..N jumps (chains MAY pass through zero), plus origins"""
    js = [(i, j, R) for (i, j, R, t) in jumps]
    out = set()
    cur = set(js)
    for k in range(N):
        if k > 0:
            cur = set((s[0], q[1], vadd(s[2], q[2])) for s in cur for q in js if s[1] == q[0])
        out |= set(s for s in cur if not iszero(s))
    if origin:
        out |= set((i, i, Z3) for i in range(nsites))
    return out


def orbits(ops, states):
    """partition of a set of states into orbits; raises KeyError-free: images outside are reported"""
    left = set(states)
    res = []
    outside = []
    while left:
        s = min(left)
        orb = set(gact(g, s) for g in ops)
        # closure (ops is a group, but do not rely on it)
        frontier = list(orb)
        while frontier:
            x = frontier.pop()
            for g in ops:
                y = gact(g, x)
                if y not in orb:
                    orb.add(y); frontier.append(y)
        outside += [x for x in orb if x not in states]
        res.append(frozenset(orb))
        left -= orb
    return res, outside


# ---- Coq literals -------------------------------------------------------------------------------
def c_vec(v):
    return "(%s, %s, %s)" % tuple(("(%d)" % x if x < 0 else "%d" % x) for x in v)


def c_ps(s):
    return "mkPS %d %d %s" % (s[0], s[1], c_vec(s[2]))


def c_pslist(l):
    return "[" + "; ".join(c_ps(s) for s in l) + "]"


def c_op(g):
    S, perm, sh = g
    return "mkOp (%s, %s, %s) %s %s" % (c_vec(S[0]), c_vec(S[1]), c_vec(S[2]),
                                        "[" + "; ".join("%d%%nat" % p for p in perm) + "]",
                                        "[" + "; ".join(c_vec(v) for v in sh) + "]")


def c_natlist(l):
    return "[" + "; ".join("%d" % int(x) for x in l) + "]%nat"


def c_natlistlist(ll):
    return "[" + "; ".join("[" + "; ".join("%d" % int(x) for x in l) + "]" for l in ll) + "]%nat"


def c_optnat(x):
    return "None" if x is None else "(Some %d%%nat)" % int(x)


STARS_IMPORTS = """From Coq Require Import List ZArith.
From Onsager Require Import Model.Stars.
Import ListNotations.
Local Open Scope Z_scope.
"""


def parse_natlist(out):
    """parse the single `= [a; b; ...] : list nat` printed by Eval vm_compute"""
    import re
    from .lib import CoqFailure
    m = re.search(r"=\s*(\[.*?\])(?:%nat)?\s*:\s*list nat", out, flags=re.S)
    if not m: raise CoqFailure("no result in model output: " + out[-300:])
    return [int(x) for x in re.findall(r"\d+", m.group(1).replace("%nat", ""))]


def run_chunks(ck, name, defs, runs, imports, chunk=60, workers=4, weights=None, wmax=None):
    """evaluate `runs` (Coq terms of type nat) in chunks, a few coqc processes in parallel; returns the result codes
    (raises CoqFailure).  Every coqc call is kept SMALL: consecutive runs are packed until their estimated weight reaches
    `wmax` (or `chunk` runs), so that one call takes well under a minute on an idle machine and cannot approach the coqc
    timeout even under a tenfold slowdown; a chunk that does time out is retried run by run before it counts as a failure.
    `defs` may be a list of per-crystal definition blocks (J<k>/G<k>): only the blocks a chunk refers to are included."""
    import re, time
    from concurrent.futures import ThreadPoolExecutor
    from .lib import CoqFailure, coq_make
    if not runs: return []
    coq_make()
    if weights is None: weights = [1.] * len(runs); wmax = wmax or float(chunk)
    wmax = wmax or float("inf")
    parts, cur, w = [], [], 0.
    for k, (r, wr) in enumerate(zip(runs, weights)):
        if cur and (w + wr > wmax or len(cur) >= chunk):
            parts.append(cur); cur, w = [], 0.
        cur.append(k); w += wr
    if cur: parts.append(cur)
    stat = ck.extra.setdefault("coq_chunks", {"calls": 0, "max_s": 0., "total_s": 0., "max_weight": 0., "retried_singly": 0})

    def defs_for(idx):
        if isinstance(defs, str): return defs
        used = set(int(x) for k in idx for x in re.findall(r"\b[JG](\d+)\b", runs[k]))
        return "".join(d for c, d in enumerate(defs) if c in used)

    def call(tag, idx):
        body = defs_for(idx) + "Eval vm_compute in [%s]." % ";\n ".join(runs[k] for k in idx)
        t = time.time()
        out = ck.coq_cases(tag, body, imports)
        dt = time.time() - t
        stat["calls"] += 1; stat["total_s"] = round(stat["total_s"] + dt, 1); stat["max_s"] = round(max(stat["max_s"], dt), 1)
        stat["max_weight"] = max(stat["max_weight"], float(sum(weights[k] for k in idx)))
        if os.environ.get("VERIF_CHUNKLOG"): print("CHUNK %s n=%d w=%.3g t=%.1f" % (tag, len(idx), sum(weights[k] for k in idx), dt), flush=True)
        got = parse_natlist(out)
        if len(got) != len(idx):
            raise CoqFailure("could not parse model output: " + out[-300:])
        return got

    def one(p):
        idx = parts[p]
        try:
            return call("%s_%d" % (name, p), idx)
        except CoqFailure as e:
            if "timeout" not in str(e) or len(idx) == 1: raise
            stat["retried_singly"] += 1
            return [call("%s_%d_%d" % (name, p, k), [k])[0] for k in idx]
    with ThreadPoolExecutor(max_workers=workers) as ex:
        res = list(ex.map(one, range(len(parts))))
    return [c for r in res for c in r]


# ---- crystals with a 3-, 4- or 6-fold axis and NO mirror containing it / two-fold perpendicular to it ------------
def _orbit(latt, rots, u0, tol=1e-6):
    """positions (cell coordinates) of the orbit of u0 under Cartesian point operations rots (about the origin)"""
    inv = np.linalg.inv(latt)
    out = []
    for Rm in rots:
        u = np.dot(inv, np.dot(Rm, np.dot(latt, u0)))
        u = u - np.floor(u + 1e-9)
        if not any(np.abs((u - v) - np.round(u - v)).max() < tol for v in out): out.append(u)
    return out


def _cyclic(n, dim, extra=()):
    """rotations by 2 pi k / n about z (3-D) or in the plane (2-D), times the extra commuting operations"""
    rots = []
    for k in range(n):
        c, s_ = np.cos(2 * np.pi * k / n), np.sin(2 * np.pi * k / n)
        Rm = np.eye(dim); Rm[0, 0] = c; Rm[0, 1] = -s_; Rm[1, 0] = s_; Rm[1, 1] = c
        rots.append(Rm)
        for E in extra: rots.append(np.dot(np.asarray(E, dtype=float), Rm))
    return rots


def chiral_crystal(name):
    """-> (crystal, chem, expected order of the point group, cutoff with in-plane 1st and 2nd neighbour jumps).
    Mobile species: one atom at the origin (chem 0); a spectator species on a general-position orbit removes the mirrors."""
    from onsager import crystal
    s3 = np.sqrt(3.)
    sq2, hex2 = np.eye(2), np.array([[1., -.5], [0., s3 / 2]])
    tet = np.diag([1., 1., 1.2]); hex3 = np.array([[1., -.5, 0.], [0., s3 / 2, 0.], [0., 0., 1.25]])
    inv3, mz = -np.eye(3), np.diag([1., 1., -1.])
    if name == "p4":      latt, rots, u0, order = sq2, _cyclic(4, 2), np.array([.23, .11]), 4
    elif name == "p3":    latt, rots, u0, order = hex2, _cyclic(3, 2), np.array([.31, .12]), 3
    elif name == "p6":    latt, rots, u0, order = hex2, _cyclic(6, 2), np.array([.31, .12]), 6
    elif name == "P4/m":  latt, rots, u0, order = tet, _cyclic(4, 3), np.array([.23, .11, 0.]), 8
    elif name == "P4":    latt, rots, u0, order = tet, _cyclic(4, 3), np.array([.23, .11, .2]), 4
    elif name == "P3":    latt, rots, u0, order = hex3, _cyclic(3, 3), np.array([.31, .12, .2]), 3
    elif name == "P-3":   latt, rots, u0, order = hex3, _cyclic(3, 3, (inv3,)), np.array([.31, .12, .2]), 6
    elif name == "P6/m":  latt, rots, u0, order = hex3, _cyclic(6, 3), np.array([.31, .12, 0.]), 12
    elif name == "m-3":
        latt, order = np.eye(3), 24
        cyc = [np.eye(3), np.array([[0., 0, 1], [1, 0, 0], [0, 1, 0]]), np.array([[0., 1, 0], [0, 0, 1], [1, 0, 0]])]
        rots = [np.dot(np.diag(sg), P) for P in cyc for sg in itertools.product((1., -1.), repeat=3)]
        u0 = np.array([.21, .34, 0.])
    else:
        raise KeyError(name)
    dim = latt.shape[0]
    crys = crystal.Crystal(latt, [[np.zeros(dim)], _orbit(latt, rots, u0)])
    # in-plane first and second neighbours of the mobile lattice (anything shorter comes along)
    d = sorted(set(round(float(np.linalg.norm(np.dot(latt[:2, :2], np.array(R)))), 6)
                   for R in itertools.product(range(-2, 3), repeat=2) if any(R)))
    return crys, 0, order, d[1] + 1e-4


CHIRAL2 = ["p4", "p3", "p6"]
CHIRAL3 = ["P4/m", "P4", "P3", "P-3", "P6/m", "m-3"]


# ---- low-symmetry crystals with several sites per cell (rational data that look irrational) ---------------------------
def lowsym_demo():
    """triclinic P-1 cell with two sites (the crystal of seeded/C26-r5): some three-jump states are closer to the solute
    than every two-jump state they can be reached from"""
    from onsager import crystal
    latt = np.array([[0.96, -0.43, 0.09], [0.10, 0.85, -0.24], [-0.19, 0.40, 0.90]])
    return crystal.Crystal(latt, [[np.array([0.88, 0.45, 0.78]), np.array([0.46, 0.66, 0.13])]]), 0, 0.8


def lowsym_crystal(rng, dim=3):
    """random triclinic / monoclinic (3-D) or oblique (2-D) lattice with two-decimal entries and 2-3 sites of one species at
    two-decimal general positions (no two closer than 0.35); returns (label, crystal, chem) or None"""
    from onsager import crystal
    r2 = lambda lo, hi: round(rng.uniform(lo, hi), 2)
    if dim == 2:
        kind = "oblique"
        latt = np.array([[r2(.9, 1.1), r2(-.4, .4)], [r2(-.2, .2), r2(.8, 1.1)]])
    else:
        kind = rng.choice(["tri", "tri", "mono"])
        if kind == "tri":
            latt = np.array([[r2(.9, 1.1), r2(-.45, .45), r2(-.3, .3)], [r2(-.3, .3), r2(.8, 1.1), r2(-.3, .3)],
                             [r2(-.3, .3), r2(-.45, .45), r2(.8, 1.1)]])
        else:
            latt = np.array([[r2(.9, 1.1), 0., r2(-.4, .4)], [0., r2(.8, 1.2), 0.], [0., 0., r2(.8, 1.1)]])
    if abs(np.linalg.det(latt)) < 0.4: return None
    pts = []
    for _ in range(rng.choice([2, 2, 3])):
        for _try in range(30):
            u = np.array([r2(0., .99) for _ in range(dim)])
            if all(np.linalg.norm(np.dot(latt, crystal.inhalf(u - v))) > 0.35 for v in pts):
                pts.append(u); break
    if len(pts) < 2: return None
    try:
        crys = crystal.Crystal(latt, [pts])
    except Exception:
        return None
    if len(crys.basis[0]) < 2: return None        # cell reduction merged the sites
    return "lowsym-%s%d" % (kind, len(crys.basis[0])), crys, 0


def lowsym_network(crys, chem, rng, maxjumps=40):
    """cut-off above a random one of the 3rd..9th neighbour shells: several jump types, no percolation requirement
    (StarSet needs none)"""
    from . import gen
    sh = gen.shells(crys, chem)
    target = rng.randint(2, 8)
    best = None
    for k in range(min(target + 1, len(sh))):
        jn = crys.jumpnetwork(chem, sh[k] + 1e-4)
        if sum(len(t) for t in jn) > maxjumps: break
        if len(jn) >= 2: best = (sh[k] + 1e-4, jn)
    return best


# ---- crystals with numerically noisy positions, analysed with a loosened symmetry threshold -------------------------------
def noisy_crystal(name, rng, noise=2e-5, threshold=1e-3):
    """-> (label, crystal, chem, ideal crystal) : the named crystal with every position displaced by up to `noise` (cell
    coordinates) and Crystal(..., threshold=threshold, noreduce=True); None unless the space group is still complete"""
    from onsager import crystal
    from . import gen
    ideal, chem = gen.named(name)
    basis = [[u + noise * np.array([rng.uniform(-1, 1) for _ in range(ideal.dim)]) for u in ul] for ul in ideal.basis]
    try:
        crys = crystal.Crystal(ideal.lattice, basis, threshold=threshold, noreduce=True)
    except Exception:
        return None
    if len(crys.G) != len(ideal.G) or [len(b) for b in crys.basis] != [len(b) for b in ideal.basis]: return None
    return "noisy-" + name, crys, chem, ideal


def collinear_network(crys, chem):
    """user-selected network with a jump v and the collinear jump 2v (classes of crys.jumpnetwork out to twice the shortest
    jump): the vacancy can hop from a to -a across a fixed solute.  -> (description, network) or None"""
    from . import gen
    sh = gen.shells(crys, chem)
    wide = crys.jumpnetwork(chem, 2 * sh[0] + 1e-4)
    (i0, j0), dx0 = wide[0][0]
    keep = [0]
    for t, cl in enumerate(wide):
        if t and any(i == j and i == i0 and np.allclose(dx, 2 * dx0, atol=1e-8) for (i, j), dx in cl): keep.append(t)
    if i0 != j0 or len(keep) < 2: return None
    return "classes %s of cutoff 2*d1 (v and 2v)" % keep, [wide[t] for t in keep]


def tioh():
    """HCP Ti + octahedral O + tetrahedral H; moving species = chemistry 2 (last): flat atom index != sublattice index"""
    from onsager import crystal
    hcp = crystal.Crystal.HCP(1., chemistry='Ti')
    TiO = hcp.addbasis(hcp.Wyckoffpos(np.array([0., 0., 0.5])), chemistry=['O'])
    return TiO.addbasis(TiO.Wyckoffpos(np.array([1. / 3., 2. / 3., 0.625])), chemistry=['H']), 2
