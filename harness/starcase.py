"""Shared by C24/C25/C26: exact lattice-coordinate view of a crystal's jump network and space group
(independent of onsager.crystalStars), brute-force reference enumerations in pure Python integers,
and printers of Coq literals for Model/Stars.v, Model/OmegaNet.v, Model/VecStars.v."""
import itertools
import numpy as np
from .lib import coq_Z, coq_list, coq_nat, coq_bool

TOL = 1e-8


class GeometryError(Exception):
    """the crystal's own data are not integer where they must be (outside the separated domain)"""


def iround(x, what):
    r = np.round(x)
    if np.abs(np.asarray(x) - r).max(initial=0.) > TOL:
        raise GeometryError("%s not integer: %r" % (what, np.asarray(x).tolist()))
    return tuple(int(v) for v in r)


def pad3(v):
    v = tuple(int(x) for x in v)
    return v + (0,) * (3 - len(v))


def latt_jumps(crys, chem, jn):
    """[(i, j, R, jumptype)] with R the integer cell difference, computed from dx independently"""
    out = []
    u = crys.basis[chem]
    for t, jl in enumerate(jn):
        for (i, j), dx in jl:
            R = iround(np.dot(crys.invlatt, dx) - u[j] + u[i], "jump cell vector")
            out.append((int(i), int(j), pad3(R), t))
    return out


def embed3(S):
    S = np.asarray(S)
    d = S.shape[0]
    M = np.eye(3, dtype=int)
    M[:d, :d] = S
    return tuple(tuple(int(x) for x in row) for row in M)


def ops_of(crys, chem):
    """[(S 3x3 int rows, perm tuple, shifts tuple of 3-vectors)] for every g in crys.G, computed from
    rot/trans/indexmap and the basis -- the action on pair states is (p i, p j, S R + sh[j] - sh[i])"""
    u = crys.basis[chem]
    out = []
    for g in crys.G:
        S = iround(np.asarray(g.rot, dtype=float).ravel(), "rotation in lattice coordinates")
        S = np.array(S, dtype=int).reshape(crys.dim, crys.dim)
        perm = tuple(int(x) for x in g.indexmap[chem])
        sh = []
        for i in range(len(u)):
            sh.append(pad3(iround(np.dot(S, u[i]) + g.trans - u[perm[i]], "site shift")))
        out.append((embed3(S), perm, tuple(sh)))
    return out


def mulmv(S, v):
    return tuple(sum(S[a][b] * v[b] for b in range(3)) for a in range(3))


def vadd(a, b): return tuple(x + y for x, y in zip(a, b))
def vsub(a, b): return tuple(x - y for x, y in zip(a, b))
def vneg(a): return tuple(-x for x in a)
Z3 = (0, 0, 0)


def gact(g, s):
    S, perm, sh = g
    i, j, R = s
    return (perm[i], perm[j], vadd(mulmv(S, R), vsub(sh[j], sh[i])))


def gvec(g, a, b, R):
    """image of a displacement from (site a) to (site b, R cells away)"""
    S, perm, sh = g
    return vadd(mulmv(S, R), vsub(sh[b], sh[a]))


def iszero(s): return s[0] == s[1] and s[2] == Z3


def ps_of(PS):
    return (int(PS.i), int(PS.j), pad3(PS.R))


def reach_bruteforce(jumps, N, nsites, origin):
    """non-zero end points of every chain of 1..N jumps (chains MAY pass through zero), plus origins"""
    js = [(i, j, R) for (i, j, R, t) in jumps]
    out = set()
    cur = set(js)
    for k in range(N):
        if k > 0:
            cur = set((s[0], q[1], vadd(s[2], q[2])) for s in cur for q in js if s[1] == q[0])
        out |= set(s for s in cur if not iszero(s))
    if origin:
        out |= set((i, i, Z3) for i in range(nsites))
    return out


def orbits(ops, states):
    """partition of a set of states into orbits; raises KeyError-free: images outside are reported"""
    left = set(states)
    res = []
    outside = []
    while left:
        s = min(left)
        orb = set(gact(g, s) for g in ops)
        # closure (ops is a group, but do not rely on it)
        frontier = list(orb)
        while frontier:
            x = frontier.pop()
            for g in ops:
                y = gact(g, x)
                if y not in orb:
                    orb.add(y); frontier.append(y)
        outside += [x for x in orb if x not in states]
        res.append(frozenset(orb))
        left -= orb
    return res, outside


# ---- Coq literals -------------------------------------------------------------------------------
def c_vec(v):
    return "(%s, %s, %s)" % tuple(("(%d)" % x if x < 0 else "%d" % x) for x in v)


def c_ps(s):
    return "mkPS %d %d %s" % (s[0], s[1], c_vec(s[2]))


def c_pslist(l):
    return "[" + "; ".join(c_ps(s) for s in l) + "]"


def c_op(g):
    S, perm, sh = g
    return "mkOp (%s, %s, %s) %s %s" % (c_vec(S[0]), c_vec(S[1]), c_vec(S[2]),
                                        "[" + "; ".join("%d%%nat" % p for p in perm) + "]",
                                        "[" + "; ".join(c_vec(v) for v in sh) + "]")


def c_natlist(l):
    return "[" + "; ".join("%d" % int(x) for x in l) + "]%nat"


def c_natlistlist(ll):
    return "[" + "; ".join("[" + "; ".join("%d" % int(x) for x in l) + "]" for l in ll) + "]%nat"


def c_optnat(x):
    return "None" if x is None else "(Some %d%%nat)" % int(x)


STARS_IMPORTS = """From Coq Require Import List ZArith.
From Onsager Require Import Model.Stars.
Import ListNotations.
Local Open Scope Z_scope.
"""


def parse_natlist(out):
    """parse the single `= [a; b; ...] : list nat` printed by Eval vm_compute"""
    import re
    from .lib import CoqFailure
    m = re.search(r"=\s*(\[.*?\])(?:%nat)?\s*:\s*list nat", out, flags=re.S)
    if not m: raise CoqFailure("no result in model output: " + out[-300:])
    return [int(x) for x in re.findall(r"\d+", m.group(1).replace("%nat", ""))]


def run_chunks(ck, name, defs, runs, imports, chunk=60, workers=4):
    """evaluate `runs` (Coq terms of type nat) in chunks, a few coqc processes in parallel;
    returns the list of result codes (raises CoqFailure)"""
    from concurrent.futures import ThreadPoolExecutor
    from .lib import CoqFailure, coq_make
    if not runs: return []
    coq_make()
    parts = [runs[a:a + chunk] for a in range(0, len(runs), chunk)]

    def one(k):
        body = defs + "Eval vm_compute in [%s]." % ";\n ".join(parts[k])
        out = ck.coq_cases("%s_%d" % (name, k), body, imports)
        got = parse_natlist(out)
        if len(got) != len(parts[k]):
            raise CoqFailure("could not parse model output: " + out[-300:])
        return got
    with ThreadPoolExecutor(max_workers=workers) as ex:
        res = list(ex.map(one, range(len(parts))))
    return [c for r in res for c in r]


# ---- crystals with a 3-, 4- or 6-fold axis and NO mirror containing it / two-fold perpendicular to it ------------
def _orbit(latt, rots, u0, tol=1e-6):
    """positions (cell coordinates) of the orbit of u0 under Cartesian point operations rots (about the origin)"""
    inv = np.linalg.inv(latt)
    out = []
    for Rm in rots:
        u = np.dot(inv, np.dot(Rm, np.dot(latt, u0)))
        u = u - np.floor(u + 1e-9)
        if not any(np.abs((u - v) - np.round(u - v)).max() < tol for v in out): out.append(u)
    return out


def _cyclic(n, dim, extra=()):
    """rotations by 2 pi k / n about z (3-D) or in the plane (2-D), times the extra commuting operations"""
    rots = []
    for k in range(n):
        c, s_ = np.cos(2 * np.pi * k / n), np.sin(2 * np.pi * k / n)
        Rm = np.eye(dim); Rm[0, 0] = c; Rm[0, 1] = -s_; Rm[1, 0] = s_; Rm[1, 1] = c
        rots.append(Rm)
        for E in extra: rots.append(np.dot(np.asarray(E, dtype=float), Rm))
    return rots


def chiral_crystal(name):
    """-> (crystal, chem, expected order of the point group, cutoff with in-plane 1st and 2nd neighbour jumps).
    Mobile species: one atom at the origin (chem 0); a spectator species on a general-position orbit removes the mirrors."""
    from onsager import crystal
    s3 = np.sqrt(3.)
    sq2, hex2 = np.eye(2), np.array([[1., -.5], [0., s3 / 2]])
    tet = np.diag([1., 1., 1.2]); hex3 = np.array([[1., -.5, 0.], [0., s3 / 2, 0.], [0., 0., 1.25]])
    inv3, mz = -np.eye(3), np.diag([1., 1., -1.])
    if name == "p4":      latt, rots, u0, order = sq2, _cyclic(4, 2), np.array([.23, .11]), 4
    elif name == "p3":    latt, rots, u0, order = hex2, _cyclic(3, 2), np.array([.31, .12]), 3
    elif name == "p6":    latt, rots, u0, order = hex2, _cyclic(6, 2), np.array([.31, .12]), 6
    elif name == "P4/m":  latt, rots, u0, order = tet, _cyclic(4, 3), np.array([.23, .11, 0.]), 8
    elif name == "P4":    latt, rots, u0, order = tet, _cyclic(4, 3), np.array([.23, .11, .2]), 4
    elif name == "P3":    latt, rots, u0, order = hex3, _cyclic(3, 3), np.array([.31, .12, .2]), 3
    elif name == "P-3":   latt, rots, u0, order = hex3, _cyclic(3, 3, (inv3,)), np.array([.31, .12, .2]), 6
    elif name == "P6/m":  latt, rots, u0, order = hex3, _cyclic(6, 3), np.array([.31, .12, 0.]), 12
    elif name == "m-3":
        latt, order = np.eye(3), 24
        cyc = [np.eye(3), np.array([[0., 0, 1], [1, 0, 0], [0, 1, 0]]), np.array([[0., 1, 0], [0, 0, 1], [1, 0, 0]])]
        rots = [np.dot(np.diag(sg), P) for P in cyc for sg in itertools.product((1., -1.), repeat=3)]
        u0 = np.array([.21, .34, 0.])
    else:
        raise KeyError(name)
    dim = latt.shape[0]
    crys = crystal.Crystal(latt, [[np.zeros(dim)], _orbit(latt, rots, u0)])
    # in-plane first and second neighbours of the mobile lattice (anything shorter comes along)
    d = sorted(set(round(float(np.linalg.norm(np.dot(latt[:2, :2], np.array(R)))), 6)
                   for R in itertools.product(range(-2, 3), repeat=2) if any(R)))
    return crys, 0, order, d[1] + 1e-4


CHIRAL2 = ["p4", "p3", "p6"]
CHIRAL3 = ["P4/m", "P4", "P3", "P-3", "P6/m", "m-3"]
