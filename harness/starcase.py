"""Shared by C24/C25/C26: exact lattice-coordinate view of a crystal's jump network and space group
(independent of onsager.crystalStars), brute-force reference enumerations in pure Python integers,
and printers of Coq literals for Model/Stars.v, Model/OmegaNet.v, Model/VecStars.v."""
import itertools
import numpy as np
from .lib import coq_Z, coq_list, coq_nat, coq_bool

TOL = 1e-8


class GeometryError(Exception):
    """the crystal's own data are not integer where they must be (outside the separated domain)"""


def iround(x, what):
    r = np.round(x)
    if np.abs(np.asarray(x) - r).max(initial=0.) > TOL:
        raise GeometryError("%s not integer: %r" % (what, np.asarray(x).tolist()))
    return tuple(int(v) for v in r)


def pad3(v):
    v = tuple(int(x) for x in v)
    return v + (0,) * (3 - len(v))


def latt_jumps(crys, chem, jn):
    """[(i, j, R, jumptype)] with R the integer cell difference, computed from dx independently"""
    out = []
    u = crys.basis[chem]
    for t, jl in enumerate(jn):
        for (i, j), dx in jl:
            R = iround(np.dot(crys.invlatt, dx) - u[j] + u[i], "jump cell vector")
            out.append((int(i), int(j), pad3(R), t))
    return out


def embed3(S):
    S = np.asarray(S)
    d = S.shape[0]
    M = np.eye(3, dtype=int)
    M[:d, :d] = S
    return tuple(tuple(int(x) for x in row) for row in M)


def ops_of(crys, chem):
    """[(S 3x3 int rows, perm tuple, shifts tuple of 3-vectors)] for every g in crys.G, computed from
    rot/trans/indexmap and the basis -- the action on pair states is (p i, p j, S R + sh[j] - sh[i])"""
    u = crys.basis[chem]
    out = []
    for g in crys.G:
        S = iround(np.asarray(g.rot, dtype=float).ravel(), "rotation in lattice coordinates")
        S = np.array(S, dtype=int).reshape(crys.dim, crys.dim)
        perm = tuple(int(x) for x in g.indexmap[chem])
        sh = []
        for i in range(len(u)):
            sh.append(pad3(iround(np.dot(S, u[i]) + g.trans - u[perm[i]], "site shift")))
        out.append((embed3(S), perm, tuple(sh)))
    return out


def mulmv(S, v):
    return tuple(sum(S[a][b] * v[b] for b in range(3)) for a in range(3))


def vadd(a, b): return tuple(x + y for x, y in zip(a, b))
def vsub(a, b): return tuple(x - y for x, y in zip(a, b))
def vneg(a): return tuple(-x for x in a)
Z3 = (0, 0, 0)


def gact(g, s):
    S, perm, sh = g
    i, j, R = s
    return (perm[i], perm[j], vadd(mulmv(S, R), vsub(sh[j], sh[i])))


def gvec(g, a, b, R):
    """image of a displacement from (site a) to (site b, R cells away)"""
    S, perm, sh = g
    return vadd(mulmv(S, R), vsub(sh[b], sh[a]))


def iszero(s): return s[0] == s[1] and s[2] == Z3


def ps_of(PS):
    return (int(PS.i), int(PS.j), pad3(PS.R))


def reach_bruteforce(jumps, N, nsites, origin):
    """non-zero end points of every chain of 1..N jumps (chains MAY pass through zero), plus origins"""
    js = [(i, j, R) for (i, j, R, t) in jumps]
    out = set()
    cur = set(js)
    for k in range(N):
        if k > 0:
            cur = set((s[0], q[1], vadd(s[2], q[2])) for s in cur for q in js if s[1] == q[0])
        out |= set(s for s in cur if not iszero(s))
    if origin:
        out |= set((i, i, Z3) for i in range(nsites))
    return out


def orbits(ops, states):
    """partition of a set of states into orbits; raises KeyError-free: images outside are reported"""
    left = set(states)
    res = []
    outside = []
    while left:
        s = min(left)
        orb = set(gact(g, s) for g in ops)
        # closure (ops is a group, but do not rely on it)
        frontier = list(orb)
        while frontier:
            x = frontier.pop()
            for g in ops:
                y = gact(g, x)
                if y not in orb:
                    orb.add(y); frontier.append(y)
        outside += [x for x in orb if x not in states]
        res.append(frozenset(orb))
        left -= orb
    return res, outside


# ---- Coq literals -------------------------------------------------------------------------------
def c_vec(v):
    return "(%s, %s, %s)" % tuple(("(%d)" % x if x < 0 else "%d" % x) for x in v)


def c_ps(s):
    return "mkPS %d %d %s" % (s[0], s[1], c_vec(s[2]))


def c_pslist(l):
    return "[" + "; ".join(c_ps(s) for s in l) + "]"


def c_op(g):
    S, perm, sh = g
    return "mkOp (%s, %s, %s) %s %s" % (c_vec(S[0]), c_vec(S[1]), c_vec(S[2]),
                                        "[" + "; ".join("%d%%nat" % p for p in perm) + "]",
                                        "[" + "; ".join(c_vec(v) for v in sh) + "]")


def c_natlist(l):
    return "[" + "; ".join("%d" % int(x) for x in l) + "]%nat"


def c_natlistlist(ll):
    return "[" + "; ".join("[" + "; ".join("%d" % int(x) for x in l) + "]" for l in ll) + "]%nat"


def c_optnat(x):
    return "None" if x is None else "(Some %d%%nat)" % int(x)


STARS_IMPORTS = """From Coq Require Import List ZArith.
From Onsager Require Import Model.Stars.
Import ListNotations.
Local Open Scope Z_scope.
"""


def parse_natlist(out):
    """parse the single `= [a; b; ...] : list nat` printed by Eval vm_compute"""
    import re
    from .lib import CoqFailure
    m = re.search(r"=\s*(\[.*?\])(?:%nat)?\s*:\s*list nat", out, flags=re.S)
    if not m: raise CoqFailure("no result in model output: " + out[-300:])
    return [int(x) for x in re.findall(r"\d+", m.group(1).replace("%nat", ""))]


def run_chunks(ck, name, defs, runs, imports, chunk=60, workers=4):
    """evaluate `runs` (Coq terms of type nat) in chunks, a few coqc processes in parallel;
    returns the list of result codes (raises CoqFailure)"""
    from concurrent.futures import ThreadPoolExecutor
    from .lib import CoqFailure, coq_make
    if not runs: return []
    coq_make()
    parts = [runs[a:a + chunk] for a in range(0, len(runs), chunk)]

    def one(k):
        body = defs + "Eval vm_compute in [%s]." % ";\n ".join(parts[k])
        out = ck.coq_cases("%s_%d" % (name, k), body, imports)
        got = parse_natlist(out)
        if len(got) != len(parts[k]):
            raise CoqFailure("could not parse model output: " + out[-300:])
        return got
    with ThreadPoolExecutor(max_workers=workers) as ex:
        res = list(ex.map(one, range(len(parts))))
    return [c for r in res for c in r]
