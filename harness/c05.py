"""C05  Faster transitions never reduce diffusivity (Rayleigh monotonicity).

Theorems (Properties/C05.v): if N' dominates N edge by edge (same topology, same displacements, larger
conductances) then n.L.n <= n.L'.n for every direction n (every ring, every network, every torus size); the
domination checker is sound; lowering one transition-state energy scales exactly that class's weights by ex(delta).
Tie: (a) exact - dyadic interstitial data before/after raising one class rate: Coq checks over Z that the second
network dominates the first and encloses both implementation results by the exact coefficients (whose order is then
a theorem); (b) direct evaluator on the implementation: each interstitial / omega0 / omega1 / omega2 transition-state
free energy lowered individually by a random amount; Delta D, Delta L0vv, Delta Lss must be positive semidefinite.
Vacancy-mediated runs use the exact torus Green function injected through the cache (monotonicity then holds
exactly for that torus by the theorem), also with the large-omega2 algorithm forced, and a few runs with the
real Green function at Brillouin-zone tolerance."""
META = dict(
    level="proof",
    text=("Theorem: edgewise domination of conductances implies n.L.n monotone in every direction, for all reversible "
          "networks over any ordered ring (Thomson principle). Tie: Coq domination + enclosure check over Z on the "
          "implementation's networks; direct evaluator lowering each TS energy on interstitial and vacancy-mediated "
          "calculators (exact torus Green function injected; large-omega2 branch forced)."),
    note=("Trusted: Coq kernel/vm_compute; harness network/torus-chain construction; float tolerance 1e-9 relative with the "
          "injected Green function, 2e-3 with the real one (Brillouin-zone accuracy)."),
    technique="Coq proof (rayleigh via Thomson principle) + domination certificate + TS-lowering evaluator",
)

import numpy as np
from fractions import Fraction
from . import gen, vm, netcase, tcommon
from .c01 import polar_projector
from .lib import CoqFailure, coq_list

DOM_IMPORTS = """From Coq Require Import List ZArith Bool Arith.
From Onsager Require Import Base.OrdRing Base.Instances Model.Net Model.Interstitial.
Import ListNotations.
Local Open Scope Z_scope.
Definition rundom (c : list Z * list Z * list (jump Zring)) : bool :=
  let '(wT, wT', jumps) := c in dominatedb (K:=Zring) (net_of (K:=Zring) wT jumps) (net_of (K:=Zring) wT' jumps).
"""


def run(ck):
    ck.rule = ("interstitial pool x each jump class lowered; vacancy-mediated calculators x each omega0/omega1/omega2 class "
               "lowered by a random amount (injected exact Green function, forced large_om2 variants, real GF subset); distinct = "
               "(crystal, data, class lowered); non-trivial = lowering amount > 0.05")
    ck.trusted += ["harness: which array entry is 'one transition state' (one symmetry class of jumps)"]
    ck.theorems()
    rng = ck.rng
    nr = ck.nprng(2)
    dom_terms, enc_terms, meta = [], [], []
    nint = 0
    for label, crys, chem, cut, sl, jn, d in tcommon.interstitial_pool(ck, rng, ck.n(12, 60)):
        pre, bE, preT, bET = tcommon.random_interstitial_data(nr, sl, jn, spread=rng.choice([1.0, 1.0, 4.0]))
        D = d.diffusivity(pre, bE, preT, bET)
        for k in range(len(jn)):
            # every other class: lowered far enough that the transition state lies BELOW its end-site energies (rate above the
            # attempt frequency - finite energies are all the property asks for)
            delta = float(nr.uniform(0.05, 3.0)) if k % 2 == 0 else float(bET[k] - bE.min() + nr.uniform(0.2, 1.5))
            bET2 = bET.copy(); bET2[k] -= delta
            try:
                D2 = d.diffusivity(pre, bE, preT, bET2)
            except Exception as e:
                ck.violation("Interstitial.diffusivity raised %r after lowering TS class %d by %.3g" % (e, k, delta),
                             {"crystal": repr(crys), "chem": chem, "cutoff": cut, "pre": pre.tolist(), "betaene": bE.tolist(), "preT": preT.tolist(),
                              "betaeneT": bET2.tolist()}, key="c05-raise"); continue
            nint += 1
            m = tcommon.min_eig(D2 - D); scale = np.abs(D2).max()
            ck.case(key=("int", label, round(cut, 5), k, delta, pre.round(10).tolist()), nontrivial=True, kind="interstitial",
                    sample={"crystal": label, "class": k, "delta": delta, "min_eig_dD": float(m), "scale": float(scale)} if nint <= 2 else None)
            # rounding: the uncorrelated term and the correlation correction are each of the size of the FASTEST jump's contribution
            # and may cancel (a fast jump inside a cage does not contribute to D): allow 1e-12 of that size besides 1e-9 of D
            rho_ = d.siteprob(pre, bE); rl_ = d.ratelist(pre, bE, preT, bET2)
            d0mag = sum(0.5 * rho_[i] * r * float(np.dot(dx, dx)) for jl, rr in zip(jn, rl_) for ((i, j), dx), r in zip(jl, rr))
            if m < -(1e-9 * scale + 1e-12 * d0mag):
                ck.violation("lowering interstitial TS class %d by %.3g decreased D: min eig of change %.3g (scale %.3g)" % (k, delta, m, scale),
                             {"crystal": repr(crys), "chem": chem, "cutoff": cut, "pre": pre.tolist(), "betaene": bE.tolist(), "preT": preT.tolist(),
                              "betaeneT": bET.tolist(), "class": k, "delta": delta, "D": D.tolist(), "D2": D2.tolist()}, key="c05-interstitial")
        # exact tier
        jumps = tcommon.unitcell_network(crys, jn)
        if jumps is not None and len(jumps) <= 60:
            preTd = [gen.dyadic(rng, 0.25, 4.0, 3) for _ in jn]; pred = [gen.dyadic(rng, 0.5, 2.0, 3) for _ in sl]
            k = rng.randrange(len(jn)); preTd2 = list(preTd); preTd2[k] = preTd[k] * rng.choice([1.5, 2, 3, 8])
            Z = sum(Fraction(pred[d.invmap[i]]) for i in range(d.N))
            ok = True; terms = []
            for pT in (preTd, preTd2):
                Dd = d.diffusivity(np.array(pred), np.zeros(len(sl)), np.array(pT), np.zeros(len(jn)))
                Dl = crys.invlatt @ Dd @ crys.invlatt.T
                term, info = netcase.integer_case(d.N, crys.dim, [Fraction(x) for x in pT], jumps, Dl, 1e-9 * np.abs(Dl).max(), 2 * Z)
                if term is None or info["bits"] > 3000: ok = False; break
                terms.append(term)
            if ok:
                from .lib import coq_Z, coq_nat
                s8 = 8
                jl = coq_list(["mkJump (K:=Zring) %s %s %s []" % (coq_nat(i), coq_nat(j), coq_nat(c)) for (i, j, c, dx) in jumps])
                dom_terms.append("(%s, %s, %s)" % (coq_list([coq_Z(int(x * s8)) for x in preTd]), coq_list([coq_Z(int(x * s8)) for x in preTd2]), jl))
                enc_terms += terms
                meta.append(dict(label=label, crys=repr(crys), cut=cut, pre=pred, preT=preTd, preT2=preTd2, cls=k))
    try:
        import re
        codes = netcase.run_cases(ck, "enc", enc_terms)
        doms = []
        for a in range(0, len(dom_terms), 40):
            out = ck.coq_cases("dom_%d" % a, "Eval vm_compute in (map rundom %s)." % coq_list(dom_terms[a:a + 40]), DOM_IMPORTS)
            doms += re.findall(r"true|false", out[out.index("="):].split(":")[0])
        if len(doms) != len(dom_terms): raise CoqFailure("could not parse domination output")
    except CoqFailure as e:
        ck.broken_proof = "correspondence (domination/enclosure): %s" % e
        codes, doms = [], []
    for n, m in enumerate(meta):
        if not doms: break
        ck.case(key=("exact", m["label"], m["cut"], m["pre"], m["preT"], m["preT2"]), nontrivial=True, kind="exact:domination",
                sample={"tier": "exact", "crystal": m["label"], "class_raised": m["cls"], "preT": m["preT"], "preT2": m["preT2"]})
        if doms[n] != "true":
            ck.violation("raising one class rate does not give an edgewise-dominating network (model premise)", m, key="c05-exact-domination")
        for c in codes[2 * n:2 * n + 2]:
            if c == 4: raise RuntimeError("harness certificate rejected")
            if c != 0: ck.violation("exact enclosure failed (code %d)" % c, m, key="c05-exact-%d" % c)
    ck.extra["traces_validated_against_impl"] = len(codes)
    # ---------------- vacancy-mediated -------------------------------------------------------------------
    # rect / ortho / tet / hcp have several inequivalent exchange (omega2) classes
    names = ["rect", "rect-polar2d", "square", "ortho", "honeycomb", "sq2w", "tria", "oblique1", "sc"] + ([] if ck.quick else ["oblique2d", "tria-disp", "polar", "mono", "hcp", "fcc", "bcc", "b2", "re3", "tet", "hcp-nonideal"])
    nvm = 0; nreal = 0
    for rep in range(ck.n(9, 20)):
        nm = names[rep % len(names)]
        crys, chem = gen.named(nm)
        net = gen.percolating_network(crys, chem, rng, maxshell=1, maxjumps=30)
        if net is None: continue
        cut, sl, jn = net
        d = vm.make(crys, chem, sl, jn, 1)
        M = vm.min_torus(d)
        if d.N * d.N * M ** crys.dim > (700 if ck.quick else 2600): continue
        th = vm.random_thermo(d, rng, interact=True, site_energies=True)
        # strong-exchange regime (the default then picks the large-omega2 algorithm); only for crystals outside the known
        # large-omega2 failure regimes of C08 (one Wyckoff set, no origin-state vector basis); inequivalent exchange
        # classes get rates spread over up to 1.5 decades
        plain = not vm.exchange_mixes_stars(d)    # outside the known large-omega2 regime of C08 (origin-state crystals are fine since b4a4433)
        strong = plain and (rep % 2 == 0 or rng.random() < 0.3)
        if strong:
            th["eneT2"] = th["eneT2"] - rng.uniform(18, 24)
            th["preT2"] = th["preT2"] * np.array([10.0 ** rng.uniform(0, 1.5) for _ in th["preT2"]])
        targets = [("eneT0", k) for k in range(len(th["eneT0"]))] + [("eneT1", k) for k in range(len(th["eneT1"]))] + \
                  [("eneT2", k) for k in range(len(th["eneT2"]))]
        rng.shuffle(targets)
        targets = targets[:ck.n(5, 12)]
        for large in ([None] if ck.quick and rep % 2 else [None, 1e-6]):   # None: the calculator's own default selection
            def L(thx, real=False):
                args = d.preene2betafree(1.0, **thx)
                kw = {} if large is None else {"large_om2": large}
                if real:
                    d.clearcache(); return [np.array(x) for x in d.Lij(*args, **kw)]
                # injected: replicate vm.inject but with the large_om2 argument
                d.clearcache(); d.Lij(*args, **kw)
                key = list(d.GFvalues.keys())[0]
                G, idx = vm.torus_GF(d, args[0], args[3], M)
                zero = (0,) * crys.dim
                d.GFvalues[key] = np.array([G[idx[(PS.i, zero)], idx[(PS.j, tuple(np.array(PS.R) % M))]]
                                            for PS in [d.GFstarset.states[s[0]] for s in d.GFstarset.stars]])
                out = [np.array(x) for x in d.Lij(*args, **kw)]
                d.clearcache(); return out
            base = L(th)
            for (arr, k) in targets:
                delta = rng.uniform(0.05, 2.5)
                th2 = {a: np.array(v, dtype=float) for a, v in th.items()}
                th2[arr][k] -= delta
                try:
                    new = L(th2)
                except Exception as e:
                    ck.violation("Lij raised %r" % e, {"crystal": nm, "thermo": {a: np.asarray(v).tolist() for a, v in th2.items()}}, key="c05-raise"); continue
                nvm += 1
                scale = np.abs(base[0]).max()
                m0 = tcommon.min_eig(new[0] - base[0]); ms = tcommon.min_eig(new[1] - base[1])
                ck.case(key=("vm", nm, arr, k, delta, large, [np.asarray(v).round(10).tolist() for v in th.values()]), nontrivial=True,
                        kind="vm:%s:%s%s" % (arr, "large_om2-forced" if large is not None else "default", "-strong" if strong else ""),
                        sample={"crystal": nm, "lowered": [arr, k], "delta": delta, "large_om2": large, "min_eig_dL0vv": float(m0), "min_eig_dLss": float(ms)} if nvm <= 3 else None)
                doc = {"crystal": nm, "cutoff": cut, "M": M, "large_om2": large, "lowered": [arr, k], "delta": delta,
                       "thermo": {a: np.asarray(v).tolist() for a, v in th.items()}, "base": [b.tolist() for b in base], "new": [b.tolist() for b in new]}
                if m0 < -1e-9 * scale:
                    ck.violation("lowering %s[%d] decreased L0vv (min eig %.3g, scale %.3g)" % (arr, k, m0, scale), doc, key="c05-L0vv")
                tol = 1e-9 if large is None and not strong else 1e-7
                if ms < -tol * max(scale, np.abs(new[1]).max()):
                    ck.violation("lowering %s[%d] decreased Lss (min eig %.3g, scale %.3g)" % (arr, k, ms, scale), doc, key="c05-Lss")
        # real Green function on a subset
        if nreal < ck.n(2, 6):
            nreal += 1
            large = None
            base = L(th, real=True)
            for (arr, k) in targets[:3]:
                delta = rng.uniform(0.3, 2.5)
                th2 = {a: np.array(v, dtype=float) for a, v in th.items()}; th2[arr][k] -= delta
                new = L(th2, real=True)
                scale = np.abs(base[0]).max()
                m0 = tcommon.min_eig(new[0] - base[0]); ms = tcommon.min_eig(new[1] - base[1])
                ck.case(key=("vm-real", nm, arr, k, delta), nontrivial=True, kind="vm-realGF")
                if m0 < -1e-9 * scale or ms < -2e-3 * scale:
                    ck.violation("real GF: lowering %s[%d] decreased L0vv/Lss (min eigs %.3g %.3g)" % (arr, k, m0, ms),
                                 {"crystal": nm, "lowered": [arr, k], "delta": delta, "thermo": {a: np.asarray(v).tolist() for a, v in th.items()},
                                  "base": [b.tolist() for b in base], "new": [b.tolist() for b in new]}, key="c05-realGF")
    # ---------------- exact tier on the pair chain: raising one omega1 / omega2 class rate gives an edgewise dominating chain --------
    from .c07 import exact_edges
    from .lib import coq_Z, coq_nat
    from . import exact as _exact
    chain_terms, chain_meta = [], []
    for nm in (["square", "rect"] if ck.quick else ["square", "rect", "tria", "honeycomb"]):
        crys, chem = gen.named(nm)
        cut, sl, jn = gen.percolating_network(crys, chem, rng, maxshell=1, maxjumps=30)
        d = vm.make(crys, chem, sl, jn, 1)
        th = vm.random_thermo(d, rng, interact=True, dyadic=True)
        arr = rng.choice(["preT1", "preT2"]); k = rng.randrange(len(th[arr]))
        th2 = {a: np.array(v, dtype=float) for a, v in th.items()}; th2[arr][k] *= rng.choice([1.5, 2.0, 4.0])
        M = vm.min_torus(d)
        e1 = exact_edges(d, th, M); e2 = exact_edges(d, th2, M)
        if e1 is None or e2 is None: continue
        sc = _exact.lcm_den([e[2] for e in e1 + e2])
        jl = coq_list(["mkJump (K:=Zring) %s %s %s []" % (coq_nat(e[0]), coq_nat(e[1]), coq_nat(n)) for n, e in enumerate(e1)]) if len(e1) < 4000 else None
        if jl is None or any((a[0], a[1]) != (b[0], b[1]) for a, b in zip(e1, e2)): continue
        chain_terms.append("(%s, %s, %s)" % (coq_list([coq_Z(int(e[2] * sc)) for e in e1]), coq_list([coq_Z(int(e[2] * sc)) for e in e2]), jl))
        chain_meta.append(dict(crystal=nm, raised=[arr, k], edges=len(e1), thermo={a: np.asarray(v).tolist() for a, v in th.items()}))
    try:
        import re
        res = []
        for a in range(0, len(chain_terms), 2):
            out = ck.coq_cases("chaindom_%d" % a, "Eval vm_compute in (map rundom %s)." % coq_list(chain_terms[a:a + 2]), DOM_IMPORTS)
            res += re.findall(r"true|false", out[out.index("="):].split(":")[0])
        if len(res) != len(chain_terms): raise CoqFailure("could not parse chain domination output")
    except CoqFailure as e:
        ck.broken_proof = "correspondence (pair-chain domination): %s" % e
        res = []
    for m, r in zip(chain_meta, res):
        ck.case(key=("exact-chain", m["crystal"], m["raised"], m["thermo"]), nontrivial=True, kind="exact:pair-chain-domination",
                sample={"tier": "exact-chain", "crystal": m["crystal"], "raised": m["raised"], "edges": m["edges"]})
        if r != "true":
            ck.violation("raising %s[%d] does not give an edgewise dominating pair chain (premise of C05_rayleigh for Lss)" % tuple(m["raised"]), m, key="c05-exact-chain-domination")
    ck.extra["interstitial_cases"] = nint
    ck.extra["vm_cases"] = nvm
