"""C27  Supercell symmetry and equivalence mapping are sound and complete.

Coq side (coq/Properties/C27.v): verified boolean checkers -- permutation-ness of an index map, consistency of
(rot, trans, indexmap) with the site geometry for the INFINITE periodic crystal, preservation of sublattice labels,
"(g, mapping) transforms supercell A into supercell B exactly" (occupation and ordering, the documented contract of
equivalencemap), "no operation of the group maps A's occupation onto B's", and soundness of the defect-count
pre-filter.  Every run evaluates the checkers inside Coq (vm_compute) on the implementation's own outputs:
Supercell.G and equivalencemap() on generated pairs (related by a random operation + random reordering; unrelated
with equal defect counts; unrelated with different counts; defect-free).  Python evaluates the same statements
directly (float geometry, brute force over sup.G for completeness, group closure).
The Supercell class is 3-D only: generators are restricted to 3-D crystals."""
META = dict(
    level="proof",
    text=("Coq-verified checkers (soundness theorems for all sizes): index maps are permutations, each operation maps every "
          "periodic image of site i onto an image of site indexmap[i] and keeps sublattice labels, a returned (g, mapping) "
          "transforms A into B exactly (occupation and per-species ordering), an answer None is justified by a verified scan "
          "of the whole group, and the defect-count pre-filter is sound. The checkers are run inside Coq on Supercell.G and on "
          "equivalencemap outputs for generated related/unrelated pairs; a Python evaluator repeats the checks in floats and "
          "brute-forces the group for completeness."),
    note=("The search loop of equivalencemap itself is not modelled; its result is certified per call (translation validation "
          "style) and its completeness per call by the verified scan of all of sup.G. Geometry is checked exactly in Coq only "
          "when positions are rational (scaled to integers), otherwise by the float evaluator (tolerance 1e-8). Completeness "
          "of sup.G itself (every space-group operation compatible with the superlattice is present) is evaluated only through "
          "group closure and the expected order |G| = compatible point operations x size. Defect-free pairs are part of every run "
          "(key c27-equivmap-no-defects, repaired in /repo 5a1d92c)."),
    technique="Coq-verified checkers run on implementation outputs + brute-force evaluator",
)

import itertools, warnings
from concurrent.futures import ThreadPoolExecutor
import numpy as np
from . import gen, sclib
from .lib import CoqFailure
from .sclib import z, zl, zll, sc_lit

IMPORTS = """From Coq Require Import List ZArith Bool.
From Onsager Require Import Model.Supercell Model.SupercellMap.
Import ListNotations.
Local Open Scope Z_scope.
"""
TOL = 1e-8


def state(sup):
    return [int(x) for x in sup.occ], [[int(i) for i in l] for l in sup.chemorder]


def lit(sup):
    return sc_lit(*state(sup))


def labels(sup):
    """sublattice label of every site: index of the Wyckoff set of its unit-cell atom"""
    wy = {}
    for k, ws in enumerate(sup.Wyckofflist):
        for i in ws: wy[i] = k
    return [wy[n % sup.N] for n in range(sup.N * sup.size)]


def int_geometry(sup):
    """positions scaled to integers (units 1/S of the supercell vectors), or None if not rational"""
    den = 1
    for x in (sup.pos * sup.size).flatten():
        f = gen.rationalize(x, maxden=1200, tol=1e-9)
        if f is None: return None
        den = np.lcm(den, f.denominator)
        if den > 5000: return None
    S = int(sup.size * den)
    P = np.round(sup.pos * S).astype(int)
    if np.abs(sup.pos * S - P).max() > 1e-7: return None
    return S, P.tolist()


def base_filled(sup):
    for ci in sup.atomindices:
        if ci[0] not in sup.interstitial: sup.fillperiodic(ci)
    return sup


def random_defects(rng, sup, ndef):
    """a copy of the defect-free supercell with ndef random point defects; returns (supercell, defect multiset)"""
    s = sup.copy()
    N = sup.N * sup.size
    crysN = sup.crys.Nchem
    kinds = []
    used = set()
    for _ in range(ndef):
        for _try in range(50):
            i = rng.randrange(N)
            if i in used: continue
            sitechem = sup.atomindices[i % sup.N][0]
            if sitechem in sup.interstitial:
                c = rng.choice([sitechem] + list(range(crysN, sup.Nchem)))
            else:
                opts = [-1] + list(range(crysN, sup.Nchem)) + \
                       [c for c in range(crysN) if c != sitechem and c not in sup.interstitial]
                c = rng.choice(opts)
            used.add(i)
            s.setocc(i, c)
            kinds.append((labels_cache(sup)[i], c))
            break
    return s, sorted(kinds)


_lab = {}


def labels_cache(sup):
    k = id(sup.pos)
    if k not in _lab: _lab[k] = labels(sup)
    return _lab[k]


def same_kind_defects(rng, sup, kinds):
    """another occupation with the same multiset of (sublattice, species) defects on other random sites"""
    s = sup.copy()
    lab = labels_cache(sup)
    used = set()
    for (l, c) in kinds:
        cands = [i for i in range(sup.N * sup.size) if lab[i] == l and i not in used]
        if not cands: return None
        i = rng.choice(cands)
        used.add(i)
        s.setocc(i, c)
    return s


def maps_occ(idx, A, B):
    g = np.empty_like(A.occ)
    g[np.array(idx)] = A.occ
    return bool(np.all(g == B.occ))


def check_result(A, B, g, mapping, use_eq=True):
    """direct evaluation of the contract of equivalencemap; -> None or message"""
    if not any(g is h for h in A.G): return "returned operation is not an element of the supercell group"
    idx = g.indexmap[0]
    if not maps_occ(idx, A, B): return "operation does not carry the occupation of self onto other"
    if len(mapping) != len(A.chemorder): return "mapping has %d lists for %d species" % (len(mapping), len(A.chemorder))
    for c, (ca, cb, m) in enumerate(zip(A.chemorder, B.chemorder, mapping)):
        if len(m) != len(cb) or len(ca) != len(cb): return "mapping length mismatch for species %d" % c
        for k, j in enumerate(m):
            if not (0 <= j < len(ca)) or idx[ca[j]] != cb[k]:
                return "ordering: other.chemorder[%d][%d] != g(self.chemorder[%d][mapping[%d][%d]])" % (c, k, c, c, k)
    try:
        T = (g * A).reorder(mapping)
        if state(T) != state(B): return "(g*self).reorder(mapping) does not have the occupation and ordering of other"
        if use_eq and not (T == B): return "(g*self).reorder(mapping) != other"
    except Exception as e:
        return "(g*self).reorder(mapping) raised %r" % (e,)
    return None


def group_evaluator(sup):
    """float evaluation of 'operations are permutations consistent with the geometry' + group axioms; -> list of messages"""
    bad = []
    N = sup.N * sup.size
    lab = labels_cache(sup)
    maps = {}
    for g in sup.G:
        idx = g.indexmap[0]
        if sorted(idx) != list(range(N)): bad.append(("perm", "indexmap is not a permutation")); continue
        d = np.dot(sup.pos, g.rot.T) + g.trans - sup.pos[list(idx)]
        d -= np.round(d)
        if np.abs(d).max() > TOL: bad.append(("geometry", "rot.pos[i]+trans is not pos[indexmap[i]] (max %.2e)" % np.abs(d).max()))
        if any(lab[idx[i]] != lab[i] for i in range(N)): bad.append(("labels", "operation mixes sublattices"))
        if np.abs(np.dot(sup.lattice, g.rot) - np.dot(g.cartrot, sup.lattice)).max() > TOL:
            bad.append(("cartrot", "rot and cartrot disagree"))
        if np.abs(np.dot(g.cartrot, g.cartrot.T) - np.eye(3)).max() > TOL: bad.append(("cartrot", "cartrot not orthogonal"))
        key = (tuple(g.rot.flatten().tolist()), tuple(np.round(g.trans * 1e6).astype(int) % 1000000))
        if key in maps: bad.append(("duplicate", "operation listed twice"))
        maps[key] = idx
    idxset = set(maps.values())
    if tuple(range(N)) not in idxset: bad.append(("identity", "identity missing"))
    return bad, idxset


def closure_evaluator(rng, idxs, n):
    """products and inverses of random pairs stay in the set of site maps"""
    L = sorted(idxs)
    S = set(L)
    bad = 0
    for _ in range(n):
        a, b = rng.choice(L), rng.choice(L)
        if tuple(a[b[i]] for i in range(len(a))) not in S: bad += 1
        inv = [0] * len(a)
        for i, ai in enumerate(a): inv[ai] = i
        if tuple(inv) not in S: bad += 1
    return bad


def expected_order(sup):
    """|G| = (# crystal point operations whose rotation keeps the superlattice) x size"""
    n = 0
    for g0 in sup.crys.G:
        R = np.dot(sup.invsuper, np.dot(g0.rot, sup.superlatt))
        if np.all(R % sup.size == 0): n += 1
    return n * sup.size


class CellCases:
    """collects the Coq work for one supercell"""

    def __init__(self, sup, label):
        self.sup, self.label = sup, label
        self.N = sup.N * sup.size
        self.defs, self.perm, self.geom, self.labs, self.equiv, self.nomap = [], [], [], [], [], []
        self.meta = {"perm": [], "geom": [], "labs": [], "equiv": [], "nomap": []}

    def body(self, Gidx, lab, geo):
        b = ["Definition Gall : list (list Z) := %s." % zll(Gidx), "Definition lab : list Z := %s." % zl(lab)]
        if geo: b.append("Definition P : list (list Z) := %s." % zll(geo[1]))
        b += self.defs
        b.append("Eval vm_compute in (falses (map (permb %d) Gall) 0)." % self.N)
        b.append("Eval vm_compute in (falses (map (labelsb lab) Gall) 0).")
        b.append("Eval vm_compute in (falses [%s] 0)." % "; ".join(self.geom))
        b.append("Eval vm_compute in (falses [%s] 0)." % "; ".join(self.equiv))
        b.append("Eval vm_compute in (falses [%s] 0)." % "; ".join(self.nomap))
        return "\n".join(b) + "\n"


def run(ck):
    ck.rule = ("3-D crystal pool (named + random systems, 1-2 species, 1-3 atoms) x random supercell matrices (|det| <= %d, "
               "symmetric and symmetry-breaking) x interstitial/solute settings (always incl. two solutes sharing a name: undefined, equal, "
               "named like a host species) x random occupations (1-3 point defects); per "
               "supercell: every operation of G through the Coq checkers, and pairs related by a random operation + random "
               "reordering / unrelated with equal defect counts / unrelated with different counts / defect-free; plus histories on ONE "
               "object (defectindices/KrogerVink/str/equivalencemap interleaved with sup *= g, setocc, fillperiodic, reorder, copy) compared "
               "after every step with a fresh supercell of the same content; an evaluation = "
               "one operation or one pair; distinct = distinct (cell, operation) or (cell, occupations); non-trivial = group of "
               "order > 1 and at least one defect" % ck.n(4, 8))
    ck.trusted += ["harness/c27.py, sclib.py: reading occ/chemorder/indexmap/rot/trans off the objects, scaling rational positions "
                   "to integers, Coq literal printing", "float evaluator tolerance 1e-8 on direct coordinates"]
    ck.theorems()
    rng = ck.rng
    from onsager import supercell, crystal
    ncells = ck.n(12, 70)
    npairs = ck.n(5, 10)
    found = {}

    def violation(key, msg, replay):
        f = found.setdefault(key, dict(msg=msg, replay=replay, count=0))
        f["count"] += 1

    jobs = []
    skipped = {"irrational-geometry": 0, "too-large": 0, "construct-failed": 0}
    stats = {"operations_checked": 0, "pairs_related": 0, "pairs_unrelated_same_counts": 0, "pairs_different_counts": 0,
             "pairs_defect_free": 0, "pairs_respelled": 0, "pairs_same_name": 0, "history_steps": 0, "answers_none": 0, "answers_found": 0, "unrelated_but_equivalent": 0}
    cells = 0
    # Crystal pairs with bit-identical lattice, the same number of atoms per chemistry and the same supercell matrix but DIFFERENT
    # positions, built one after the other in this process (first pair: symmetric crystal first; second pair: displaced one first):
    # every supercell must get the operations of ITS crystal (geometry check + expected group order, as for every other cell)
    def A3(*x): return np.array(x, dtype=float)
    def two(latt, z, names): return crystal.Crystal(latt, [[A3(0, 0, 0)], [A3(.5, .5, z)]], chemistry=names)
    m221 = np.diag([2, 2, 1])
    pairs = [("pair1:B2", two(np.eye(3), .5, ["A", "B"]), 0, m221), ("pair1:displaced-B2", two(np.eye(3), .3, ["A", "B"]), 0, m221),
             ("pair2:displaced-tetragonal", two(np.diag([1., 1., 1.2]), .3, ["A", "B"]), 0, m221),
             ("pair2:tetragonal-B2", two(np.diag([1., 1., 1.2]), .5, ["A", "B"]), 0, m221)]
    nforced = len(pairs)
    ncells += nforced
    source = itertools.chain(pairs, ((l_, c_, ch_, None) for l_, c_, ch_ in gen.pool(rng, 4 * ncells, dims=(3,), random_frac=0.5, maxatoms=2)))
    for label, crys, chem, forced_sl in source:
        if cells >= ncells: break
        sp = cells - nforced          # index among the generated cells (negative: one of the fixed crystal pairs)
        if not all(isinstance(nm, str) for nm in crys.chemistry):   # addbasis() default names (see C28 finding) - rename
            crys = crystal.Crystal(crys.lattice, crys.basis, chemistry=[str(x) for x in crys.chemistry])
        if sp == 3:
            # always: FCC host with octahedral (species 1) and tetrahedral (species 2) interstitial sublattices
            f0 = crystal.Crystal.FCC(1., chemistry="M")
            f1 = f0.addbasis(f0.Wyckoffpos(np.array([.5, .5, .5])), chemistry=["O"])
            crys = f1.addbasis(f1.Wyckoffpos(np.array([.25, .25, .25])), chemistry=["T"])
            label, chem = "fcc+oct+tet", 1
        sl = forced_sl.copy() if forced_sl is not None else sclib.random_superlatt(rng, maxdet=ck.n(4, 8) if sp != 3 else 2)
        size = abs(int(round(np.linalg.det(sl))))
        if crys.N * size > ck.n(24, 40) or len(crys.G) * size > ck.n(400, 800):
            skipped["too-large"] += 1; continue
        inter = tuple(c for c in range(crys.Nchem) if crys.Nchem > 1 and c == chem and rng.random() < 0.6)
        if sp == 3: inter = (1, 2)
        ns = rng.choice([0, 1, 1, 2])
        # the first cells of every run have two solutes that SHARE a name: undefined (both ''), given equal names, or one named
        # like a host species -- the name-keyed defect sets then cannot tell the species apart, the occupation arrays can
        naming = ["undefined", "equal", "like-host"][sp] if 0 <= sp < 3 else (rng.choice(["undefined", "distinct", "equal"]) if ns == 2 else None)
        if 0 <= sp < 3: ns = 2
        try:
            with warnings.catch_warnings():
                warnings.simplefilter("ignore")
                sup = supercell.Supercell(crys, sl, interstitial=inter, Nsolute=ns)
                if naming == "equal": sup.definesolute(crys.Nchem, "X"); sup.definesolute(crys.Nchem + 1, "X")
                elif naming == "like-host": sup.definesolute(crys.Nchem, crys.chemistry[0]); sup.definesolute(crys.Nchem + 1, "Y")
                elif naming == "distinct": sup.definesolute(crys.Nchem, "X"); sup.definesolute(crys.Nchem + 1, "Y")
                sup = base_filled(sup)
        except Exception as e:
            skipped["construct-failed"] += 1; continue
        cells += 1
        N = sup.N * sup.size
        spec = dict(label=label, lattice=crys.lattice.tolist(), basis=[[u.tolist() for u in b] for b in crys.basis],
                    superlatt=sl.tolist(), interstitial=list(inter), Nsolute=ns, chemistry=list(sup.chemistry))
        kind = "%s-N%d-G%d%s%s%s" % (label.split("-")[0], N, len(sup.G), "-int" if inter else "", "-sol%d" % ns if ns else "",
                                     "-names:" + naming if naming else "")
        # ---- A. the group -------------------------------------------------------------------
        bad, idxset = group_evaluator(sup)
        for k_, b in bad: violation("c27-group-" + k_, "%s superlatt %s: %s" % (label, sl.tolist(), b), dict(cfg=spec, what=b))
        nb = closure_evaluator(rng, idxset, ck.n(40, 200))
        if nb: violation("c27-group-closure", "%s: site maps of G not closed under product/inverse (%d failures)" % (label, nb), dict(cfg=spec))
        if len(sup.G) != expected_order(sup):
            violation("c27-group-order", "%s: |G| = %d, expected %d" % (label, len(sup.G), expected_order(sup)), dict(cfg=spec))
        G = sclib.g_list(sup)
        Gidx = sorted(idxset)
        lab = labels_cache(sup)
        geo = int_geometry(sup)
        if geo is None: skipped["irrational-geometry"] += 1
        cc = CellCases(sup, label)
        gsample = G if len(G) <= ck.n(64, 200) else rng.sample(G, ck.n(64, 200))
        for g in gsample:
            stats["operations_checked"] += 1
            ck.case(key=(cells, "op", g.indexmap[0], g.rot.flatten().tolist()), nontrivial=len(G) > 1, kind="op:" + kind,
                    sample={"cell": label, "superlatt": sl.tolist(), "rot": g.rot.tolist(), "trans": g.trans.tolist(),
                            "indexmap": list(g.indexmap[0])} if stats["operations_checked"] in (2, 700) else None)
            if geo:
                S = geo[0]
                T = g.trans * S
                if np.abs(T - np.round(T)).max() > 1e-7: continue
                cc.geom.append("geomb 3 %d %s %s P %s" % (S, zll(g.rot.tolist()), zl(np.round(T).astype(int).tolist()), zl(g.indexmap[0])))
                cc.meta["geom"].append(g)
        # ---- B. equivalence maps ------------------------------------------------------------
        nA = 0

        def add_pair(A, B, pairkind):
            nonlocal nA
            try:
                g2, m2 = A.equivalencemap(B)
            except Exception as e:
                key = "c27-equivmap-no-defects" if (pairkind == "defect-free" and isinstance(e, ValueError)) else "c27-equivmap-exception"
                violation(key, "%s: equivalencemap raised %r on a %s pair" % (label, e, pairkind),
                          dict(cfg=spec, self_state=state(A), other_state=state(B), pair=pairkind, exception=repr(e)))
                return
            brute = [idx for idx in Gidx if maps_occ(idx, A, B)]
            ck.case(key=(cells, state(A), state(B)), nontrivial=len(G) > 1 and pairkind != "defect-free", kind=pairkind + ":" + kind,
                    sample={"cell": label, "superlatt": sl.tolist(), "pair": pairkind, "self": state(A), "other": state(B),
                            "answer": None if g2 is None else [list(g2.indexmap[0]), m2]} if nA % 37 == 1 else None)
            nA += 1
            rep = dict(cfg=spec, self_state=state(A), other_state=state(B), pair=pairkind,
                       answer=None if g2 is None else dict(indexmap=list(g2.indexmap[0]), rot=g2.rot.tolist(), trans=g2.trans.tolist(), mapping=m2))
            a, b = "a%d" % nA, "b%d" % nA
            cc.defs.append("Definition %s : sc := %s." % (a, lit(A)))
            cc.defs.append("Definition %s : sc := %s." % (b, lit(B)))
            if g2 is None:
                stats["answers_none"] += 1
                if m2 is not None: violation("c27-equivmap-none-shape", "%s: returned (None, %r)" % (label, m2), rep)
                if brute:
                    violation("c27-equivmap-incomplete", "%s: equivalencemap found nothing although the operation with indexmap %s maps "
                              "the occupations (%s pair)" % (label, list(brute[0]), pairkind), rep)
                else:
                    cc.nomap.append("nomapb Gall %s %s" % (a, b)); cc.meta["nomap"].append(rep)
            else:
                stats["answers_found"] += 1
                msg = check_result(A, B, g2, m2, use_eq=not pairkind.endswith("respelled"))
                if msg: violation("c27-equivmap-unsound", "%s: %s (%s pair)" % (label, msg, pairkind), rep)
                if not brute: violation("c27-equivmap-unsound", "%s: an operation was returned but none maps the occupations" % label, rep)
                cc.equiv.append("equivb %s %s %s %s && permb %d %s && invb %d %d %s" %
                                (zl(g2.indexmap[0]), zll(m2), a, b, N, zl(g2.indexmap[0]), N, sup.Nchem, a))
                cc.meta["equiv"].append(rep)
            return brute

        # a second supercell object built SEPARATELY with the same interstitial set spelled differently (list instead of tuple,
        # reversed order): same sites, same operations, same defect names -- equivalence must not depend on the spelling
        sup_alt = None
        if inter:
            with warnings.catch_warnings():
                warnings.simplefilter("ignore")
                sup_alt = supercell.Supercell(crys, sl.copy(), interstitial=list(reversed(inter)), Nsolute=ns)
            sup_alt.chemistry = list(sup.chemistry)
            if np.abs(sup_alt.pos - sup.pos).max() > 1e-12:
                violation("c27-respelled-sites", "%s: supercells built with interstitial=%r and %r have different sites" % (label, inter, list(reversed(inter))), dict(cfg=spec))
                sup_alt = None

        def respell(B):
            T = sup_alt.copy()
            T.occ = B.occ.copy(); T.chemorder = [list(l) for l in B.chemorder]
            return T

        stats["pairs_defect_free"] += 1
        add_pair(sup.copy(), sup.copy(), "defect-free")
        for _ in range(npairs):
            A, kinds = random_defects(rng, sup, rng.choice([1, 1, 2, 2, 3]))
            if not kinds: continue
            g = rng.choice(G)
            B = g * A
            B.reorder([rng.sample(range(len(l)), len(l)) for l in B.chemorder])
            stats["pairs_related"] += 1
            add_pair(A, B, "related")
            if sup_alt is not None:
                stats["pairs_respelled"] += 1
                add_pair(A, respell(B), "related-respelled")
                add_pair(respell(A), B, "related-respelled")
            B2 = same_kind_defects(rng, sup, kinds)
            if B2 is not None:
                stats["pairs_unrelated_same_counts"] += 1
                br = add_pair(A, B2, "same-counts")
                if br: stats["unrelated_but_equivalent"] += 1
            B3, k3 = random_defects(rng, sup, len(kinds) + 1)
            stats["pairs_different_counts"] += 1
            add_pair(A, B3, "different-counts")
        # ---- B2. two solutes that share a name: pairs related by an operation, the same with the two species swapped, unrelated
        if ns >= 2:
            c1, c2 = crys.Nchem, crys.Nchem + 1
            hostsites = [i for i in range(N) if sup.atomindices[i % sup.N][0] not in sup.interstitial]
            for _ in range(ck.n(4, 8)):
                if len(hostsites) < 2: break
                i, j = rng.sample(hostsites, 2)
                A = sup.copy(); A.setocc(i, c1); A.setocc(j, c2)
                if len(hostsites) > 2 and rng.random() < 0.5:
                    A.setocc(rng.choice([k for k in hostsites if k not in (i, j)]), -1)
                g = rng.choice(G)
                B = g * A
                B.reorder([rng.sample(range(len(l)), len(l)) for l in B.chemorder])
                stats["pairs_same_name"] += 1
                add_pair(A, B, "same-name-related")
                Bs = B.copy()                                   # the same sites, the two same-named species exchanged
                gi, gj = g.indexmap[0][i], g.indexmap[0][j]
                Bs.setocc(gi, -1); Bs.setocc(gj, c1); Bs.setocc(gi, c2)
                stats["pairs_same_name"] += 1
                add_pair(A, Bs, "same-name-swapped")
                i2, j2 = rng.sample(hostsites, 2)
                C = sup.copy(); C.setocc(i2, c2); C.setocc(j2, c1)
                stats["pairs_same_name"] += 1
                add_pair(A, C, "same-name-other-sites")
        # ---- C. histories on ONE object: derived views (defectindices, KrogerVink, str, equivalencemap) interleaved with
        #         in-place operations; after every step everything is compared with a FRESH supercell of the same content
        for _h in range(ck.n(1, 3)):
            H, kinds = random_defects(rng, sup, rng.choice([1, 2, 2, 3]))
            if not kinds: continue
            target = rng.choice(G) * H
            target.reorder([rng.sample(range(len(l)), len(l)) for l in target.chemorder])
            hist = []
            for step in range(ck.n(8, 16)):
                r = rng.random()
                if r < 0.30:
                    what = rng.choice(["defectindices", "KrogerVink", "str", "equivalencemap"])
                    hist.append([what])
                    if what == "defectindices": H.defectindices()
                    elif what == "KrogerVink": H.KrogerVink()
                    elif what == "str": str(H)
                    else: H.equivalencemap(target)
                elif r < 0.65:
                    occupied = [i for i in range(N) if H.occ[i] != sup.occ[i]]
                    movers = [g for g in G if any(g.indexmap[0][i] != i for i in occupied)] or G
                    g = rng.choice(movers)
                    hist.append(["imul", list(g.indexmap[0])])
                    H *= g
                elif r < 0.78:
                    i = rng.randrange(N)
                    sitechem = sup.atomindices[i % sup.N][0]
                    c = rng.choice([sitechem, -1] + list(range(sup.crys.Nchem, sup.Nchem)))
                    if sitechem in sup.interstitial and c == sitechem and rng.random() < 0.5: c = -1
                    hist.append(["setocc", i, c]); H.setocc(i, c)
                elif r < 0.83:
                    ci = rng.choice([ci for ci in sup.atomindices if ci[0] not in sup.interstitial])
                    hist.append(["fillperiodic", list(ci), False]); H.fillperiodic(ci, Wyckoff=False)
                elif r < 0.93:
                    mp = [rng.sample(range(len(l)), len(l)) for l in H.chemorder]
                    hist.append(["reorder", mp]); H.reorder(mp)
                else:
                    hist.append(["copy"]); H = H.copy()
                # a fresh object with the same occupation and ordering, built through the public editing interface
                F = supercell.Supercell(crys, sl, interstitial=inter, Nsolute=ns, NOSYM=True)
                F.G = sup.G
                F.chemistry = list(sup.chemistry)
                for c_, l in enumerate(H.chemorder):
                    for i in l: F.setocc(i, c_)
                stats["history_steps"] += 1
                rep = dict(cfg=spec, start=None, history=[list(h) for h in hist], state=state(H), target=state(target))
                if state(F) != state(H):
                    # setocc on an empty supercell in the order of H's chemorder must reproduce H: otherwise the implementation's
                    # bookkeeping (C28) is off -- report with the history instead of stopping
                    violation("c27-history-rebuild", "%s: after %s a fresh supercell filled by setocc in the listed order is %s, the history object is %s" %
                              (label, [h[0] for h in hist], state(F), state(H)), rep)
                    break
                try:
                    dH, dF = H.defectindices(), F.defectindices()
                    kH, kF = H.KrogerVink(), F.KrogerVink()
                except Exception as e:
                    violation("c27-history-exception", "%s: derived view raised %r after %s" % (label, e, hist[-1]), rep); break
                if dH != dF:
                    violation("c27-history-defectindices", "%s: after %s defectindices() = %s, a fresh supercell with the same occupation gives %s" %
                              (label, [h[0] for h in hist], {k: sorted(v) for k, v in dH.items()}, {k: sorted(v) for k, v in dF.items()}), rep)
                if kH != kF:
                    violation("c27-history-krogervink", "%s: after %s KrogerVink() = %r, fresh: %r" % (label, [h[0] for h in hist], kH, kF), rep)
                try:
                    aH, aF = H.equivalencemap(target), F.equivalencemap(target)
                    if (aH[0] is None) != (aF[0] is None):
                        violation("c27-history-equivmap", "%s: after %s equivalencemap(other) %s, on a fresh supercell with the same content it %s" %
                                  (label, [h[0] for h in hist], "finds nothing" if aH[0] is None else "finds an operation",
                                   "finds nothing" if aF[0] is None else "finds an operation"), rep)
                except Exception as e:
                    if not np.array_equal(H.occ, sup.occ) or not isinstance(e, ValueError):
                        violation("c27-history-exception", "%s: equivalencemap raised %r after %s" % (label, e, hist[-1]), rep)
                    continue
                add_pair(H, target, "history")      # soundness / completeness on the live object, also through the Coq checkers
        jobs.append((cc, Gidx, lab, geo, spec))

    if stats["pairs_respelled"] == 0:
        violation("c27-generator-precondition", "no supercell with an interstitial sublattice could be built (fixed fcc+oct+tet cell included)", dict(cells=cells))
    # ---- run the verified checkers on everything collected ---------------------------------------
    def work(job):
        cc, Gidx, lab, geo, spec = job
        out = ck.coq_cases("cell%d" % id(cc), cc.body(Gidx, lab, geo), IMPORTS)
        ev = sclib.parse_evals(out)
        if len(ev) != 5: raise CoqFailure("unexpected checker output: " + out[:300])
        return [sclib.nats_of(e) for e in ev]

    try:
        with ThreadPoolExecutor(max_workers=8) as ex:
            results = list(ex.map(work, jobs))
        for (cc, Gidx, lab, geo, spec), (bperm, blab, bgeom, bequiv, bnomap) in zip(jobs, results):
            for k in bperm: violation("c27-checker-perm", "%s: Coq permutation checker rejects indexmap %s" % (cc.label, list(Gidx[k])), dict(cfg=spec, indexmap=list(Gidx[k])))
            for k in blab: violation("c27-checker-labels", "%s: Coq label checker rejects indexmap %s" % (cc.label, list(Gidx[k])), dict(cfg=spec, indexmap=list(Gidx[k])))
            for k in bgeom:
                g = cc.meta["geom"][k]
                violation("c27-checker-geometry", "%s: Coq geometry checker rejects operation rot=%s trans=%s" % (cc.label, g.rot.tolist(), g.trans.tolist()),
                          dict(cfg=spec, rot=g.rot.tolist(), trans=g.trans.tolist(), indexmap=list(g.indexmap[0])))
            for k in bequiv: violation("c27-checker-equiv", "%s: Coq checker rejects the returned (g, mapping)" % cc.label, cc.meta["equiv"][k])
            for k in bnomap: violation("c27-checker-none", "%s: Coq scan of the group finds an operation although equivalencemap returned None" % cc.label, cc.meta["nomap"][k])
        ck.extra["checker_runs"] = dict(cells=len(jobs), geometry=sum(len(j[0].geom) for j in jobs), equiv=sum(len(j[0].equiv) for j in jobs),
                                        none_scans=sum(len(j[0].nomap) for j in jobs), perm=sum(len(j[1]) for j in jobs))
    except CoqFailure as e:
        ck.broken_proof = "correspondence Model/SupercellMap checkers: %s" % e
        ck.note("CORRESPONDENCE FAILED: " + str(e)[:1500])
    ck.extra["skipped"] = skipped
    ck.extra.update(stats)
    for key in sorted(found):
        f = found[key]
        f["replay"]["occurrences_in_this_run"] = f["count"]
        ck.violation("%s  (%d occurrences)" % (f["msg"], f["count"]), f["replay"], key=key)
    if hasattr(ck, "broken_proof") and ck.violations:
        ck.violation("proof obligation / correspondence no longer checks: " + ck.broken_proof.split("\n")[0],
                     {"obligation": ck.broken_proof}, key="c27-broken-obligation", no_input=True)


def replay(ck, path):
    """re-run a recorded pair / operation on the implementation"""
    import json
    from onsager import supercell, crystal
    doc = json.load(open(path))
    r = doc["replay"]
    c = r["cfg"]
    crys = crystal.Crystal(np.array(c["lattice"]), [[np.array(u) for u in b] for b in c["basis"]])
    with warnings.catch_warnings():
        warnings.simplefilter("ignore")
        sup = supercell.Supercell(crys, np.array(c["superlatt"], dtype=int), interstitial=tuple(c["interstitial"]), Nsolute=c["Nsolute"])
    if "chemistry" in c: sup.chemistry = list(c["chemistry"])
    bad = 0
    if "self_state" in r:
        A, B = sup.copy(), sup.copy()
        for S, st in ((A, r["self_state"]), (B, r["other_state"])):
            S.occ = np.array(st[0], dtype=int); S.chemorder = [list(l) for l in st[1]]
        Gidx = sorted(set(tuple(g.indexmap[0]) for g in sup.G))
        brute = [idx for idx in Gidx if maps_occ(idx, A, B)]
        try:
            g, m = A.equivalencemap(B)
            print("equivalencemap ->", None if g is None else (list(g.indexmap[0]), m), "; operations mapping the occupations:", len(brute))
            if g is None and brute: bad = 1
            if g is not None:
                msg = check_result(A, B, g, m)
                if msg: print("unsound:", msg); bad = 1
        except Exception as e:
            print("equivalencemap raised %r; operations mapping the occupations: %d" % (e, len(brute))); bad = 1
    else:
        msgs, _ = group_evaluator(sup)
        for k_, m in msgs: print("group [%s]:" % k_, m)
        bad = 1 if msgs else 0
    print("VIOLATION reproduced" if bad else "not reproduced")
    return bad
