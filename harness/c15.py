"""C15  Tag input maps exactly onto symmetry classes.

Model/Tags.v: tags2preene (first member in class order wins, LIMB back-fill only where no tag was given) and its
VERBOSE report; theorems for all tag sets / user dictionaries (Properties/C15.v): the report is exactly (classes
with no supplied member, the supplied members of every class hit more than once, unknown tags); one member tag per
class reproduces the data; a tag names the class it is a member of.
Tie: (a) correspondence inside Coq -- tags of real VacancyMediated calculators (as integer ids) with random class
subsets, random member tags, injected duplicates and bogus tags: parameter arrays and the three report lists of
the implementation vs the model; (b) direct evaluator -- all generated tags unique, tagdict/tagdicttype = class
membership, every tag string PARSED back to positions names a state / transition of exactly its class
(vacancy, solute, complexes, omega0/1/2; Interstitial states and transitions)."""
META = dict(
    level="proof",
    text=("Gallina model of tags2preene incl. the verbose report; theorems (all tag sets, all user dictionaries, arbitrary LIMB "
          "function): report = (classes with 0 supplied members, supplied members of classes hit >= 2 times, unknown tags); any "
          "one member tag per class reproduces the data; first member in class order wins; tag -> class is membership. "
          "Correspondence in Coq on VacancyMediated calculators with random subsets / member tags / duplicates / bogus tags; "
          "evaluator: uniqueness of all generated tags, tagdict = membership, tag strings parsed back to the states and jumps of "
          "their class for VacancyMediated and Interstitial calculators."),
    note=("The hypothesis `disjoint` (a tag is a member of at most one class) is what generatetags enforces by raising ValueError; "
          "checked on every calculator. That classes ARE the symmetry classes (stars, jump networks) belongs to C24/C26; here the "
          "link tag string -> state -> class index is checked by parsing. Format strings (+06.3f) are not modelled: tags are "
          "opaque values with equality. Observation: when several member tags of one class are supplied the first in CLASS "
          "order wins, not the first supplied."),
    technique="Coq proof (list induction, bucket-loop lemma shared with C13) + in-Coq correspondence + tag parsing evaluator",
)

import re
import numpy as np
from .lib import CoqFailure, coq_list, coq_nat
from .pscommon import Once, run_nat_cases, encode
from . import gen

TYPES = ("vacancy", "solute", "solute-vacancy", "omega0", "omega1", "omega2")

IMPORTS = """From Coq Require Import List Arith Bool.
From Onsager Require Import Model.Codec Model.Tags Proofs.Tags_proofs.
Import ListNotations.
Fixpoint leqb {A} (e : A -> A -> bool) (a b : list A) : bool :=
  match a, b with [], [] => true | x :: a', y :: b' => e x y && leqb e a' b' | _, _ => false end.
Definition LL := list (list nat).
Definition limb (n1 n2 : nat) (_ _ _ _ : list nat) : list nat * list nat :=
  (map (fun i => 1000 + i) (seq 0 n1), map (fun i => 2000 + i) (seq 0 n2)).
(* classes per type, user dictionary (tag id, data id), implementation: six parameter arrays (data ids), missing classes
   (flattened in type order), duplicate lists, bad tags *)
Definition run_tags (c : LL * LL * LL * LL * LL * LL * list (nat * nat) * list (list nat) * LL * LL * list nat) : nat :=
  let '(cV, cS, cSV, c0, c1, c2, ud, arrays, missing, dups, bad) := c in
  let '(fV, fS, fSV, f0, f1, f2) := tags2preene Nat.eqb (limb (length c1) (length c2)) cV cS cSV c0 c1 c2 0 ud in
  if negb (leqb (leqb Nat.eqb) [fV; fS; fSV; f0; f1; f2] arrays) then 1
  else
    let classes := cV ++ cS ++ cSV ++ c0 ++ c1 ++ c2 in
    let '(m, d, b) := report Nat.eqb classes ud in
    if negb (leqb (leqb Nat.eqb) m missing) then 2 else if negb (leqb (leqb Nat.eqb) d dups) then 3
    else if negb (leqb Nat.eqb b bad) then 4
    else let '(m', d', b') := report_spec Nat.eqb classes ud in
         if leqb (leqb Nat.eqb) m m' && leqb (leqb Nat.eqb) d d' && leqb Nat.eqb b b' then 0 else 5.
"""

NUM = r"[+-]\d+\.\d{3}"
# data ids that can never be produced by the model (kept below lib.coq_nat's limit of 5000)
AMBIGUOUS, UNEXPLAINED = 4997, 4998


def parse_u(s, dim):
    v = [float(x) for x in s.split(",")]
    if len(v) != dim: raise ValueError("dimension of " + s)
    return np.array(v)


def site_of(u, basis):
    """index of the basis site whose formatted position is u (3 decimals), exactly one expected"""
    hits = [i for i, b in enumerate(basis) if np.all(np.abs(u - b) < 6e-4)]
    return hits[0] if len(hits) == 1 else None


def site_cell_of(u, basis):
    """(j, R) with u = basis[j] + R to 3 decimals"""
    hits = []
    for j, b in enumerate(basis):
        R = np.round(u - b)
        if np.all(np.abs(u - b - R) < 6e-4): hits.append((j, R.astype(int)))
    return hits[0] if len(hits) == 1 else None


def check_vm_tags(ck, V, label, d, base):
    """uniqueness, tagdict = membership, and every tag parsed back to a state / jump of its class"""
    from onsager.crystalStars import PairState
    crys, chem, dim = d.crys, d.chem, d.crys.dim
    basis = crys.basis[chem]
    alltags = [t for ty in TYPES for cls in d.tags[ty] for t in cls]
    if len(set(alltags)) != len(alltags):
        V("generated tags are not unique", {**base, "repeated": sorted(t for t in set(alltags) if alltags.count(t) > 1)[:5]}, key="c15-unique")
    if set(d.tags.keys()) != set(TYPES): V("unexpected tag types %s" % list(d.tags.keys()), base, key="c15-types")
    sizes = {"vacancy": [len(s) for s in d.sitelist], "solute": [len(s) for s in d.sitelist], "solute-vacancy": [len(s) for s in d.thermo.stars],
             "omega0": [len(j) for j in d.om0_jn], "omega1": [len(j) for j in d.om1_jn], "omega2": [len(j) for j in d.om2_jn]}
    for ty in TYPES:
        if [len(c) for c in d.tags[ty]] != sizes[ty]:
            V("tag classes of type %s do not have the sizes of the symmetry classes" % ty, {**base, "tags": [len(c) for c in d.tags[ty]], "classes": sizes[ty]},
              key="c15-class-sizes")
    def ps(us, uv):
        i = site_of(us, basis); jr = site_cell_of(uv, basis)
        if i is None or jr is None: return None
        return PairState.fromcrys_latt(crys, chem, (i, jr[0]), jr[1])
    nparsed = 0
    for ty in TYPES:
        for n, cls in enumerate(d.tags[ty]):
            for t in cls:
                if d.tagdict.get(t) != n or d.tagdicttype.get(t) != ty:
                    V("tagdict/tagdicttype do not map a tag to the class that lists it", {**base, "tag": t, "type": ty, "class": n,
                      "tagdict": d.tagdict.get(t), "tagdicttype": d.tagdicttype.get(t)}, key="c15-tagdict")
                # ---- parse
                ok, why = True, ""
                try:
                    if ty in ("vacancy", "solute"):
                        m = re.fullmatch(r"%s:(.*)" % ("v" if ty == "vacancy" else "s"), t)
                        i = site_of(parse_u(m.group(1), dim), basis)
                        ok = i is not None and i in d.sitelist[n]; why = "site %s" % i
                    elif ty == "solute-vacancy":
                        m = re.fullmatch(r"s:(.*)-v:(.*)", t)
                        P = ps(parse_u(m.group(1), dim), parse_u(m.group(2), dim))
                        xi = d.thermo.stateindex(P) if P is not None else None
                        ok = xi is not None and xi in d.thermo.stars[n]; why = "state %s" % (P,)
                    elif ty == "omega0":
                        m = re.fullmatch(r"omega0:v:(.*)\^v:(.*)", t)
                        i = site_of(parse_u(m.group(1), dim), basis); jr = site_cell_of(parse_u(m.group(2), dim), basis)
                        ok = False
                        if i is not None and jr is not None:
                            dx = np.dot(crys.lattice, jr[1] + basis[jr[0]] - basis[i])
                            ok = any(i0 == i and j0 == jr[0] and np.allclose(dx0, dx, atol=1e-6) for (i0, j0), dx0 in d.om0_jn[n])
                        why = "jump %s->%s" % (i, jr)
                    elif ty == "omega1":
                        m = re.fullmatch(r"omega1:s:(.*)-v:(.*)\^v:(.*)", t)
                        us = parse_u(m.group(1), dim)
                        P1, P2 = ps(us, parse_u(m.group(2), dim)), ps(us, parse_u(m.group(3), dim))
                        x1 = d.kinetic.stateindex(P1) if P1 is not None else None; x2 = d.kinetic.stateindex(P2) if P2 is not None else None
                        ok = x1 is not None and x2 is not None and any(a == x1 and b == x2 for (a, b), dx in d.om1_jn[n]); why = "jump %s->%s" % (x1, x2)
                    else:
                        m = re.fullmatch(r"omega2:s:(.*)-v:(.*)\^s:(.*)-v:(.*)", t)
                        P1 = ps(parse_u(m.group(1), dim), parse_u(m.group(2), dim)); P2 = ps(parse_u(m.group(3), dim), parse_u(m.group(4), dim))
                        x1 = d.kinetic.stateindex(P1) if P1 is not None else None; x2 = d.kinetic.stateindex(P2) if P2 is not None else None
                        ok = x1 is not None and x2 is not None and any(a == x1 and b == x2 for (a, b), dx in d.om2_jn[n]); why = "jump %s->%s" % (x1, x2)
                except (AttributeError, ValueError) as e:
                    ok, why = False, "unparsable: %r" % (e,)
                nparsed += 1
                if not ok:
                    V("a generated tag does not name a state/transition of its class: %s (%s)" % (t, why), {**base, "tag": t, "type": ty, "class": n, "parsed": why},
                      key="c15-tag-names-class-" + ty)
    ck.case(key=("vm-tags", label), nontrivial=len(alltags) > 6, kind="tags:vm-%dD" % dim,
            sample={"calculator": label, "ntags": len(alltags), "classes": {ty: len(d.tags[ty]) for ty in TYPES}, "example": d.tags["omega1"][0][0]})
    return nparsed


def check_interstitial(ck, V, label, crys, chem, sl, jn, base):
    from onsager import OnsagerCalc
    d = OnsagerCalc.Interstitial(crys, chem, sl, jn)
    dim, basis = crys.dim, crys.basis[chem]
    alltags = [t for ty in ("states", "transitions") for cls in d.tags[ty] for t in cls]
    if len(set(alltags)) != len(alltags): V("generated interstitial tags are not unique", base, key="c15-unique")
    for ty, classes in (("states", sl), ("transitions", jn)):
        if [len(c) for c in d.tags[ty]] != [len(c) for c in classes]:
            V("interstitial tag classes of type %s do not have the sizes of the symmetry classes" % ty, base, key="c15-class-sizes")
        for n, cls in enumerate(d.tags[ty]):
            for t in cls:
                if d.tagdict.get(t) != n or d.tagdicttype.get(t) != ty:
                    V("interstitial tagdict/tagdicttype do not map a tag to its class", {**base, "tag": t}, key="c15-tagdict")
                try:
                    if ty == "states":
                        i = site_of(parse_u(re.fullmatch(r"i:(.*)", t).group(1), dim), basis)
                        ok = i is not None and i in sl[n]
                    else:
                        m = re.fullmatch(r"i:(.*)\^i:(.*)", t)
                        u1, u2 = parse_u(m.group(1), dim), parse_u(m.group(2), dim)
                        i = site_of(u1, basis)
                        ok = i is not None and any(i0 == i and np.all(np.abs(np.dot(crys.invlatt, dx0) - (u2 - u1)) < 1.2e-3) for (i0, j0), dx0 in jn[n])
                except (AttributeError, ValueError):
                    ok = False
                if not ok:
                    V("a generated interstitial tag does not name a state/transition of its class: " + t, {**base, "tag": t, "type": ty, "class": n},
                      key="c15-tag-names-class-" + ty)
    ck.case(key=("int-tags", label), nontrivial=len(alltags) > 2, kind="tags:interstitial-%dD" % dim)


def tags2preene_cases(ck, rng, V, label, d, base, ncases):
    """random user dictionaries -> (Coq term, meta)"""
    ids, classes = {}, {}
    for ty in TYPES:
        classes[ty] = []
        for cls in d.tags[ty]:
            for t in cls: ids[t] = len(ids) + 1
            classes[ty].append([ids[t] for t in cls])
    flat = [(ty, n) for ty in TYPES for n in range(len(d.tags[ty]))]
    nr = ck.nprng(rng.randrange(1 << 30))
    names = {"vacancy": ("preV", "eneV"), "solute": ("preS", "eneS"), "solute-vacancy": ("preSV", "eneSV"), "omega0": ("preT0", "eneT0"),
             "omega1": ("preT1", "eneT1"), "omega2": ("preT2", "eneT2")}
    terms, metas = [], []
    import copy
    pristine = copy.deepcopy(d)          # a calculator on which tags2preene has never been called
    history, last_ud, last_thermo = [], None, None
    # every calculator first sees a scripted call HISTORY (later calls leave classes without data that earlier calls supplied,
    # identical calls are repeated, the caller overwrites arrays returned earlier), then random dictionaries
    script = ["one-per-class", "subset", "repeat", "empty", "one-per-class", "edit-returned", "subset", "repeat"]
    for k in range(ncases + len(script)):
        mode = script[k] if k < len(script) else \
            rng.choice(["subset", "subset", "one-per-class", "dups", "dups+bogus", "dups-same", "dups-same", "dups-all-same", "bogus", "empty"])
        if mode == "edit-returned":
            if last_thermo is not None:
                for arr in last_thermo.values(): arr[...] = 77.0       # the caller scribbles over what it was given
            mode = "subset"
        repeat = (mode == "repeat" and last_ud is not None)
        if mode == "repeat": mode = "subset"
        ud = {}
        order = []
        samegroups = []
        if mode == "one-per-class": chosen = list(flat)
        elif mode == "empty": chosen = []
        else: chosen = [c for c in flat if rng.random() < rng.choice([0.3, 0.6, 0.9])]
        for (ty, n) in chosen:
            members = list(d.tags[ty][n])
            nmem = 1
            if mode.startswith("dups") and len(members) > 1 and rng.random() < (0.5 if mode != "dups-all-same" else 1.0):
                nmem = rng.randint(2, min(3, len(members))) if mode != "dups-all-same" else len(members)
            grp = rng.sample(members, nmem)
            for t in grp: order.append(t)
            # the typical user case: all symmetry-equivalent configurations filled from ONE calculation (identical data)
            if nmem > 1 and (mode in ("dups-same", "dups-all-same") or (mode == "dups" and rng.random() < 0.3)): samegroups.append(grp)
        bogus = []
        if "bogus" in mode:
            for b in range(rng.randint(1, 3)):
                t0 = rng.choice(list(ids))
                bt = rng.choice([t0 + "0", t0.replace("+0.", "+1.", 1) + "x", "w:" + t0, "bogus-%d" % b, t0.upper() if t0.upper() != t0 else t0 + "_"])
                if bt not in ids and bt not in bogus: bogus.append(bt)
        order += bogus
        rng.shuffle(order)
        for t in order: ud[t] = (float(nr.uniform(0.5, 2.0)), float(nr.uniform(0.05, 1.0)))
        if repeat: ud, samegroups = dict(last_ud), []
        for grp in samegroups:
            for t in grp: ud[t] = ud[grp[0]]
            ty0 = d.tagdicttype[grp[0]]
            cnt = ck.extra.setdefault("identical_data_duplicates_by_type", {})
            cnt[ty0] = cnt.get(ty0, 0) + 1
        try:
            thermo, missing, dups, bad = d.tags2preene(dict(ud), VERBOSE=True)
            plain = d.tags2preene(dict(ud))
        except Exception as e:
            V("tags2preene raises %r" % (e,), {**base, "usertags": ud, "mode": mode}, key="c15-tags2preene-exception"); continue
        history.append({"call": len(history), "mode": mode + ("(repeat)" if repeat else ""), "usertags": dict(ud)})
        last_ud, last_thermo = dict(ud), thermo
        rep_h = {**base, "mode": mode, "usertags": ud, "earlier_calls_on_this_calculator": history[-4:-1]}
        # the same dictionary on a calculator that has never been used: results must not depend on earlier calls
        try:
            fresh = copy.deepcopy(pristine).tags2preene(dict(ud), VERBOSE=True)
            bad_keys = [x for x in fresh[0] if x not in thermo or not np.array_equal(np.asarray(fresh[0][x]), np.asarray(thermo[x]))]
            if bad_keys or list(fresh[1].items()) != list(missing.items()) or fresh[2] != dups or fresh[3] != bad:
                V("tags2preene on a calculator used before differs from a fresh calculator (call %d on this object; arrays %s)" % (len(history) - 1, bad_keys),
                  {**rep_h, "this_object": {x: np.asarray(thermo[x]).tolist() for x in thermo}, "fresh_calculator": {x: np.asarray(fresh[0][x]).tolist() for x in fresh[0]}},
                  key="c15-depends-on-earlier-calls")
        except Exception as e:
            V("tags2preene on a fresh copy raises %r" % (e,), rep_h, key="c15-tags2preene-exception")
        # non-verbose output must be the same dictionary
        expected_keys = {"preV", "eneV", "preS", "eneS", "preSV", "eneSV", "preT0", "eneT0", "preT1", "eneT1", "preT2", "eneT2"}
        if set(thermo) != expected_keys:
            V("tags2preene returns the keys %s instead of the twelve parameter arrays" % sorted(thermo), {**base, "usertags": ud}, key="c15-array-shape")
        if set(plain) != set(thermo) or any(not np.array_equal(plain[x], thermo[x]) for x in plain):
            V("tags2preene with and without VERBOSE differ", {**base, "usertags": ud}, key="c15-verbose-differs")
        # data ids: user entry k -> k+1 ; (1, 0) -> 0 ; LIMB value of omega1/2 class i -> 1000+i / 2000+i
        uid = {}
        did = {}
        for kk, (t, v) in enumerate(ud.items()):
            ids.setdefault(t, None)
            did.setdefault(v, len(did) + 1)          # identical data = identical data id
            uid[t] = did[v]
        filled = {x: thermo[x] for x in ("preV", "eneV", "preS", "eneS", "preSV", "eneSV", "preT0", "eneT0")}
        limb = d.makeLIMBpreene(**filled)
        arrays = []
        for ty in TYPES:
            pn, en = names[ty]
            row = []
            # the WHOLE arrays: one entry per symmetry class, no more, no less
            if np.shape(thermo[pn]) != (len(d.tags[ty]),) or np.shape(thermo[en]) != (len(d.tags[ty]),):
                V("tags2preene array %s/%s has shape %s/%s but there are %d symmetry classes of type %s (entries belonging to no class, or classes "
                  "without an entry)" % (pn, en, np.shape(thermo[pn]), np.shape(thermo[en]), len(d.tags[ty]), ty),
                  {**rep_h, "type": ty, "classes": len(d.tags[ty]), pn: np.asarray(thermo[pn]).tolist(), en: np.asarray(thermo[en]).tolist(),
                   "class_sizes": [len(c) for c in d.tags[ty]]}, key="c15-array-shape")
            for i in range(max(len(thermo[pn]), len(thermo[en])) if np.ndim(thermo[pn]) == 1 and np.ndim(thermo[en]) == 1 else 0):
                if i >= min(len(thermo[pn]), len(thermo[en])) or i >= len(d.tags[ty]):
                    row.append(UNEXPLAINED); continue      # an entry that belongs to no class: the model has no such entry
                pair = (float(thermo[pn][i]), float(thermo[en][i]))
                cand = sorted(set(uid[t] for t, v in ud.items() if v == pair))
                # (the LIMB value of an omega2 class can coincide with a supplied omega0 pair: test LIMB first)
                if ty in ("omega1", "omega2") and pair == (float(limb[pn][i]), float(limb[en][i])): row.append((1000 if ty == "omega1" else 2000) + i)
                elif cand: row.append(cand[0] if len(cand) == 1 else AMBIGUOUS)
                elif ty not in ("omega1", "omega2") and pair == (1.0, 0.0): row.append(0)
                else:
                    # a value that is neither supplied data, nor the neutral default, nor the LIMB value: a violation, not a harness problem
                    row.append(UNEXPLAINED)
                    V("tags2preene returns a value for class %s[%d] that is neither supplied data, the default (1, 0) nor the LIMB value: %r"
                      % (ty, i, pair), {**rep_h, "type": ty, "class": i, "value": pair, "supplied_members": [t for t in d.tags[ty][i] if t in ud]},
                      key="c15-unexplained-value")
            arrays.append(row)
        def tid(t):
            if ids.get(t) is None: ids[t] = len(ids) + 1
            return ids[t]
        for t in ud: tid(t)
        if any(ty not in TYPES for ty in missing) or any(len(v) == 0 for v in missing.values()):
            V("missingdict has unknown types or empty entries", {**base, "missing": {k2: len(v) for k2, v in missing.items()}}, key="c15-missingdict-shape")
        def build_term():
            miss_flat = [[ids[t] for t in cls] for ty in TYPES for cls in missing.get(ty, [])]
            return "(%s, %s, %s, %s, %s, %s, %s, %s, %s, %s, %s)" % (
                *[coq_list([coq_list([coq_nat(x) for x in cls]) for cls in classes[ty]]) for ty in TYPES],
                coq_list(["(%s, %s)" % (coq_nat(ids[t]), coq_nat(uid[t])) for t in ud]),
                coq_list([coq_list([coq_nat(x) for x in row]) for row in arrays]),
                coq_list([coq_list([coq_nat(x) for x in cls]) for cls in miss_flat]),
                coq_list([coq_list([coq_nat(ids[t]) for t in dl]) for dl in dups]),
                coq_list([coq_nat(ids[t]) for t in bad]))
        term = None if max(v for v in ids.values() if v is not None) >= 4900 else encode(V, "c15-unencodable-output", {**rep_h, "missing": missing, "duplicates": dups, "bad": bad}, build_term) if True else None
        if term is not None:
            terms.append(term); metas.append((label, mode, ud, {x: np.asarray(thermo[x]).tolist() for x in thermo}, missing, dups, bad))
        ck.case(key=("t2p", label, mode, sorted(ud.items())), nontrivial=len(ud) > 0, kind="t2p:" + mode,
                sample={"calculator": label, "mode": mode, "usertags": ud, "missing": {k2: len(v) for k2, v in missing.items()}, "duplicates": dups, "bad": bad} if k < 1 else None)
        # ---- direct evaluator of the property's statements
        member_of = {t: (ty, n) for ty in TYPES for n, cls in enumerate(d.tags[ty]) for t in cls}
        hit = {}
        for t in ud:
            if t in member_of: hit.setdefault(member_of[t], []).append(t)
        exp_missing = [list(d.tags[ty][n]) for (ty, n) in flat if (ty, n) not in hit]
        exp_dups = [hit[c] for c in flat if c in hit and len(hit[c]) > 1]
        exp_bad = [t for t in ud if t not in member_of]
        got_missing = [list(cls) for ty in TYPES for cls in missing.get(ty, [])]
        rep = {**base, "mode": mode, "usertags": ud}
        if got_missing != exp_missing: V("verbose report: missing classes are not exactly the classes without data", {**rep, "got": got_missing[:4], "expected": exp_missing[:4]}, key="c15-report-missing")
        if [list(x) for x in dups] != exp_dups: V("verbose report: duplicates are not exactly the classes given more than once", {**rep, "got": dups, "expected": exp_dups}, key="c15-report-duplicates")
        if list(bad) != exp_bad: V("verbose report: bad tags are not exactly the unrecognised tags", {**rep, "got": bad, "expected": exp_bad}, key="c15-report-bad")
        for c, ts in hit.items():
            if len(ts) == 1:
                pn, en = names[c[0]]
                if (float(thermo[pn][c[1]]), float(thermo[en][c[1]])) != ud[ts[0]]:
                    V("data supplied under one member tag of a class is not reproduced", {**rep, "tag": ts[0], "class": list(c),
                      "got": (float(thermo[pn][c[1]]), float(thermo[en][c[1]])), "expected": ud[ts[0]]}, key="c15-data-not-reproduced")
    return terms, metas


def run(ck):
    from onsager import OnsagerCalc
    V = Once(ck)
    ck.rule = ("VacancyMediated calculators on named 2-D/3-D lattices (Nthermo 1-2; multi-site, multi-Wyckoff, polar) and random crystals, "
               "Interstitial calculators on the crystal pool; user dictionaries: random class subsets (30/60/90%), one random member per "
               "class, 2-3 or all members of a class (duplicates) with different AND with identical (pre, ene) data, bogus tags (mutated "
               "real tags, foreign strings), empty, one-per-class; "
               "distinct = distinct (calculator, dictionary); non-trivial = non-empty dictionary")
    ck.trusted += ["harness/c15.py tag parser (regular expressions on the +06.3f format) and id encoding of tags/data"]
    ck.theorems()
    rng = ck.rng
    names = ["square", "honeycomb", "sq2w", "tria", "rect-polar2d", "sc", "b2"] if ck.quick else \
            ["square", "honeycomb", "sq2w", "tria", "rect-polar2d", "rect", "oblique2d", "sc", "b2", "bcc", "fcc", "hcp", "polar", "diamond", "polar2w"]
    calcs = []
    for nm in names:
        crys, chem = gen.named(nm)
        net = gen.percolating_network(crys, chem, rng, maxshell=1)
        if net is None: continue
        for N in ((1, 2) if crys.dim == 2 else (1,)): calcs.append((nm, crys, chem, net[1], net[2], N))
    nrand, tries = ck.n(3, 10), 0
    while nrand > 0 and tries < 80:
        tries += 1
        r = gen.random_crystal(rng, 2 if rng.random() < 0.75 else 3, maxatoms=3, nchem=rng.randint(1, 2))
        if r is None: continue
        crys = r[1]; chem = rng.randrange(crys.Nchem)
        try:
            net = gen.percolating_network(crys, chem, rng, maxshell=1, maxjumps=24)
        except Exception:
            net = None
        if net is None: continue
        calcs.append(("rand-" + r[0], crys, chem, net[1], net[2], 1)); nrand -= 1
    terms, metas = [], []
    nparsed = 0
    skipped = {"construct-failed": 0}
    for nm, crys, chem, sl, jn, N in calcs:
        base = {"calculator": nm, "crystal": repr(crys), "chem": chem, "Nthermo": N}
        try:
            d = OnsagerCalc.VacancyMediated(crys, chem, sl, jn, N)
        except ValueError as e:
            if "repeated tags" in str(e):
                V("generatetags raises on a crystal with well separated sites: %s" % e, base, key="c15-unique")
            skipped["construct-failed"] += 1; continue
        except Exception:
            skipped["construct-failed"] += 1; continue
        label = "%s-N%d" % (nm, N)
        nparsed += check_vm_tags(ck, V, label, d, base)
        t, m = tags2preene_cases(ck, rng, V, label, d, base, ck.n(8, 25))
        terms += t; metas += m
        if N == 1:
            try:
                check_interstitial(ck, V, nm, crys, chem, sl, jn, base)
            except ValueError as e:
                if "repeated tags" in str(e): V("Interstitial.generatetags raises: %s" % e, base, key="c15-unique")
    # interstitial calculators on crystals with an interstitial sublattice
    for nm in ["hcp-oct-tet", "fcc-oct-tet", "bcc-tet"] if not ck.quick else ["fcc-oct-tet"]:
        crys, chem = gen.named(nm)
        net = gen.percolating_network(crys, chem, rng, maxshell=2)
        if net is None: continue
        check_interstitial(ck, V, nm, crys, chem, net[1], net[2], {"calculator": nm, "crystal": repr(crys), "chem": chem})
    ck.extra["tags_parsed"] = nparsed
    ck.extra["skipped"] = skipped
    try:
        codes = run_nat_cases(ck, "t2p", IMPORTS, "run_tags", terms, chunk=40)
    except CoqFailure as e:
        ck.broken_proof = "correspondence tags2preene: %s" % e
        codes = []
    ck.extra["traces_validated_against_impl"] = len(codes)
    what = {1: "parameter arrays", 2: "missing classes", 3: "duplicate lists", 4: "bad tags", 5: "report vs report_spec (classes not disjoint)"}
    for (label, mode, ud, thermo, missing, dups, bad), c in zip(metas, codes):
        if c:
            V("tags2preene differs from the model: %s" % what[c], {"calculator": label, "mode": mode, "usertags": ud, "thermodict": thermo,
              "missing": missing, "duplicates": dups, "bad": bad}, key="c15-corr-%d" % c)
