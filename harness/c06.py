"""C06  Tracer limit: solute identical to host gives exact tracer identities.

Theorems (Properties/C06.v): see that file - lumping theorem for fibred networks, from which, for the tracer pair
chain on EVERY torus and crystal, Lsv = -L0vv and L1vv = 0 in the implementation's normalisation; 0 <= Lss (L_psd).
Upper bound: C06_Lss_upper (Thomson's principle with the bare corrector composed with the solute-site map as test field):
for every chain passing tracer_check + qstructb, n.Lss.n <= n.L(bare).n in every direction, i.e. Lss <= L0vv.
Tie: (a) maketracerpreene output vs the model's tracer table (every omega1/omega2 class gets exactly the data of its
omega0 type, unit solute data); (b) exact tier: torus chain with tracer data, Coq checker over Z encloses the
implementation's injected results and checks the identities on the exact values; (c) direct evaluator on Lij with
the real Green function over the pool: Lsv = -L0vv, L1vv = 0 (1e-4: Green-function accuracy; 1e-9 with the exact torus
Green function injected), 0 <= Lss <= L0vv (Brillouin-zone accuracy 2e-3)."""
META = dict(
    level="proof",
    text=("Theorems: lumping of fibred reversible networks; tracer pair chain => Lsv = -L0vv, L1vv = 0 for every torus; "
          "Lss >= 0. Tie: maketracerpreene vs the model's tracer table; Coq certificate checker on exact torus chains with "
          "tracer data; direct evaluator of the identities and bounds on Lij over the crystal pool, Nthermo 1-2."),
    note=("Trusted: Coq kernel/vm_compute; harness torus chain; "
          "tolerances 1e-9 (identities, injected GF), 1e-4 (identities, real GF) and 2e-3 (bounds)."),
    technique="Coq proof (lumping theorem, L_psd) + tracer-table correspondence + torus-chain certificate + evaluator",
)

import numpy as np
from fractions import Fraction
from . import gen, vm, netcase, tcommon
from .c01 import polar_projector, exact_case
from .lib import CoqFailure, coq_Z, coq_nat, coq_list
from . import exact

TR_IMPORTS = """From Coq Require Import List ZArith Bool Arith.
From Onsager Require Import Base.OrdRing Base.Instances Model.Net Model.Interstitial Model.NetMaps Model.Lump.
Import ListNotations.
Local Open Scope Z_scope.
Definition mk (a : nat * nat * Z * list Z) : edge Zring := let '(s, t, c, d) := a in mkEdge (K:=Zring) s t c d.
Definition runtr (c : nat * nat * nat * nat * list (nat * nat * Z * list Z) * list (nat * nat * Z * list Z)
                      * list (nat * nat * Z * list Z) * list nat * list nat * list (list Z)) : bool :=
  let '(dim, nX, nY, kfib, sw, ex, ny, p, q, gam) := c in
  tracer_check (K:=Zring) dim nX nY kfib (map mk sw) (map mk ex) (map mk ny) p gam &&
  qstructb (K:=Zring) (map mk sw) (map mk ex) p q && nonnegb (K:=Zring) (map mk sw ++ map mk ex).
"""


def tracer_structure_term(d, th, M):
    """the tracer pair chain on the torus and the bare unit-cell vacancy network as integer data for tracer_check"""
    crys = d.crys; dim = crys.dim; N = d.N; invmap = d.invmap
    args = d.preene2betafree(1.0, **th)
    c = vm.torus_chain(d, *args, M=M, solute=True)
    F = lambda x: Fraction(float(x))
    sw, ex = [], []
    for (x, y, rate, ds, dv, kind, k) in c.edges:
        cf = F(th["preS"][invmap[c.states[x][0]]]) * F(th["preT0"][k]) if kind == 0 else (F(th["preT1"][k]) if kind == 1 else F(th["preT2"][k]))
        dl = [gen.rationalize(v) for v in np.dot(crys.invlatt, ds)] + [gen.rationalize(v) for v in np.dot(crys.invlatt, dv)]
        if any(v is None for v in dl): return None
        (ex if kind == 2 else sw).append((x, y, cf, dl))
    # bare vacancy unit-cell network (directed), conductance pV[v] * rate ~ preT0[jt] (common factor dropped, as for X)
    ny = []
    for jt, jl in enumerate(d.om0_jn):
        for (i, j), dx in jl:
            dl = [gen.rationalize(v) for v in np.dot(crys.invlatt, dx)]
            if any(v is None for v in dl): return None
            ny.append((i, j, F(th["preT0"][jt]), dl))
    gam = exact.corrector(N, ny, dim)
    if gam is None: return None
    sc = exact.lcm_den([c_ for e in sw + ex + ny for c_ in [e[2]]])
    sd = exact.lcm_den([v for e in sw + ex + ny for v in e[3]])
    sg = exact.lcm_den([g * sd for gk in gam for g in gk])
    s = sd * sg
    def enc(e): return "(%s, %s, %s, %s)" % (coq_nat(e[0]), coq_nat(e[1]), coq_Z(int(e[2] * sc)), coq_list([coq_Z(int(v * s)) for v in e[3]]))
    p = [st[1] for st in c.states]      # vacancy site of every pair state
    q = [st[0] for st in c.states]      # solute site of every pair state
    kfib = N * M ** dim - 1
    term = "(%s, %s, %s, %s, %s, %s, %s, %s, %s, %s)" % (coq_nat(dim), coq_nat(c.n), coq_nat(N), coq_nat(kfib), coq_list([enc(e) for e in sw]),
            coq_list([enc(e) for e in ex]), coq_list([enc(e) for e in ny]), coq_list([coq_nat(v) for v in p]), coq_list([coq_nat(v) for v in q]),
            coq_list([coq_list([coq_Z(int(g * s)) for g in gk]) for gk in gam]))
    return term, dict(n=c.n, nsw=len(sw), nex=len(ex), ny=len(ny), kfib=kfib)


def run(ck):
    ck.rule = ("crystal pool x first percolating shell x Nthermo in {1,2} x random vacancy prefactors/energies per Wyckoff set "
               "and per omega0 class; distinct = (crystal, Nthermo, data); non-trivial = >= 2 jump classes or >= 2 Wyckoff sets or "
               "non-cubic symmetry")
    ck.trusted += ["harness/vm.py torus chain; tracer table comparison"]
    ck.theorems()
    rng = ck.rng
    names = gen.SMALL + ["re3", "fcc"] + ([] if ck.quick else ["bcc", "hcp", "diamond", "tet", "ortho", "hcp-nonideal"])
    n = 0; exact_cases = []
    # crystals with a non-empty site vector basis first (origin-state terms of Lij: L1vv = 0 and Lsv = -L0vv must hold in every component)
    forced = [(nm,) + gen.named(nm) for nm in (["rect-polar2d", "sq2w", "oblique2d", "tria-disp"] if ck.quick else ["sq2w", "re3", "rect-polar2d", "oblique2d", "tria-disp", "polar3w2d", "pg4", "polar"])]
    for label, crys, chem in forced + list(gen.pool(rng, ck.n(8, 36), names=names, random_frac=0.3, nchem_max=2, maxatoms=2)):
        try:
            net = gen.percolating_network(crys, chem, rng, maxshell=2, maxjumps=40)
        except Exception:
            net = None
        if net is None: continue
        cut, sl, jn = net
        Nth = 2 if (crys.dim == 2 and rng.random() < 0.4) else 1
        d = vm.make(crys, chem, sl, jn, Nth)
        first = None
        for rep in range(ck.n(2, 3)):
            Nw = len(sl); nj = len(jn)
            th = dict(preV=np.array([rng.uniform(.5, 2) for _ in range(Nw)]), eneV=np.array([rng.uniform(0, .6) for _ in range(Nw)]),
                      preT0=np.array([rng.uniform(.5, 2) for _ in range(nj)]), eneT0=np.array([rng.uniform(.6, 1.4) for _ in range(nj)]))
            tr = d.maketracerpreene(**th)
            # (a) tracer table: every class gets the data of its omega0 type
            bad = []
            for j, jt in enumerate(d.om1_jt):
                if tr["preT1"][j] != th["preT0"][jt] or tr["eneT1"][j] != th["eneT0"][jt]: bad.append(("T1", j))
            for j, jt in enumerate(d.om2_jt):
                if tr["preT2"][j] != th["preT0"][jt] or tr["eneT2"][j] != th["eneT0"][jt]: bad.append(("T2", j))
            if np.any(tr["preS"] != 1) or np.any(tr["eneS"] != 0) or np.any(tr["preSV"] != 1) or np.any(tr["eneSV"] != 0): bad.append(("S", 0))
            if len(tr["preT1"]) != len(d.om1_jn) or len(tr["preT2"]) != len(d.om2_jn) or len(tr["preSV"]) != d.thermo.Nstars: bad.append(("len", 0))
            th.update(tr)
            doc = {"crystal": repr(crys), "chem": chem, "cutoff": cut, "Nthermo": Nth, "thermo": {k: np.asarray(v).tolist() for k, v in th.items()}}
            if bad:
                ck.violation("maketracerpreene does not give every class the data of its omega0 type: %r" % bad[:4], doc, key="c06-tracer-table")
            kT = rng.choice([0.5, 1.0])
            try:
                L0vv, Lss, Lsv, L1vv = [np.array(x) for x in d.Lij(*d.preene2betafree(kT, **th))]
            except Exception as e:
                ck.violation("Lij raised %r" % e, doc, key="c06-raise"); continue
            n += 1
            if first is None: first = (kT, {k: np.array(v, copy=True) for k, v in th.items()}, [L0vv, Lss, Lsv, L1vv], doc)
            scale = np.abs(L0vv).max()
            e1 = np.abs(Lsv + L0vv).max() / scale; e2 = np.abs(L1vv).max() / scale
            lo = tcommon.min_eig(Lss) / scale; hi = tcommon.min_eig(L0vv - Lss) / scale
            ck.case(key=("real", label, round(cut, 5), Nth, [np.asarray(v).round(10).tolist() for v in th.values()], kT),
                    nontrivial=(len(jn) > 1 or len(sl) > 1 or len(crys.G) < 48), kind="realGF:%dD-N%d-W%d-Nth%d" % (crys.dim, d.N, len(sl), Nth),
                    sample={"crystal": label, "Nthermo": Nth, "Lsv+L0vv": float(e1), "L1vv": float(e2), "min_eig_Lss": float(lo), "min_eig(L0vv-Lss)": float(hi)} if n <= 3 else None)
            doc.update(L0vv=L0vv.tolist(), Lss=Lss.tolist(), Lsv=Lsv.tolist(), L1vv=L1vv.tolist())
            # with the real Green function the identities hold to its integration accuracy (observed <= 1e-6 on the unchanged tree)
            if e1 > 1e-4: ck.violation("tracer: Lsv != -L0vv (%.3g relative)" % e1, doc, key="c06-Lsv")
            if e2 > 1e-4: ck.violation("tracer: L1vv != 0 (%.3g relative)" % e2, doc, key="c06-L1vv")
            # with the exact torus Green function injected they hold exactly (theorem C06_tracer_identities)
            M = vm.min_torus(d)
            if d.N * d.N * M ** crys.dim <= (700 if ck.quick else 2600):
                I = vm.inject(d, d.preene2betafree(kT, **th), M)
                # all components, also in the span of a site vector basis (valid under injection since fix b4a4433)
                i1 = np.abs(I[2] + I[0]).max() / scale; i2 = np.abs(I[3]).max() / scale
                ck.case(key=("inj", label, round(cut, 5), Nth, [np.asarray(v).round(10).tolist() for v in th.values()], kT), nontrivial=True,
                        kind="injected:%dD-N%d" % (crys.dim, d.N))
                if i1 > 1e-9: ck.violation("tracer (exact torus GF): Lsv != -L0vv (%.3g relative)" % i1, doc, key="c06-Lsv")
                if i2 > 1e-9: ck.violation("tracer (exact torus GF): L1vv != 0 (%.3g relative)" % i2, doc, key="c06-L1vv")
        # the first data set again, after the others were evaluated on the same calculator (Green-function cache hit): everything
        # Lij uses for input A must come from A's own cache entry - same tensors, identities still hold
        if first is not None and n > 0:
            kT0, th0, L0, doc0 = first
            try:
                d.clearcache()    # (vm.inject empties the cache: build the history A, B, A explicitly)
                L0 = [np.array(x) for x in d.Lij(*d.preene2betafree(kT0, **th0))]
                thB = dict(preV=np.array([rng.uniform(.5, 2) for _ in sl]), eneV=np.array([rng.uniform(0, .6) for _ in sl]),
                           preT0=np.array([rng.uniform(.5, 2) for _ in jn]), eneT0=np.array([rng.uniform(.6, 1.4) for _ in jn]))
                thB.update(d.maketracerpreene(**thB))
                d.Lij(*d.preene2betafree(kT0, **thB))
                again = [np.array(x) for x in d.Lij(*d.preene2betafree(kT0, **th0))]
                # (N) right after A: data that differ from A only by a finite-difference step (3e-6 in one barrier): must be treated as
                # different data (no cache entry of A may be re-used): bare coefficient exact for N to 1e-9
                thN = {k: np.array(v, dtype=float) for k, v in th0.items()}
                thN["eneT0"][0] += 3e-6; thN.update(d.maketracerpreene(preV=thN["preV"], eneV=thN["eneV"], preT0=thN["preT0"], eneT0=thN["eneT0"]))
                LN = [np.array(x) for x in d.Lij(*d.preene2betafree(kT0, **thN))]
                wN = np.array([thN["preV"][d.invmap[i]] * np.exp(-thN["eneV"][d.invmap[i]] / kT0) for i in range(d.N)])
                rN = [[pT * np.exp(-eT / kT0) / wN[i] for (i, j), dx in jl] for jl, pT, eT in zip(jn, thN["preT0"], thN["eneT0"])]
                DN = gen.exact_unitcell_D(d.N, jn, wN / wN.sum(), rN, crys.dim)
                eN = np.abs(LN[0] - DN).max() / np.abs(DN).max()
                ck.case(key=("near", label, round(cut, 5), Nth), nontrivial=True, kind="near-equal-data-after-A")
                if eN > 1e-9:
                    ck.violation("data differing from the previous input by a finite-difference step (3e-6 in one barrier): L0vv differs from the exact bare "
                                 "diffusivity of the NEW data by %.3g relative (cache entry of the old data re-used?)" % eN,
                                 dict(doc0, thermo_N={k: np.asarray(v).tolist() for k, v in thN.items()}, L0vv_N=LN[0].tolist(), exact_bare_N=DN.tolist()),
                                 key="c06-near-equal-data")
                # (K) right after A: vacancy site energies shifted per Wyckoff set with every transition state following the mean of
                # its end states (kinetically-resolved barriers): all SYMMETRIC rates equal those of A, site probabilities and escape
                # rates do not.  The tracer identities must hold for K with K's own bare coefficient.
                if len(sl) > 1:
                    dE = np.array([rng.uniform(-.8, .8) for _ in sl])
                    thK = dict(preV=th0["preV"].copy(), eneV=th0["eneV"] + dE, preT0=th0["preT0"].copy(),
                               eneT0=np.array([e + 0.5 * (dE[d.invmap[jl[0][0][0]]] + dE[d.invmap[jl[0][0][1]]]) for jl, e in zip(jn, th0["eneT0"])]))
                    thK.update(d.maketracerpreene(**thK))
                    d.clearcache(); d.Lij(*d.preene2betafree(kT0, **th0))     # the Green-function calculator was last set up for A
                    LK = [np.array(x) for x in d.Lij(*d.preene2betafree(kT0, **thK))]
                    wK = np.array([thK["preV"][d.invmap[i]] * np.exp(-thK["eneV"][d.invmap[i]] / kT0) for i in range(d.N)])
                    rK = [[pT * np.exp(-eT / kT0) / wK[i] for (i, j), dx in jl] for jl, pT, eT in zip(jn, thK["preT0"], thK["eneT0"])]
                    DK = gen.exact_unitcell_D(d.N, jn, wK / wK.sum(), rK, crys.dim)
                    scK = np.abs(DK).max()
                    eK = max(np.abs(LK[0] - DK).max(), np.abs(LK[2] + LK[0]).max() / 1e4 * 1e0 if False else 0.0) / scK
                    e1K = np.abs(LK[2] + LK[0]).max() / scK; e2K = np.abs(LK[3]).max() / scK
                    ck.case(key=("kra", label, round(cut, 5), Nth), nontrivial=True, kind="same-symmetric-rates-other-site-energies")
                    if eK > 1e-8 or e1K > 1e-4 or e2K > 1e-4:
                        ck.violation("after data A, data with the same symmetric rates but other vacancy site energies: L0vv differs from the exact bare "
                                     "diffusivity by %.3g, Lsv+L0vv %.3g, L1vv %.3g (relative)" % (eK, e1K, e2K),
                                     dict(doc0, thermo_K={k: np.asarray(v).tolist() for k, v in thK.items()}, L_K=[x.tolist() for x in LK], exact_bare_K=DK.tolist()),
                                     key="c06-same-symmetric-rates-history")
            except Exception as e:
                ck.violation("Lij raised %r on re-evaluation" % e, doc0, key="c06-raise"); again = None
            if again is not None:
                sc0 = np.abs(L0[0]).max()
                eh = max(np.abs(a - b).max() for a, b in zip(again, L0)) / sc0
                ck.case(key=("again", label, round(cut, 5), Nth), nontrivial=True, kind="re-evaluated-after-other-data")
                if eh > 1e-10:
                    ck.violation("tracer data evaluated again after other data sets on the same calculator gives different tensors (%.3g relative; "
                                 "L1vv/L0vv now %.3g)" % (eh, np.abs(again[3]).max() / sc0), dict(doc0, again=[x.tolist() for x in again]), key="c06-reevaluation")
    # (b) exact tier: tracer data, dyadic, 1-site 2-D crystals
    for rep in range(ck.n(2, 6)):
        nm = ["square", "rect", "tria"][rep % 3]
        crys, chem = gen.named(nm)
        cut, sl, jn = gen.percolating_network(crys, chem, rng, maxshell=1)
        d = vm.make(crys, chem, sl, jn, 1)
        th = vm.random_thermo(d, rng, dyadic=True, tracer=True)
        ec = exact_case(ck, d, th, vm.min_torus(d), nm)
        if ec is not None and ec["info"]["bits"] < 6000: exact_cases.append(ec)
    try:
        codes = netcase.run_cases(ck, "exact", [e["term"] for e in exact_cases], chunk=4)
    except CoqFailure as e:
        ck.broken_proof = "correspondence (tracer torus chain): %s" % e
        codes = []
    for e, c in zip(exact_cases, codes):
        ck.case(key=("exact", e["label"], e["th"]), nontrivial=True, kind="exact:%s" % e["label"],
                sample={"tier": "exact", "crystal": e["label"], "M": e["M"], "states": e["n"]})
        if c == 4: raise RuntimeError("harness certificate rejected")
        if c != 0:
            ck.violation("exact tracer chain: injected Lij outside 1e-9 of the exact coefficients (code %d)" % c,
                         {"crystal": e["label"], "thermo": e["th"], "Lij": e["L"]}, key="c06-exact-%d" % c)
        # identities on the exact rational values (lattice coordinates): Lsv = -Lss_total... checked on exact numbers
        ex = e["info"]["exactL"]; dim = len(ex) // 2
        # exact chain blocks: ss, sv, vv; tracer identity in chain normalisation: Lsv(chain) = -L0vv, so sv block = -(vv block)/(N M^d - 1)
        nst = e["n"]  # = N*M^d - 1 for N = 1
        for a in range(dim):
            for b in range(dim):
                if ex[a][dim + b] * nst != -ex[dim + a][dim + b]:
                    ck.violation("exact tracer chain violates Lsv = -Lvv/(NM^d-1)", {"crystal": e["label"], "thermo": e["th"]}, key="c06-exact-identity")
    # (b') structure tier: Coq decides that the tracer chain fibres over the bare network (premise of C06_tracer_identities)
    import re
    st_terms, st_meta = [], []
    names_st = ["square", "tria", "honeycomb", "sq2w", "rect"] + ([] if ck.quick else ["sc", "b2", "tet", "rect-polar2d", "re3"])
    for rep in range(ck.n(4, 10)):
        nm = names_st[rep % len(names_st)]
        crys, chem = gen.named(nm)
        net = gen.percolating_network(crys, chem, rng, maxshell=1, maxjumps=30)
        if net is None: continue
        cut, sl, jn = net
        d = vm.make(crys, chem, sl, jn, 1)
        M = vm.min_torus(d)
        if d.N * d.N * M ** crys.dim > (150 if ck.quick else 520): continue
        th = vm.random_thermo(d, rng, dyadic=True, tracer=True)
        r = tracer_structure_term(d, th, M)
        if r is None: continue
        st_terms.append(r[0]); st_meta.append(dict(r[1], crystal=nm, M=M, thermo={k: np.asarray(v).tolist() for k, v in th.items()}))
    try:
        res = []
        for a in range(0, len(st_terms), 3):
            out = ck.coq_cases("tracer_%d" % a, "Eval vm_compute in (map runtr %s)." % coq_list(st_terms[a:a + 3]), TR_IMPORTS)
            res += re.findall(r"true|false", out[out.index("="):].split(":")[0])
        if len(res) != len(st_terms): raise CoqFailure("could not parse tracer_check output")
    except CoqFailure as e:
        ck.broken_proof = "correspondence (tracer_check): %s" % e
        res = []
    for m, r in zip(st_meta, res):
        ck.case(key=("structure", m["crystal"], m["M"], m["thermo"]), nontrivial=True, kind="structure:%s-n%d" % (m["crystal"], m["n"]),
                sample={"tier": "tracer-structure", **{k: m[k] for k in ("crystal", "M", "n", "nsw", "nex", "ny", "kfib")}})
        if r != "true":
            ck.violation("tracer pair chain built from the calculator's classes/maketracerpreene does not fibre over the bare vacancy network "
                         "(tracer_check false): identities Lsv=-L0vv, L1vv=0 not guaranteed", m, key="c06-structure")
    # (d) several calculators in one process on ONE crystal object with different hand-selected sub-networks that have the same
    # number of jump classes (the API allows an edited jump network): each must use ITS network - bare coefficient equal to the
    # exact unit-cell diffusivity of its own network, and the tracer identities
    npair = 0
    for nm in (["square", "tria"] if ck.quick else ["square", "tria", "rect", "sc", "fcc"]):
        crys, chem = gen.named(nm)
        sh = gen.shells(crys, chem)
        if len(sh) < 3: continue
        sl = crys.sitelist(chem)
        jn_all = crys.jumpnetwork(chem, sh[2] + 1e-4)
        if len(jn_all) < 3: continue
        preT0_all = np.array([rng.uniform(.5, 2) for _ in jn_all]); eneT0_all = np.array([rng.uniform(.6, 1.4) for _ in jn_all])
        for sel in ([0, 1], [0, 2], [0, 1]):
            jn = [jn_all[k] for k in sel]
            d = vm.make(crys, chem, sl, jn, 1)
            th = dict(preV=np.ones(len(sl)), eneV=np.zeros(len(sl)), preT0=preT0_all[sel], eneT0=eneT0_all[sel])
            th.update(d.maketracerpreene(**th))
            L0vv, Lss, Lsv, L1vv = [np.array(x) for x in d.Lij(*d.preene2betafree(1.0, **th))]
            rates = [[pT * np.exp(-eT) for _ in jl] for jl, pT, eT in zip(jn, th["preT0"], th["eneT0"])]
            Dex = gen.exact_unitcell_D(d.N, jn, np.ones(d.N) / d.N, rates, crys.dim)
            scale = np.abs(Dex).max()
            e0 = np.abs(L0vv - Dex).max() / scale; e1 = np.abs(Lsv + L0vv).max() / scale; e2 = np.abs(L1vv).max() / scale
            npair += 1
            ck.case(key=("subnet", nm, tuple(sel), npair), nontrivial=True, kind="same-crystal-other-network")
            if e0 > 1e-8 or e1 > 1e-4 or e2 > 1e-4:
                ck.violation("calculator #%d on the same crystal object (jump classes %s of the 3-shell network): L0vv differs from the exact bare "
                             "diffusivity of ITS network by %.3g, Lsv+L0vv %.3g, L1vv %.3g (relative)" % (npair, sel, e0, e1, e2),
                             {"crystal": nm, "classes": sel, "preT0": th["preT0"].tolist(), "eneT0": th["eneT0"].tolist(),
                              "L0vv": L0vv.tolist(), "exact_bare": Dex.tolist(), "Lsv": Lsv.tolist(), "L1vv": L1vv.tolist()}, key="c06-other-network-same-crystal")
    ck.extra["same_crystal_other_network_cases"] = npair
    ck.extra["traces_validated_against_impl"] = len(codes) + len(res)
    ck.extra["realGF_cases"] = n
