"""C20  Site symmetry analysis gives exact orbits and invariant bases.

Tie (every run):
 (a) EXHAUSTIVE: every subgroup of the cubic holohedry O_h (48 operations, two lattice settings), of the
     hexagonal holohedry D_6h (24, two orientations) and of the 2-D holohedries D_4 and D_6 (two
     orientations) -- generated here by closure from the integer automorphisms of the exact metric --
     is fed, as a list of GroupOps in several orders, through GroupOp.eigen / VectorBasis /
     SymmTensorBasis / CombineVectorBasis / CombineTensorBasis.  The dimension of the invariant
     space is EXACT: an integer basis with a certificate is verified over Qc by the Coq checkers
     vector_basis_okb / tensor_basis_okb (soundness: C20_vector_basis_sound, C20_tensor_basis_sound);
     the implementation's basis must have exactly that many elements, orthonormal and invariant (1e-10).
 (b) random crystals: Wyckoff sets, site point groups and Wyckoffpos of the implementation are decided
     by the Coq checkers of Model/Sites.v in exact lattice coordinates; site vector / tensor bases and
     FullVectorBasis as in (a); addbasis(Wyckoffpos(u)) keeps the group."""
META = dict(
    level="proof",
    text=("Theorems (every ordered ring, every dimension, every list of matrices): a basis accepted by the certificate "
          "checker consists of invariant, linearly independent vectors / symmetric tensors and every invariant element is a "
          "combination of them (span = invariant space exactly, so its dimension is the number of basis elements); orbit "
          "model exact and duplicate-free; checkers for Wyckoffpos (complete duplicate-free orbit), Wyckoff sets (= orbits "
          "of atoms) and site point groups (fix the site exactly, equal the stabiliser) are sound. Tie: exhaustive run "
          "over every subgroup of O_h, D_6h, D_4, D_6 (exact dimensions certified in Coq, implementation bases orthonormal "
          "and invariant to 1e-10) and Coq-checked orbits/point groups/bases on random crystals; addbasis keeps |G|."),
    note=("Trusted: Coq kernel/vm_compute; harness exact linear algebra producing the certificates (they are CHECKED, not "
          "trusted) and the conversion of the implementation's float output to exact lattice coordinates; the space group is "
          "read from crys.G (its completeness is C18). The implementation's bases are irrational (Cartesian, orthonormal): "
          "their orthonormality and invariance are float comparisons at 1e-10, and 'k orthonormal invariant elements with "
          "k = exact dimension span the invariant space' is the elementary dimension argument, not formalised."),
    technique="Coq proof (FixedSpace: verified certificate checker; Sites: verified orbit checkers) + exhaustive subgroup enumeration + exact correspondence",
)

import itertools, math
from fractions import Fraction
from functools import reduce
import numpy as np
from . import sitegen as sg
from .lib import CoqFailure, coq_Z, coq_list, coq_nat

TOL = 1e-10

# =================================================================================================
# exact linear algebra (Fractions)
def mat_inv(M):
    n = len(M)
    A = [[Fraction(x) for x in row] + [Fraction(int(i == j)) for j in range(n)] for i, row in enumerate(M)]
    for c in range(n):
        p = next(r for r in range(c, n) if A[r][c] != 0)
        A[c], A[p] = A[p], A[c]
        A[c] = [x / A[c][c] for x in A[c]]
        for r in range(n):
            if r != c and A[r][c] != 0:
                f = A[r][c]
                A[r] = [a - f * b for a, b in zip(A[r], A[c])]
    return [row[n:] for row in A]


def independent_rows(rows, n):
    """indices of a maximal independent subset of rows (greedy), and the reduced echelon basis"""
    basis = []      # (pivot col, reduced row)
    chosen = []
    for ri, row in enumerate(rows):
        v = [Fraction(x) for x in row]
        for pc, b in basis:
            if v[pc] != 0:
                f = v[pc]
                v = [a - f * c for a, c in zip(v, b)]
        pc = next((j for j in range(n) if v[j] != 0), None)
        if pc is None: continue
        v = [x / v[pc] for x in v]
        # keep basis reduced
        basis = [(p, [a - b[pc] * c for a, c in zip(b, v)]) for p, b in basis]
        basis.append((pc, v)); chosen.append(ri)
    return chosen, basis


def nullspace(basis, n):
    piv = {pc: b for pc, b in basis}
    free = [j for j in range(n) if j not in piv]
    out = []
    for f in free:
        v = [Fraction(0)] * n
        v[f] = Fraction(1)
        for pc, b in piv.items(): v[pc] = -b[f]
        den = 1
        for x in v: den = sg.lcm(den, x.denominator)
        out.append([x * den for x in v])
    return out


def certificate(rows, n):
    """rows: the rows of all (rho - 1).  Returns (B, C, E) with B an integer basis of the null space, C B^T = 1,
    and 1 = B^T C + E M (E sparse: per index i a list of (row number, coefficient))"""
    chosen, basis = independent_rows(rows, n)
    B = nullspace(basis, n)
    k = len(B)
    if k == 0:
        C = []
    else:
        BBt = [[sum(a * b for a, b in zip(B[i], B[j])) for j in range(k)] for i in range(k)]
        inv = mat_inv(BBt)
        C = [[sum(inv[i][l] * B[l][j] for l in range(k)) for j in range(n)] for i in range(k)]
    W = C + [[Fraction(x) for x in rows[r]] for r in chosen]
    assert len(W) == n
    Wi = mat_inv(W)
    E = [[(chosen[t], Wi[i][k + t]) for t in range(n - k) if Wi[i][k + t] != 0] for i in range(n)]
    # self-check of the identity (the Coq checker is the judge; this catches harness slips early)
    for i in range(n):
        for j in range(n):
            v = sum(B[a][i] * C[a][j] for a in range(k)) + sum(e * rows[r][j] for r, e in E[i])
            assert v == (1 if i == j else 0)
    return B, C, E


def vector_rows(ops, n):
    return [[S[i][j] - (1 if i == j else 0) for j in range(n)] for S in ops for i in range(n)]


def tensor_rows(ops, n):
    idx = [(a, b) for a in range(n) for b in range(n)]
    rows = []
    for (a, b) in idx:                                   # tau
        rows.append([(1 if (b, a) == q else 0) - (1 if (a, b) == q else 0) for q in idx])
    for S in ops:
        for (a, b) in idx:
            rows.append([S[a][c] * S[b][d] - (1 if (a, b) == (c, d) else 0) for (c, d) in idx])
    return rows


# ---- Coq literals (Qc) -----------------------------------------------------------------------
def cq(x):
    x = Fraction(x)
    return "(z %s)" % coq_Z(x.numerator) if x.denominator == 1 else "(q %s %d)" % (coq_Z(x.numerator), x.denominator)


def cvecq(v): return coq_list([cq(x) for x in v])


def cmatq(M): return coq_list([cvecq(r) for r in M])


def csparse(E): return coq_list([coq_list(["(%s, %s)" % (coq_nat(r), cq(e)) for r, e in row]) for row in E])


def unflat(v, n): return [[v[a * n + b] for b in range(n)] for a in range(n)]


IMPORTS = """From Coq Require Import List ZArith QArith Qcanon.
From Onsager Require Import Base.OrdRing Base.Instances Model.Geom3 Model.FixedSpace Model.Sites.
Import ListNotations.
Definition z (n : Z) : Qc := Q2Qc (inject_Z n).
Definition q (n : Z) (d : positive) : Qc := Q2Qc (n # d).
Definition runb (c : nat * list (list (list Qc)) *
                   (list (list Qc) * list (list Qc) * list (list (nat * Qc))) *
                   (list (list (list Qc)) * list (list (list Qc)) * list (list (nat * Qc)))) : nat :=
  let '(n, ops, (Bv, Cv, Ev), (Bt, Ct, Et)) := c in
  if negb (vector_basis_okb (K:=Qcring) n ops Bv Cv Ev) then 1%nat else
  if negb (tensor_basis_okb (K:=Qcring) n ops Bt Ct Et) then 2%nat else 0%nat.
"""


def basis_term(ops, n):
    """exact invariant-space data of a list of integer matrices: (kvec, ktens, coq term)"""
    Bv, Cv, Ev = certificate(vector_rows(ops, n), n)
    Bt, Ct, Et = certificate(tensor_rows(ops, n), n * n)
    term = "(%s, %s, (%s, %s, %s), (%s, %s, %s))" % (
        coq_nat(n), coq_list([cmatq(S) for S in ops]), cmatq(Bv), cmatq(Cv), csparse(Ev),
        coq_list([cmatq(unflat(b, n)) for b in Bt]), coq_list([cmatq(unflat(c, n)) for c in Ct]), csparse(Et))
    return len(Bv), len(Bt), term, Bv, Bt


def run_terms(ck, name, terms, fn="runb", chunk=90, imports=IMPORTS):
    import re
    out = []
    for a in range(0, len(terms), chunk):
        body = "Eval vm_compute in (map %s %s)." % (fn, coq_list(terms[a:a + chunk]))
        txt = ck.coq_cases("%s_%d" % (name, a), body, imports)
        txt = txt[txt.index("="):].split(": list")[0]
        got = [int(x) for x in re.findall(r"\d+", txt.replace("%nat", ""))]
        if len(got) != len(terms[a:a + chunk]):
            raise CoqFailure("could not parse model output: " + txt[:300])
        out += got
    return out


# =================================================================================================
# holohedries and their subgroups
def automorphisms(G):
    """all integer matrices with entries in {-1,0,1} preserving the integer metric G exactly"""
    n = len(G)
    out = []
    for ent in itertools.product((-1, 0, 1), repeat=n * n):
        S = [list(ent[i * n:(i + 1) * n]) for i in range(n)]
        ok = True
        for i in range(n):
            for j in range(i, n):
                if sum(S[a][i] * G[a][b] * S[b][j] for a in range(n) for b in range(n)) != G[i][j]: ok = False; break
            if not ok: break
        if ok: out.append(tuple(tuple(r) for r in S))
    return out


def mmul(A, B):
    n = len(A)
    return tuple(tuple(sum(A[i][k] * B[k][j] for k in range(n)) for j in range(n)) for i in range(n))


_SUBCACHE = {}


def all_subgroups(group, n):
    """every subgroup of the finite matrix group `group` (list of tuples), as sorted lists of matrices; subgroups are
    built by adjoining one element at a time and closing under the multiplication table"""
    key = tuple(group)
    if key in _SUBCACHE: return _SUBCACHE[key]
    N = len(group)
    index = {g: i for i, g in enumerate(group)}
    table = [[index[mmul(a, b)] for b in group] for a in group]           # closed: KeyError otherwise
    ident = index[tuple(tuple(int(i == j) for j in range(n)) for i in range(n))]

    def close(mask):
        elems = [i for i in range(N) if mask >> i & 1]
        frontier = list(elems)
        while frontier:
            new = []
            for a in frontier:
                for b in elems:
                    for c in (table[a][b], table[b][a]):
                        if not mask >> c & 1:
                            mask |= 1 << c; new.append(c)
            elems += new
            frontier = new
        return mask

    subs = {1 << ident}
    frontier = [1 << ident]
    while frontier:
        new = []
        for H in frontier:
            for g in range(N):
                if H >> g & 1: continue
                K = close(H | 1 << g)
                if K not in subs: subs.add(K); new.append(K)
        frontier = new
    out = [sorted(group[i] for i in range(N) if m >> i & 1) for m in subs]
    out.sort(key=lambda H: (len(H), H))
    _SUBCACHE[key] = out
    return out


def settings(quick=False):
    s3 = math.sqrt(3.)
    c2 = Fraction(8, 3)
    out = []
    out.append(("Oh-cubic", np.eye(3), [[1, 0, 0], [0, 1, 0], [0, 0, 1]], 48))
    out.append(("Oh-fcc", 0.5 * np.array([[0, 1, 1], [1, 0, 1], [1, 1, 0.]]).T, [[2, 1, 1], [1, 2, 1], [1, 1, 2]], 48))
    out.append(("D6h-hex", np.array([[1, 0, 0], [-.5, s3 / 2, 0], [0, 0, math.sqrt(8 / 3)]]).T, [[6, -3, 0], [-3, 6, 0], [0, 0, 16]], 24))
    out.append(("D6h-hcp", np.array([[.5, -s3 / 2, 0], [.5, s3 / 2, 0], [0, 0, math.sqrt(8 / 3)]]).T, [[6, -3, 0], [-3, 6, 0], [0, 0, 16]], 24))
    out.append(("D4-square", np.eye(2), [[1, 0], [0, 1]], 8))
    out.append(("D6-tria", np.array([[1, 0], [-.5, s3 / 2]]).T, [[2, -1], [-1, 2]], 12))
    out.append(("D6-tria-rot", np.array([[.5, -s3 / 2], [.5, s3 / 2]]).T, [[2, -1], [-1, 2]], 12))
    if quick: out = [o for o in out if o[0] not in ("Oh-fcc", "D6h-hcp")]      # second settings of the same groups: thorough only
    return out


def random_rotation(rng, n, kind):
    """proper rotation: 'tilt' = 5..38 degrees about a random axis perpendicular-ish to z (keeps z-axes within the
    abs(e_z) >= 0.75 branch of GroupOp.eigen but off the axis), 'generic' = uniformly random"""
    if n == 2:
        t = rng.uniform(0, 2 * math.pi)
        return np.array([[math.cos(t), -math.sin(t)], [math.sin(t), math.cos(t)]])
    if kind == "tilt":
        phi = rng.uniform(0, 2 * math.pi)
        ax = np.array([math.cos(phi), math.sin(phi), rng.uniform(-0.3, 0.3)]); ax /= np.linalg.norm(ax)
        th = math.radians(rng.uniform(5, 38))
    else:
        v = np.array([rng.gauss(0, 1) for _ in range(3)]); ax = v / np.linalg.norm(v)
        th = rng.uniform(0.2, math.pi - 0.2)
    K = np.array([[0, -ax[2], ax[1]], [ax[2], 0, -ax[0]], [-ax[1], ax[0], 0]])
    return np.eye(3) + math.sin(th) * K + (1 - math.cos(th)) * (K @ K)


def make_ops(H, A):
    from onsager import crystal
    Ai = np.linalg.inv(A)
    n = A.shape[0]
    return [crystal.GroupOp(rot=np.array(S, dtype=int), trans=np.zeros(n), cartrot=A @ np.array(S, dtype=float) @ Ai, indexmap=((0,),)) for S in H]


def impl_bases(oplist):
    """the implementation's combination, exactly as Crystal.VectorBasis / SymmTensorBasis do it"""
    from onsager import crystal
    eig = [g.eigen() for g in oplist]
    vb = reduce(crystal.CombineVectorBasis, [crystal.VectorBasis(*e) for e in eig])
    tb = reduce(crystal.CombineTensorBasis, [crystal.SymmTensorBasis(*e) for e in eig])
    return vb, tb


def judge_bases(vb, tb, carts, kv, kt, n):
    """-> list of (key, message) problems"""
    from onsager import crystal
    bad = []
    try:
        vl = crystal.Crystal.vectlist(vb)
    except Exception as e:
        return [("c20-vectlist-exception", "%s: %s" % (type(e).__name__, e))]
    if vl is None: vl = []
    if vb[0] != kv or len(vl) != kv:
        bad.append(("c20-vector-dimension", "vector basis has dimension %s (list of %d) but the invariant space has dimension %d" % (vb[0], len(vl), kv)))
    if len(vl):
        V = np.array(vl, dtype=float)
        if np.abs(V @ V.T - np.eye(len(vl))).max() > TOL: bad.append(("c20-vector-not-orthonormal", "vector basis is not orthonormal: %s" % V.tolist()))
        dev = max(np.abs(R @ v - v).max() for R in carts for v in V)
        if dev > TOL: bad.append(("c20-vector-not-invariant", "vector basis element moves by %.3g under a point-group operation: %s" % (dev, V.tolist())))
    if vb[0] == 2 and n == 3:            # plane: the stored normal must be fixed up to sign
        dev = max(min(np.abs(R @ vb[1] - vb[1]).max(), np.abs(R @ vb[1] + vb[1]).max()) for R in carts)
        if dev > TOL: bad.append(("c20-vector-not-invariant", "plane normal is not preserved"))
    if len(tb) != kt:
        bad.append(("c20-tensor-dimension", "tensor basis has %d elements but the invariant symmetric tensors have dimension %d" % (len(tb), kt)))
    if len(tb):
        T = np.array([t.flatten() for t in tb])
        if np.abs(T @ T.T - np.eye(len(tb))).max() > TOL: bad.append(("c20-tensor-not-orthonormal", "tensor basis is not orthonormal"))
        if max(np.abs(t - t.T).max() for t in tb) > TOL: bad.append(("c20-tensor-not-symmetric", "tensor basis element is not symmetric"))
        dev = max(np.abs(R @ t @ R.T - t).max() for R in carts for t in tb)
        if dev > TOL: bad.append(("c20-tensor-not-invariant", "tensor basis element changes by %.3g under a point-group operation" % dev))
    return bad


def exhaustive(ck, rng):
    terms, metas = [], []
    nsub = {}
    for name, A, G, order in settings(ck.quick):
        n = len(G)
        grp = automorphisms(G)
        if len(grp) != order: raise RuntimeError("holohedry %s has %d operations, expected %d" % (name, len(grp), order))
        subs = all_subgroups(grp, n)
        nsub[name] = len(subs)
        for H in subs:
            Hl = list(H)
            kv, kt, term, Bv, Bt = basis_term([list(map(list, S)) for S in Hl], n)
            terms.append(term)
            metas.append((name, A, Hl, kv, kt, n))
    try:
        codes = run_terms(ck, "subgroups", terms)
    except CoqFailure as e:
        ck.broken_proof = "correspondence Model/FixedSpace (subgroup certificates): %s" % e
        ck.note("CORRESPONDENCE BROKEN: " + str(e)[:300])
        codes = [None] * len(terms)
    norders = 0
    nrot = 0
    for (name, A, Hl, kv, kt, n), code in zip(metas, codes):
        if code not in (0, None):
            raise RuntimeError("certificate for subgroup of %s (order %d) rejected by the Coq checker (code %s)" % (name, len(Hl), code))
        ops = make_ops(Hl, A)
        carts = [g.cartrot for g in ops]
        # orders: sorted, reversed, and random shuffles (all permutations for tiny groups)
        orders = [list(range(len(ops))), list(range(len(ops)))[::-1]]
        if len(ops) <= 4: orders = [list(p) for p in itertools.permutations(range(len(ops)))]
        else:
            for _ in range(ck.n(4, 12)):
                p = list(range(len(ops))); rng.shuffle(p); orders.append(p)
        problems = {}
        for p in orders:
            norders += 1
            try:
                vb, tb = impl_bases([ops[i] for i in p])
            except Exception as e:
                problems["c20-exception"] = ("%s: %s" % (type(e).__name__, e), p); continue
            for key, msg in judge_bases(vb, tb, carts, kv, kt, n):
                problems.setdefault(key, (msg, p))
        # the same subgroup in rotated frames (cartrot -> Q cartrot Q^T, rot unchanged): symmetry axes in generic
        # directions, in particular tilted away from z by less than 41 degrees
        for qi in range(ck.n(2, 6)):
            kindq = "tilt" if qi % 2 == 0 else "generic"
            Q = random_rotation(rng, n, kindq)
            opsq = make_ops(Hl, Q @ A)
            cartsq = [g.cartrot for g in opsq]
            p2 = list(range(len(opsq))); rng.shuffle(p2)
            for p in (list(range(len(opsq))), p2):
                norders += 1; nrot += 1
                try:
                    vb, tb = impl_bases([opsq[i] for i in p])
                except Exception as e:
                    problems["c20-exception"] = ("%s: %s (frame rotated by Q=%s)" % (type(e).__name__, e, Q.tolist()), p); continue
                for key, msg in judge_bases(vb, tb, cartsq, kv, kt, n):
                    problems.setdefault(key, (msg + " (frame rotated by Q=%s, %s)" % (np.round(Q, 6).tolist(), kindq), p))
        types = sorted(ops[i].eigen()[0] for i in range(len(ops)))
        ck.case(key=(name, Hl), nontrivial=len(Hl) > 1, kind="subgroup:%s|kv=%d|kt=%d" % (name, kv, kt),
                sample={"setting": name, "order": len(Hl), "optypes": types, "invariant_vector_dim": kv, "invariant_tensor_dim": kt,
                        "rotations": [list(map(list, S)) for S in Hl][:4], "coq_code": code})
        for key, (msg, p) in problems.items():
            ck.violation("site symmetry = subgroup of %s of order %d (operation types %s): %s" % (name, len(Hl), types, msg),
                         {"setting": name, "lattice": A.tolist(), "rotations_lattice_coords": [list(map(list, S)) for S in Hl],
                          "order_of_operations": p, "exact_vector_dim": kv, "exact_tensor_dim": kt}, key=key + ("-2d" if n == 2 else "-3d"))
    ck.extra["subgroups"] = nsub
    ck.extra["subgroup_orderings_evaluated"] = norders
    ck.extra["of_which_in_rotated_frames"] = nrot
    ck.extra["exhaustive"] = True
    return len([c for c in codes if c == 0])


# =================================================================================================
# crystals
SITE_IMPORTS = """From Coq Require Import List ZArith.
From Onsager Require Import Model.Geom3 Model.Sites.
Import ListNotations.
Local Open Scope Z_scope.
"""


def to_grid(ex, u, Dp):
    """float unit-cell vector -> integer triple scaled by Dp (mod Dp), None if off the grid"""
    out = []
    for x in u:
        f = sg.rat(x, 960)
        if f is None or (f * Dp).denominator != 1: return None
        out.append(int(f * Dp) % Dp)
    return tuple(out + [0] * (3 - ex.dim))


def sop_term(ex, S, tD): return "(%s, %s)" % (sg.cm3(ex.S3(S)), sg.cv3(tD))


def crystal_case(ck, rng, label, crys, ex, heavy=False):
    """returns dict with site term, basis terms and float findings"""
    from onsager import crystal
    dim = crys.dim
    res = dict(label=label, crys=repr(crys), nG=len(ex.ops), problems=[])
    Dp = sg.lcm(ex.D, 24)
    f = Dp // ex.D
    ops_t = [sop_term(ex, op["S"], tuple(f * x for x in op["tD"])) for op in ex.ops]
    # Wyckoff partition per species
    species = []
    for c, lst in enumerate(ex.pos):
        parts = sorted(sorted(i for (cc, i) in W) for W in crys.Wyckoff if next(iter(W))[0] == c)
        species.append("(%s, %s)" % (coq_list([sg.cv3(tuple(f * x for x in p)) for p in lst]),
                                    coq_list([coq_list([coq_nat(i) for i in W]) for W in parts])))
    # all atoms must be covered by sets of a single species
    if any(len(set(cc for cc, i in W)) != 1 for W in crys.Wyckoff): res["problems"].append(("c20-wyckoff-mixed-species", "a Wyckoff set mixes species"))
    # point groups
    pgs = []
    for c, lst in enumerate(ex.pos):
        for i, p in enumerate(lst):
            ol = []
            for g in crys.pointG[c][i]:
                t = [sg.rat(x, 960) for x in g.trans]
                if any(x is None or (x * Dp).denominator != 1 for x in t):
                    res["problems"].append(("c20-pointgroup-offgrid", "point-group translation not on the grid")); continue
                ol.append(sop_term(ex, [[int(x) for x in r] for r in g.rot], tuple([int(x * Dp) for x in t] + [0] * (3 - dim))))
            pgs.append("(%s, %s)" % (sg.cv3(tuple(f * x for x in p)), coq_list(ol)))
    # Wyckoffpos probes: special and general positions
    probes = []
    wp = []
    for _ in range(3):
        u = np.array([float(rng.choice(sg.GRID12 + [Fraction(1, 24), Fraction(5, 24), Fraction(7, 24)])) for _ in range(dim)])
        try:
            lst = crys.Wyckoffpos(u)
        except Exception as e:
            res["problems"].append(("c20-wyckoffpos-exception", "%s: %s" % (type(e).__name__, e))); continue
        pu = to_grid(ex, u, Dp)
        conv = [to_grid(ex, v, Dp) for v in lst]
        if pu is None or any(v is None for v in conv):
            res["problems"].append(("c20-wyckoffpos-offgrid", "Wyckoffpos(%s) returned a position off the rational grid" % u.tolist())); continue
        wp.append("(%s, %s)" % (sg.cv3(pu), coq_list([sg.cv3(v) for v in conv])))
        probes.append((u, lst))
    res["site_term"] = "(mkSiteCase %s %s %s %s %s)" % (coq_Z(Dp), coq_list(ops_t), coq_list(species), coq_list(pgs), coq_list(wp))
    # ---- site bases: exact dimension (certificate for Coq) vs implementation ----------------
    res["basis_terms"] = []
    seen = {}
    first_site, first_fvb = {}, {}
    snap0 = sg.state_snapshot(crys)
    for c, lst in enumerate(ex.pos):
        for i in range(len(lst)):
            pg = list(crys.pointG[c][i])
            rots = tuple(sorted(set(tuple(tuple(int(x) for x in r) for r in g.rot) for g in pg)))
            if rots not in seen:
                kv, kt, term, _, _ = basis_term([list(map(list, S)) for S in rots], dim)
                seen[rots] = (kv, kt); res["basis_terms"].append(term)
            kv, kt = seen[rots]
            try:
                vb = crys.VectorBasis((c, i)); tb = crys.SymmTensorBasis((c, i))
            except Exception as e:
                res["problems"].append(("c20-exception", "VectorBasis/SymmTensorBasis((%d,%d)): %s: %s" % (c, i, type(e).__name__, e))); continue
            for key, msg in judge_bases(vb, tb, [g.cartrot for g in pg], kv, kt, dim):
                res["problems"].append((key + ("-2d" if dim == 2 else "-3d"), "site (%d,%d): %s" % (c, i, msg)))
            res.setdefault("dims", []).append((c, i, kv, kt))
            first_site[(c, i)] = (vb[0], np.array(vb[1], copy=True), [np.array(t, copy=True) for t in tb])
    # ---- FullVectorBasis -----------------------------------------------------------------------
    dims = {(c, i): kv for (c, i, kv, kt) in res.get("dims", [])}
    for c in range(crys.Nchem):
        try:
            VB, VV = crys.FullVectorBasis(c)
        except Exception as e:
            res["problems"].append(("c20-exception", "FullVectorBasis(%d): %s: %s" % (c, type(e).__name__, e))); continue
        first_fvb[c] = (np.array(VB, copy=True), np.array(VV, copy=True))
        want = sum(dims.get((c, s[0]), 0) for s in crys.sitelist(c))
        VB = np.array(VB).reshape((-1, len(crys.basis[c]), dim)) if len(VB) else np.zeros((0, len(crys.basis[c]), dim))
        if len(VB) != want:
            res["problems"].append(("c20-fullvectorbasis-count", "FullVectorBasis(%d) has %d functions, expected %d" % (c, len(VB), want))); continue
        if len(VB):
            flat = VB.reshape((len(VB), -1))
            if np.abs(flat @ flat.T - np.eye(len(VB))).max() > TOL:
                res["problems"].append(("c20-fullvectorbasis-not-orthonormal", "FullVectorBasis(%d) is not orthonormal" % c))
            dev = 0.0
            for g in crys.G:
                for a in range(len(VB)):
                    for s in range(len(crys.basis[c])):
                        dev = max(dev, np.abs(VB[a, g.indexmap[c][s]] - g.cartrot @ VB[a, s]).max())
            if dev > TOL: res["problems"].append(("c20-fullvectorbasis-not-invariant", "FullVectorBasis(%d) is not invariant under the space group (%.3g)" % (c, dev)))
            VVe = np.einsum('asi,bsj->ijab', VB, VB)
            if np.abs(VVe - VV).max() > TOL: res["problems"].append(("c20-fullvectorbasis-VV", "VV outer product inconsistent"))
    # ---- history independence and aliasing: the same queries on the SAME object after other API calls, after mutating
    # every returned array, and on a fresh crystal object must be bit-identical to the first answers
    def requery(cr):
        out = {}
        for (c, i) in first_site:
            vb = cr.VectorBasis((c, i)); tb = cr.SymmTensorBasis((c, i))
            out[("site", c, i)] = (vb[0], np.array(vb[1], copy=True), [np.array(t, copy=True) for t in tb])
        for c in first_fvb:
            VB, VV = cr.FullVectorBasis(c)
            out[("fvb", c)] = (np.array(VB, copy=True), np.array(VV, copy=True))
        return out
    def same(a, b):
        if isinstance(a, (list, tuple)):
            return isinstance(b, (list, tuple)) and len(a) == len(b) and all(same(x, y) for x, y in zip(a, b))
        if isinstance(a, np.ndarray): return isinstance(b, np.ndarray) and a.shape == b.shape and np.array_equal(a, b)
        return a == b
    first = {("site", c, i): v for (c, i), v in first_site.items()}
    first.update({("fvb", c): v for c, v in first_fvb.items()})
    def compare(stage, key, cr=None):
        try:
            now = requery(cr or crys)
        except Exception as e:
            res["problems"].append(("c20-exception", "re-query %s: %s: %s" % (stage, type(e).__name__, e))); return
        diff = [k for k in first if not same(first[k], now[k])]
        if diff:
            k = diff[0]
            res["problems"].append((key, "%s: answer for %s differs from the first answer on the same crystal (%d of %d queries differ); first %s, now %s" %
                                    (stage, k, len(diff), len(first), str(first[k][1] if k[0] == "site" else first[k][0].tolist())[:120],
                                     str(now[k][1] if k[0] == "site" else now[k][0].tolist())[:120])))
    if first and not any(k == "c20-exception" for k, _ in res["problems"]):
        try:
            crys.FullVectorBasis(); crys.FullVectorBasis()
            for c in range(crys.Nchem): crys.FullVectorBasis(c)
        except Exception as e:
            res["problems"].append(("c20-exception", "FullVectorBasis() repeated: %s: %s" % (type(e).__name__, e)))
        compare("after FullVectorBasis() x2 and FullVectorBasis(c)", "c20-history-dependent")
        try:
            from onsager import OnsagerCalc
            from . import gen
            for c in range(crys.Nchem):
                sl = crys.sitelist(c)
                sh = gen.shells(crys, c, nmax=1)
                if not sh: continue
                jn = crys.jumpnetwork(c, sh[0] + 1e-4)
                crys.jumpnetwork2lattice(c, jn)
                if sum(len(t) for t in jn) <= 60:
                    OnsagerCalc.Interstitial(crys, c, sl, jn)
                    if heavy and len(crys.basis[c]) <= 2 and sum(len(t) for t in jn) <= 16 and crys.dim == 3:
                        OnsagerCalc.VacancyMediated(crys, c, sl, jn, 1)
            crys.Wyckoffpos(np.array([0.25, 0.125, 0.375][:dim]))
        except Exception as e:
            res["notes"] = "history calls raised %s: %s" % (type(e).__name__, str(e)[:80])
        compare("after sitelist / jumpnetwork / Interstitial construction", "c20-history-dependent")
        # mutate everything that was returned
        try:
            for (c, i) in first_site:
                vb = crys.VectorBasis((c, i)); tb = crys.SymmTensorBasis((c, i))
                vl = crystal.Crystal.vectlist(vb)
                if isinstance(vb[1], np.ndarray) and vb[1].flags.writeable: vb[1][...] = vb[1] * 7.0 + 1.0
                for v in (vl or []):
                    if v.flags.writeable: v[...] = 3.0
                for t in tb:
                    if t.flags.writeable: t[...] = t * 5.0 - 2.0
            for c in first_fvb:
                VB, VV = crys.FullVectorBasis(c)
                if isinstance(VB, np.ndarray) and VB.size and VB.flags.writeable: VB[...] = 11.0
                if isinstance(VV, np.ndarray) and VV.size and VV.flags.writeable: VV[...] = -4.0
        except Exception as e:
            res["problems"].append(("c20-exception", "mutating returned arrays: %s: %s" % (type(e).__name__, e)))
        compare("after overwriting every returned array in place", "c20-returned-array-aliases-state")
        try:
            fresh = crystal.Crystal(np.array(crys.lattice, copy=True), [[np.array(u, copy=True) for u in lst] for lst in crys.basis], chemistry=list(crys.chemistry))
            if fresh.N == crys.N and len(fresh.G) == len(crys.G) and np.array_equal(fresh.lattice, crys.lattice) and \
                    all(np.array_equal(u, v) for l1, l2 in zip(fresh.basis, crys.basis) for u, v in zip(l1, l2)):
                compare("fresh crystal object built from the same lattice and basis", "c20-differs-from-fresh-crystal", cr=fresh)
                res["fresh_compared"] = True
        except Exception as e:
            res["notes"] = "fresh crystal: %s: %s" % (type(e).__name__, str(e)[:80])
        res["history_checked"] = True
    sd = sg.state_diff(snap0, sg.state_snapshot(crys))
    if sd: res["problems"].append(("c20-crystal-state-changed", "the site-symmetry / jump-network / calculator calls changed the Crystal object: attributes %s" % sd))
    # ---- addbasis with a full orbit keeps the group ------------------------------------------------
    res["addbasis"] = 0
    for u, lst in probes[:2]:
        far = all(np.linalg.norm(crys.lattice @ crystal.inhalf(v - w)) > 0.2 * abs(np.linalg.det(crys.lattice)) ** (1. / dim)
                  for v in lst for at in crys.basis for w in at)
        if not far: continue
        try:
            c2 = crys.addbasis(lst)
        except Exception as e:
            res["problems"].append(("c20-addbasis-exception", "addbasis(Wyckoffpos(%s)): %s: %s" % (u.tolist(), type(e).__name__, e))); continue
        res["addbasis"] += 1
        for key, msg in judge_addbasis(crys, c2, lst):
            res["problems"].append((key, "addbasis(Wyckoffpos(%s)): %s" % (u.tolist(), msg)))
    return res


def judge_addbasis(crys, c2, lst):
    """adding the full orbit `lst` as a new species must keep the threshold, the group, the site point groups of the old sites,
    and the added atoms must form exactly ONE Wyckoff set"""
    bad = []
    if c2.threshold != crys.threshold:
        bad.append(("c20-addbasis-threshold-lost", "threshold %g of the crystal became %g in the new crystal" % (crys.threshold, c2.threshold)))
    r1 = sorted(g.rot.tolist() for g in crys.G); r2 = sorted(g.rot.tolist() for g in c2.G)
    if r1 != r2 or c2.N != crys.N + len(lst):
        bad.append(("c20-addbasis-symmetry-changed", "|G| %d -> %d, atoms %d -> %d" % (len(r1), len(r2), crys.N, c2.N)))
        return bad
    newc = c2.Nchem - 1
    nsets = sum(1 for W in c2.Wyckoff if next(iter(W))[0] == newc)
    if nsets != 1:
        bad.append(("c20-addbasis-orbit-split", "the added orbit of %d sites forms %d Wyckoff sets instead of one" % (len(lst), nsets)))
    for c, atoms in enumerate(crys.basis):
        for i in range(len(atoms)):
            p1 = sorted(g.rot.tolist() for g in crys.pointG[c][i]); p2 = sorted(g.rot.tolist() for g in c2.pointG[c][i])
            if p1 != p2:
                bad.append(("c20-addbasis-pointgroup-changed", "point group of old site (%d,%d): %d -> %d operations" % (c, i, len(p1), len(p2)))); return bad
    return bad


def noisy_case(ck, rng, label, ideal, thr, amp, maxorbit=16, maxadd=1):
    """a crystal with coordinate noise `amp` built with the loosened threshold `thr`: Wyckoffpos must return the complete
    orbit without duplicates (positions equal within the threshold modulo lattice vectors count as one), and adding it
    keeps threshold, group, point groups, one Wyckoff set"""
    from onsager import crystal
    dim = ideal.dim
    res = dict(label=label, crys=repr(ideal), thr=thr, amp=amp, problems=[], probes=0, addbasis=0)
    basis = [[u + amp * np.array([rng.uniform(-1, 1) for _ in range(dim)]) for u in lst] for lst in ideal.basis]
    try:
        noisy = crystal.Crystal(ideal.lattice, basis, threshold=thr)
    except Exception as e:
        res["skip"] = "constructor: %s" % type(e).__name__; return res
    if len(noisy.G) != len(ideal.G) or noisy.N != ideal.N or not np.allclose(noisy.lattice, ideal.lattice):
        res["skip"] = "noise changed the detected symmetry"; return res
    res["noisy"] = repr(noisy)
    grid = [0.0, 0.0, 0.5, 0.25, 1 / 3, 1 / 12, 5 / 12, 0.3, 0.2, 0.1]
    snap0 = sg.state_snapshot(noisy)
    for _ in range(5):
        u = np.array([rng.choice(grid) for _ in range(dim)])
        try:
            lst = noisy.Wyckoffpos(u); want = ideal.Wyckoffpos(u)
        except Exception as e:
            res["problems"].append(("c20-wyckoffpos-exception", "%s: %s" % (type(e).__name__, e))); continue
        res["probes"] += 1
        tol = 3 * thr
        dup = [(i, j) for i in range(len(lst)) for j in range(i) if np.abs(crystal.inhalf(lst[i] - lst[j])).max() < tol]
        if dup:
            i, j = dup[0]
            res["problems"].append(("c20-wyckoffpos-duplicate-periodic-image", "Wyckoffpos(%s) on the noisy crystal (threshold %g, noise %g) lists %d positions, "
                                    "%d pairs coincide modulo a lattice vector, e.g. %s and %s (the ideal orbit has %d)" %
                                    (u.tolist(), thr, amp, len(lst), len(dup), np.round(lst[j], 6).tolist(), np.round(lst[i], 6).tolist(), len(want))))
            continue
        miss = [w for w in want if not any(np.abs(crystal.inhalf(w - v)).max() < tol + 10 * amp for v in lst)]
        if len(lst) != len(want) or miss:
            res["problems"].append(("c20-wyckoffpos-not-orbit", "Wyckoffpos(%s) on the noisy crystal returns %d positions, the orbit has %d (%d not matched)" %
                                    (u.tolist(), len(lst), len(want), len(miss)))); continue
        far = all(np.linalg.norm(noisy.lattice @ crystal.inhalf(v - w)) > 0.2 * abs(np.linalg.det(noisy.lattice)) ** (1. / dim)
                  for v in lst for at in noisy.basis for w in at)
        if not far or res["addbasis"] >= maxadd or len(lst) > maxorbit: continue
        try:
            c2 = noisy.addbasis(lst)
        except Exception as e:
            res["problems"].append(("c20-addbasis-exception", "addbasis(Wyckoffpos(%s)): %s: %s" % (u.tolist(), type(e).__name__, e))); continue
        res["addbasis"] += 1
        for key, msg in judge_addbasis(noisy, c2, lst):
            res["problems"].append((key, "noisy crystal (threshold %g, noise %g), addbasis(Wyckoffpos(%s)): %s" % (thr, amp, u.tolist(), msg)))
    d = sg.state_diff(snap0, sg.state_snapshot(noisy))
    if d: res["problems"].append(("c20-crystal-state-changed", "Wyckoffpos/addbasis changed the Crystal object: attributes %s" % d))
    return res


def special_crystals():
    """crystals whose sites have site symmetries that random pools rarely hit"""
    from onsager import crystal
    a = np.array
    out = []
    x, y, z = 0.25, 1 / 12, 1 / 6
    out.append(("site-S4", crystal.Crystal(np.diag([1., 1., 1.2]), [[a([0., 0, 0])], [a([x, y, z]), a([-x, -y, z]), a([y, -x, -z]), a([-y, x, -z])]])))
    out.append(("site-C3h", crystal.Crystal(a([[1, 0, 0], [-.5, math.sqrt(3) / 2, 0], [0, 0, 1.5]]).T,
                                            [[a([0., 0, 0])], [a([1 / 4, 1 / 12, 0.]), a([-1 / 12, 1 / 6, 0.]), a([-1 / 6, -1 / 4, 0.])]])))
    from . import gen
    for nm in ("hcp-oct-tet", "polar2w", "wurtzite-int"):      # multi-site Wyckoff sets with a 1-dimensional invariant vector space
        out.append((nm, gen.named(nm)[0]))
    out.append(("site-C4-2d", crystal.Crystal(np.eye(2), [[a([0., 0])], [a([1 / 4, 1 / 12]), a([-1 / 12, 1 / 4]), a([-1 / 4, -1 / 12]), a([1 / 12, -1 / 4])]])))
    return out


def run(ck):
    ck.rule = ("(a) every subgroup of O_h (2 lattice settings), D_6h (2 orientations), D_4, D_6 (2 orientations) x operation orderings "
               "(all for order <= 4, else sorted/reversed/random); (b) crystal pool (named + random systems, 2-D/3-D, 1-3 species, 1-3 sites, "
               "1/12 grid, 60% of them in a randomly rotated Cartesian frame) with 3 Wyckoffpos probes each; every subgroup additionally in "
               "rotated frames (cartrot -> Q cartrot Q^T: tilts of 5-38 degrees and generic rotations); distinct = distinct subgroup (setting, set of rotations) or crystal; non-trivial = "
               "subgroup of order > 1 / crystal with more than one atom or a non-trivial group")
    ck.trusted += ["harness/c20.py: exact Fraction linear algebra producing certificates (checked by Coq, not trusted), subgroup generation by "
                   "closure (counts reported), conversion of implementation output to the rational grid",
                   "dimension argument: k orthonormal invariant elements in an invariant space of exact dimension k span it (floats 1e-10)"]
    ck.theorems()
    rng = ck.rng
    ncert = exhaustive(ck, rng)
    # crystals
    cases = []
    from onsager import crystal as _crystal
    rot_failed = []
    def rotated(label, crys, kind):
        """the same crystal in a rotated Cartesian frame (lattice -> Q lattice): a valid input with the same exact data"""
        Q = random_rotation(rng, crys.dim, kind)
        try:
            c2 = _crystal.Crystal(Q @ crys.lattice, [[np.array(u) for u in lst] for lst in crys.basis])
        except Exception as e:
            # constructing the crystal is not part of C20 (cell reduction is C19): counted and noted, not a C20 verdict
            rot_failed.append(label)
            ck.note("Crystal() failed on a rotated lattice (%s: %s) for %s, Q=%s -- outside C20 (cell reduction, C19); skipped" %
                    (type(e).__name__, str(e)[:60], repr(crys)[:200], np.round(Q, 12).tolist()))
            return None
        ex2 = sg.Exact(c2)
        return (label + "|rot-" + kind, c2, ex2) if ex2.ok else None
    nrotc = 0
    for label, crys in special_crystals():
        ex = sg.Exact(crys)
        if not ex.ok: raise RuntimeError("special crystal %s is not rational" % label)
        cases.append(crystal_case(ck, rng, label, crys, ex, heavy=not ck.quick))
        r = rotated(label, crys, "tilt")
        if r is not None: cases.append(crystal_case(ck, rng, r[0], r[1], r[2], heavy=not ck.quick)); nrotc += 1
    for label, crys, chem, ex in sg.pool(rng, ck.n(18, 140), random_frac=0.7, nchem_max=3, maxatoms=3):
        if rng.random() < 0.6:
            r = rotated(label, crys, rng.choice(["tilt", "tilt", "generic"]))
            if r is not None:
                cases.append(crystal_case(ck, rng, r[0], r[1], r[2], heavy=not ck.quick)); nrotc += 1; continue
        cases.append(crystal_case(ck, rng, label, crys, ex, heavy=not ck.quick))
    ck.extra["rotated_crystals"] = nrotc
    # noisy coordinates with a loosened threshold
    from . import gen
    noisy = []
    rutile = _crystal.Crystal(np.diag([1., 1., 0.65]), [[np.array([0., 0, 0]), np.array([.5, .5, .5])],
                                                      [np.array([.3, .3, 0]), np.array([.7, .7, 0]), np.array([.2, .8, .5]), np.array([.8, .2, .5])]])
    srcs = [("hcp", gen.named("hcp")[0]), ("rutile", rutile), ("honeycomb", gen.named("honeycomb")[0]), ("fcc", gen.named("fcc")[0]),
            ("b2", gen.named("b2")[0]), ("sq2w", gen.named("sq2w")[0]), ("diamond", gen.named("diamond")[0]), ("tria", gen.named("tria")[0])]
    rng.shuffle(srcs)
    for label, crys, chem, ex in sg.pool(rng, ck.n(4, 30), random_frac=1.0, nchem_max=2, maxatoms=2):
        srcs.append((label, crys))
    for label, crys in srcs[:ck.n(10, 38)]:
        thr, amp = rng.choice([(1e-4, 1e-5), (1e-4, 1e-5), (1e-3, 1e-4), (1e-5, 1e-6)])
        noisy.append(noisy_case(ck, rng, "noisy-" + label, crys, thr, amp, maxorbit=ck.n(16, 24), maxadd=ck.n(1, 2)))
    for c in noisy:
        if "skip" in c: continue
        ck.case(key=("noisy", c["noisy"], c["thr"]), nontrivial=c["probes"] > 0, kind="noisy-crystal",
                sample={"ideal": c["crys"], "threshold": c["thr"], "noise": c["amp"], "wyckoffpos_probes": c["probes"], "addbasis_checked": c["addbasis"]})
        for key, msg in c["problems"]:
            ck.violation("%s: %s" % (c["label"], msg), {"ideal_crystal": c["crys"], "noisy_crystal": c["noisy"], "threshold": c["thr"], "noise": c["amp"]}, key=key)
    ck.extra["noisy_crystals"] = sum(1 for c in noisy if "skip" not in c)
    ck.extra["noisy_skipped_symmetry_not_detected"] = sum(1 for c in noisy if "skip" in c)
    ck.extra["noisy_addbasis_cases"] = sum(c.get("addbasis", 0) for c in noisy)
    ck.extra["skipped_rotated_constructor_failed"] = len(rot_failed)
    try:
        scodes = run_terms(ck, "sites", [c["site_term"] for c in cases], fn="check_sites", chunk=12, imports=SITE_IMPORTS)
        bterms = [t for c in cases for t in c["basis_terms"]]
        bcodes = run_terms(ck, "sitebases", bterms)
    except CoqFailure as e:
        ck.broken_proof = "correspondence Model/Sites / FixedSpace (crystals): %s" % e
        ck.note("CORRESPONDENCE BROKEN: " + str(e)[:300])
        scodes = [None] * len(cases); bcodes = []
    if any(b != 0 for b in bcodes):
        raise RuntimeError("a site point-group certificate was rejected by the Coq checker")
    meaning = {1: ("c20-wyckoff-sets-not-orbits", "Wyckoff sets are not the orbits of the atoms under G"),
               2: ("c20-pointgroup-wrong", "a site point group does not fix its site exactly or is not the stabiliser of the site"),
               3: ("c20-wyckoffpos-not-orbit", "Wyckoffpos does not return the complete duplicate-free orbit")}
    for c, code in zip(cases, scodes):
        ck.case(key=c["crys"], nontrivial=c["nG"] > 1 or "1]" not in c["crys"][:0], kind="crystal:%dG" % c["nG"],
                sample={"crystal": c["crys"], "|G|": c["nG"], "site_dims(c,i,kvec,ktens)": c.get("dims"), "addbasis_checked": c["addbasis"], "coq_sites_code": code})
        if code not in (0, None):
            key, msg = meaning[code]
            ck.violation("%s: %s" % (c["label"], msg), {"crystal": c["crys"], "coq_code": code}, key=key)
        for key, msg in c["problems"]:
            ck.violation("%s: %s" % (c["label"], msg), {"crystal": c["crys"]}, key=key)
    ck.extra["skipped"] = {"irrational-geometry": sg.pool.rejected}
    ck.extra["certificates_checked_by_coq"] = ncert + len(bcodes)
    ck.extra["traces_validated_against_impl"] = ncert + len([s for s in scodes if s is not None])
    ck.extra["addbasis_cases"] = sum(c["addbasis"] for c in cases)
    ck.extra["crystals_with_history_and_aliasing_requery"] = sum(1 for c in cases if c.get("history_checked"))
    ck.extra["crystals_compared_with_fresh_object"] = sum(1 for c in cases if c.get("fresh_compared"))
