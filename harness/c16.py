"""C16  Taylor-expansion arithmetic commutes with evaluation (onsager/PowerExpansion.py).

Proof: coq/Properties/C16.v (model coq/Model/Taylor.v, proofs coq/Proofs/Taylor_proofs.v) --
index-table bijection / grading / directmult for all dimensions and all Lmax; evaluation commutes
with sum, difference, negation, scalar multiple, every linear map of the coefficients (ldot, rdot,
slices), truncation and -- under the combined-order hypothesis -- the product through every bilinear
map, for every ordered ring and every module (all sizes); reduce / collect / separate and
constructexpansion for the class constant Lmax = 4 (3-D and 2-D) by finite case analysis + ring.

Tie to /repo on every run:
 (T) every table of Taylor3D and Taylor2D (pow2ind, ind2pow, powlrange, Npower, directmult, powercoeff,
     Lproj[0..4] and Lproj[-1]) is compared exhaustively with the model's, inside Coq;
 (X) exact correspondence: random expansions with small dyadic coefficients (scalar and matrix valued,
     2-D and 3-D); every named operation is run on the implementation and on the model (over Qc, inside
     Coq) and the resulting coefficient lists are compared entry by entry (exactly; 1e-12 where the
     implementation's float projector tables enter); Taylor.__call__ is compared with the model's E;
 (F) direct evaluator: random float (also complex) expansions; ONE float ndarray u with |u| != 1 is handed to
     every expansion of an identity (left and right side one after the other, radial functions r^n);
     library value of op(a,b) = op on the library's own values at the same array = op on a definition-level
     power series at a copy of the ORIGINAL point, tolerance 1e-10 * scale;
 (D) dtype matrix: coefficient dtype {int,float,complex} x operand dtype {int,float,complex} (all nine pairs, 2-D and
     3-D, every run) for ldot ildot rdot irdot, scalar multiples, sums and products: exact tier through the real
     embedding of complex numbers (re/im stacked, block matrices) against the same Coq model operations, float tier
     against np.dot(c, T(u)) and the definition-level series;
 (V) value semantics (the model's operations return fresh values): the result of every non-in-place operation shares
     no memory with an operand and mutating it leaves the operands bit-identical; histories: a query repeated on one
     object after an in-place modification equals the query on a fresh copy (keys c16-result-aliases-operand,
     c16-history-*);
 (G) argument guard: every call into the library made by (X) and (F) (powexp, __call__, arithmetic, ldot/rdot,
     slices, reduce..., constructexpansion) must leave its arguments (evaluation point, operands, matrices)
     bit-identical to a snapshot taken before the call (key c16-input-mutated).
Not modelled: float rounding, numpy broadcasting internals, the in-place aliasing behaviour, the
dict-valued scalar arguments, HDF5 I/O (C13)."""
META = dict(
    level="proof",
    text=("Coq theorems: index tables are a graded bijection and directmult is monomial multiplication (all d, all Lmax); "
          "E(sum/diff/neg/scalar/linear map/truncate) and E(a*b)=E(a)E(b) under l_a+l_b<=Lmax for every ordered ring, module and "
          "bilinear map; reduce/collect/separate and constructexpansion for Lmax=4 in 2-D and 3-D. Tie: exhaustive table "
          "comparison, exact dyadic correspondence of every operation inside Coq, float evaluator 1e-10."),
    note=("Full: all theorems of Properties/C16.v are closed under the global context. The reduce/separate/construct theorems are "
          "for the class constant Lmax=4 (finite case analysis); the projector tables of the model are literal rationals read off "
          "the implementation once, proved to have the required property and compared with the implementation's on every run. "
          "Outside the hypothesis l_a+l_b<=Lmax the product is wrong by construction (index -1): proved as "
          "C16_product_order_hypothesis_needed and replayed on the implementation (reported as a note, not a violation: the "
          "property text carries the hypothesis). Not modelled: rounding, dict-valued scalars, in-place aliasing."),
    technique="Coq proof (generic module algebra + finite ring identities) + exact correspondence over Qc",
)

import numpy as np
from fractions import Fraction
from . import taylorcase as tc
from .lib import CoqFailure

FTOL = 1e-10
SHAPES = [(), (), (1, 1), (2, 2), (1, 2), (2, 1), (2, 3), (3, 2)]


# ============================================================================================
# (T) tables
def table_terms(T, d):
    N = int(T.Npower); L = tc.LMAX
    terms = []
    tuples = [t for t in np.ndindex(*((L + 1,) * d))]
    tl = "[" + ";".join("[" + ";".join("%d%%nat" % x for x in t) + "]" for t in tuples) + "]"
    terms.append(("pow2ind", "code true (leqb Z.eqb (map (pow2ind %d 4) %s) %s%%Z)" %
                  (d, tl, tc.zlist([int(T.pow2ind[t]) for t in tuples]))))
    i2p = "[" + ";".join("[" + ";".join("%d%%nat" % int(x) for x in row) + "]" for row in T.ind2pow) + "]"
    terms.append(("ind2pow", "code true (leqb (leqb Nat.eqb) (map (ind2pow %d 4) (seq 0 %d)) %s && leqb (leqb Nat.eqb) (enum %d 4) %s)" %
                  (d, N, i2p, d, i2p)))
    plr = [int(x) for x in T.powlrange]
    terms.append(("powlrange", "code true (leqb Nat.eqb (map (powlrange %d) (seq 0 %d)) [%s] && leqb Nat.eqb (map (plo %d) (seq 0 %d)) [%s] && Nat.eqb (Npower %d 4) %d)" %
                  (d, L + 1, ";".join("%d%%nat" % x for x in plr[:L + 1]),
                   d, L + 2, ";".join("%d%%nat" % int(T.powlrange[l - 1]) for l in range(L + 2)), d, N)))
    dm = "[" + ";".join(tc.zlist([int(x) for x in row]) for row in T.directmult) + "]%Z"
    terms.append(("directmult", "code true (leqb (leqb Z.eqb) (map (fun p0 => map (directmult %d 4 p0) (seq 0 %d)) (seq 0 %d)) %s)" % (d, N, N, dm)))
    pc = T.powercoeff
    assert np.all(pc == np.round(pc))
    pcl = "[" + ";".join(tc.zlist([int(x) for x in row]) for row in pc) + "]%Z"
    terms.append(("powercoeff", "code true (leqb (leqb Z.eqb) (map (fun n => map (powercoeff %d 4 n) (seq 0 %d)) (seq 0 %d)) %s)" % (d, N, L + 1, pcl)))
    D = {3: 840, 2: 8}[d]
    for l0 in list(range(L + 1)) + [-1]:
        M = T.Lproj[l0]
        lit = "(zmatq %d%%positive [%s]%%Z)" % (tc.GRID, ";".join(tc.zlist(tc.grid_ints(row, tc.GRID)) for row in M))
        model = ("(LprojK QK %d (qq 1 %d) %d)" % (d, D, l0)) if l0 >= 0 else ("(LprojKall QK %d 4 (qq 1 %d))" % (d, D))
        terms.append(("Lproj[%d]" % l0, "code (reqb QK (rmul QK (zinj (Dden %d)) (qq 1 %d)) (qq 1 1)) (tabclose (qq 1 10000000000000) %s %s)" % (d, D, model, lit)))
    return terms


def check_tables(ck, Ts):
    meta, terms = [], []
    for d in (3, 2):
        for name, t in table_terms(Ts[d], d):
            meta.append((d, name)); terms.append(t)
    codes = tc.run_codes(ck, "tables", [], terms)
    for (d, name), c in zip(meta, codes):
        ck.case(key=("table", d, name), nontrivial=True, kind="table-%dD" % d,
                sample={"tier": "table", "dim": d, "table": name, "entries": "all (exhaustive)"} if name == "directmult" and d == 2 else None)
        if c != 0:
            ck.violation("table %s of Taylor%dD differs from the model's (code %d)" % (name, d, c),
                         {"dim": d, "table": name, "impl": np.asarray(getattr(Ts[d], name.split("[")[0])).tolist()},
                         key="c16-table-%s" % name.split("[")[0])
    ck.extra["exhaustive"] = True
    ck.extra["tables_compared"] = len(codes)


# ============================================================================================
# (X) exact correspondence
class Batch:
    def __init__(self):
        self.defs, self.terms, self.meta = [], [], []
        self.k = 0

    def define(self, term, typ=None):
        name = "v%d" % self.k; self.k += 1
        self.defs.append("Definition %s%s := %s." % (name, (" : " + typ) if typ else "", term))
        return name

    def add(self, term, **meta):
        self.terms.append(term); self.meta.append(meta)


def xtype(n): return "expansion (pwmod QK %d)" % n


def scenario_linear(rng, T, d, B):
    shape = rng.choice(SHAPES); n = tc.nflat(shape)
    V = "(pwmod QK %d)" % n
    cnt = lambda: rng.choice([0, 1, 2, 2, 3, 4])
    a = tc.rand_expansion(rng, d, shape, tc.rand_nl(rng, -2, 4, 4, cnt(), distinct_n=rng.random() < .5))
    b = tc.rand_expansion(rng, d, shape, tc.rand_nl(rng, -2, 4, 4, cnt(), distinct_n=rng.random() < .5))
    ta, tb = T(a), T(b)
    g = tc.unchanged("exact tier: + - sumcoeff += -= neg scalar truncate", a=ta, b=tb); g.__enter__()
    A = B.define(tc.mkx(n, a), xtype(n)); Bn = B.define(tc.mkx(n, b), xtype(n))
    dom = "(wfb QK %d 4 %s %s && wfb QK %d 4 %s %s)" % (d, V, A, d, V, Bn)
    inp = {"dim": d, "shape": list(shape), "a": tc.jsonable(a), "b": tc.jsonable(b)}

    def emit(op, model, res, extra=None):
        r = tc.real_coefflist(res)
        B.add("code %s (xcmp %d (peqb QK %d) %s %s)" % (dom, n, n, model, tc.mkx(n, r)),
              op=op, inp=dict(inp, **(extra or {})), impl=tc.jsonable(r), dim=d, shape=shape, size=len(a) + len(b))
    emit("a+b", "(sumcoeff QK %s (qq 1 1) %s (qq 1 1) %s)" % (V, A, Bn), ta + tb)
    emit("a-b", "(sumcoeff QK %s (qq 1 1) %s (qq (-1) 1) %s)" % (V, A, Bn), ta - tb)
    al, be = tc.dy(rng), tc.dy(rng)
    emit("sumcoeff(a,b,alpha,beta)", "(sumcoeff QK %s %s %s %s %s)" % (V, tc.qlit(al), A, tc.qlit(be), Bn),
         T.sumcoeff(ta, tb, al, be), {"alpha": al, "beta": be})
    t2 = ta.copy(); t2 += tb
    emit("a+=b", "(sumcoeff QK %s (qq 1 1) %s (qq 1 1) %s)" % (V, A, Bn), t2)
    t3 = ta.copy(); t3 -= tb
    emit("a-=b", "(sumcoeff QK %s (qq 1 1) %s (qq (-1) 1) %s)" % (V, A, Bn), t3)
    emit("-a", "(negcoeff QK %s %s)" % (V, A), -ta)
    k = tc.dy(rng)
    emit("a*k", "(scale QK %s %s %s)" % (V, tc.qlit(k), A), ta * k, {"k": k})
    emit("k*a", "(scale QK %s %s %s)" % (V, tc.qlit(k), A), k * ta, {"k": k})
    N = rng.randint(-2, 4)
    emit("truncate", "(truncate QK %s %s%%Z %s)" % (V, tc.zlit(N), A), ta.truncate(N), {"Nmax": N})
    t4 = ta.copy(); t4.truncate(N, inplace=True)
    emit("truncate-inplace", "(truncate QK %s %s%%Z %s)" % (V, tc.zlit(N), A), t4, {"Nmax": N})
    # the operands must not have been modified (in-place operations were applied to copies)
    g.__exit__(None, None, None)
    return None


def scenario_product(rng, T, d, B, overflow=False):
    kind = rng.choice(["mm", "mm", "sm", "ss"])
    if kind == "mm":
        r, m, c = rng.randint(1, 2), rng.randint(1, 3), rng.randint(1, 2)
        sa, sb, sc = (r, m), (m, c), (r, c)
        mul = "(matmul QK %d %d %d)" % (r, m, c)
    elif kind == "sm":
        sb = rng.choice([(2, 2), (1, 2), (2, 1)]); sa = (); sc = sb
        mul = "(pwscal QK %d)" % tc.nflat(sb)
    else:
        sa = sb = sc = (); mul = "(pwscal QK 1)"
    na, nb, nc = tc.nflat(sa), tc.nflat(sb), tc.nflat(sc)
    if overflow:
        la, lb = rng.choice([(3, 2), (2, 3), (3, 3), (4, 1), (4, 4)])
        nla, nlb = [(rng.randint(0, 3), la)], [(rng.randint(0, 3), lb)]
    else:
        lcap_a = rng.randint(0, 4); lcap_b = 4 - lcap_a
        nla = tc.rand_nl(rng, -2, 4, lcap_a, rng.choice([1, 1, 2, 3]))
        nlb = tc.rand_nl(rng, -2, 4, lcap_b, rng.choice([1, 1, 2, 3]))
        if rng.random() < .08: nla = []
    dens = 0.5 if max(na, nb) <= 2 else 0.35
    a = tc.rand_expansion(rng, d, sa, nla, density=dens); b = tc.rand_expansion(rng, d, sb, nlb, density=dens)
    ta, tb = T(a), T(b)
    with tc.unchanged("exact tier: a*b", a=ta, b=tb): res = tc.real_coefflist(ta * tb)
    A = B.define(tc.mkx(na, a), xtype(na)); Bn = B.define(tc.mkx(nb, b), xtype(nb))
    dom = "(wfb QK %d 4 (pwmod QK %d) %s && wfb QK %d 4 (pwmod QK %d) %s)" % (d, na, A, d, nb, Bn)
    B.add("code %s (xcmp %d (peqb QK %d) (coeffproduct QK %d 4 (pwmod QK %d) (pwmod QK %d) (pwmod QK %d) %s %s %s) %s)" %
          (dom, nc, nc, d, na, nb, nc, mul, A, Bn, tc.mkx(nc, res)),
          op="a*b" + ("-overflow(l_a+l_b>Lmax: outside the property, model still faithful)" if overflow else ""),
          inp={"dim": d, "shape_a": list(sa), "shape_b": list(sb), "a": tc.jsonable(a), "b": tc.jsonable(b)},
          impl=tc.jsonable(res), dim=d, shape=sc, size=len(a) * len(b), overflow=overflow)


def scenario_linmap(rng, T, d, B):
    r, m = rng.randint(1, 3), rng.randint(1, 3)
    shape = (r, m); n = r * m
    a = tc.rand_expansion(rng, d, shape, tc.rand_nl(rng, -2, 4, 4, rng.choice([1, 2, 3])), density=0.4)
    ta = T(a)
    A = B.define(tc.mkx(n, a), xtype(n))
    dom = "(wfb QK %d 4 (pwmod QK %d) %s)" % (d, n, A)
    inp = {"dim": d, "shape": [r, m], "a": tc.jsonable(a)}
    q = rng.randint(1, 3)
    C = np.array([[tc.dy(rng) for _ in range(r)] for _ in range(q)])
    with tc.unchanged("exact tier: ldot", a=ta, C=C): res = tc.real_coefflist(ta.ldot(C))
    B.add("code %s (xcmp %d (peqb QK %d) (mapcoeff QK (pwmod QK %d) (pwmod QK %d) (fun b => matmul QK %d %d %d %s b) %s) %s)" %
          (dom, q * m, q * m, n, q * m, q, r, m, tc.mkv(q * r, C), A, tc.mkx(q * m, res)),
          op="ldot", inp=dict(inp, C=C.tolist()), impl=tc.jsonable(res), dim=d, shape=(q, m), size=len(a))
    C2 = np.array([[tc.dy(rng) for _ in range(q)] for _ in range(m)])
    with tc.unchanged("exact tier: rdot", a=ta, C=C2): res = tc.real_coefflist(ta.rdot(C2))
    B.add("code %s (xcmp %d (peqb QK %d) (mapcoeff QK (pwmod QK %d) (pwmod QK %d) (fun b => matmul QK %d %d %d b %s) %s) %s)" %
          (dom, r * q, r * q, n, r * q, r, m, q, tc.mkv(m * q, C2), A, tc.mkx(r * q, res)),
          op="rdot", inp=dict(inp, C=C2.tolist()), impl=tc.jsonable(res), dim=d, shape=(r, q), size=len(a))
    keys = [(rng.randrange(r), rng.randrange(m)), (rng.randrange(r),), (slice(None), rng.randrange(m)),
            (slice(0, 1), slice(None)), (slice(None), slice(m - 1, m))]
    key = rng.choice(keys)
    idx, oshape = tc.flat_index(shape, key)
    res = tc.real_coefflist(ta[key if len(key) > 1 else key[0]])
    no = tc.nflat(oshape)
    B.add("code %s (xcmp %d (peqb QK %d) (mapcoeff QK (pwmod QK %d) (pwmod QK %d) (pselect QK %d %d [%s]) %s) %s)" %
          (dom, no, no, n, no, n, no, ";".join("%d%%nat" % i for i in idx), A, tc.mkx(no, res)),
          op="getitem", inp=dict(inp, key=repr(key)), impl=tc.jsonable(res), dim=d, shape=oshape, size=len(a))


def scenario_construct(rng, T, d, B):
    shape = rng.choice([(1, 1), (2, 2), (1, 2)]); n = tc.nflat(shape)
    nb = rng.randint(1, 3)
    basis = [(np.array([[tc.dy(rng) for _ in range(shape[1])] for _ in range(shape[0])]),
              np.array([tc.dy(rng, 1, 2) for _ in range(d)])) for _ in range(nb)]
    N = rng.choice([-1, 0, 1, 2, 3, 4])
    pre = None if rng.random() < .3 else [tc.dy(rng, 1, 2) for _ in range((N if N >= 0 else 4) + 1)]
    with tc.unchanged("exact tier: constructexpansion", basis=[x for cv in basis for x in cv], pre=pre):
        out = T.constructexpansion(basis, N, pre)
    res = tc.real_coefflist([c[0] for c in out])
    Nn = N if N >= 0 else 4
    prel = pre if pre is not None else [1.0] * (Nn + 1)
    bl = "[" + ";".join("(%s, %s)" % (tc.mkv(n, co), tc.qlist(v)) for co, v in basis) + "]"
    B.add("code true (xcmp %d (peqb QK %d) (construct QK %d 4 (pwmod QK %d) %s %d (fun n => nth n %s (qq 0 1))) %s)" %
          (n, n, d, n, bl, Nn, tc.qlist(prel), tc.mkx(n, res)),
          op="constructexpansion", inp={"dim": d, "basis": [[co.tolist(), v.tolist()] for co, v in basis], "N": N, "pre": pre},
          impl=tc.jsonable(res), dim=d, shape=shape, size=nb)


def scenario_reduce(rng, T, d, B):
    shape = rng.choice([(), (), (1, 1), (2, 2), (1, 2)]); n = tc.nflat(shape)
    V = "(pwmod QK %d)" % n
    D = {3: 840, 2: 8}[d]
    nl = tc.rand_nl(rng, 0, 4, 4, rng.choice([1, 2, 3, 4]))
    a = tc.rand_expansion(rng, d, shape, nl, density=0.35, force=rng.random() < .7)
    # sometimes plant (x.x) g  or  (x.x - 1) g  so that the projection really lowers l / annihilates an entry
    ex = tc.exponents(d, tc.LMAX); pos = {e: i for i, e in enumerate(ex)}
    for j, (nn, l, c) in enumerate(a):
        if l >= 2 and rng.random() < .5:
            mode = rng.choice(["r2g", "(r2-1)g"])
            c2 = np.zeros_like(c)
            for e in tc.exponents(d, l - 2):
                if rng.random() < .5:
                    g = tc.rand_coeff(rng, d, 0, shape, density=1.0, force=False)[0]
                    for i in range(d):
                        e2 = tuple(x + (2 if k == i else 0) for k, x in enumerate(e))
                        c2[pos[e2]] += g
                    if mode == "(r2-1)g": c2[pos[e]] -= g
            a[j] = (nn, l, c2 if rng.random() < .6 else c + c2)
    A = B.define(tc.mkx(n, a), xtype(n))
    P = "(LprojKall QK %d 4 (qq 1 %d))" % (d, D); Pl = "(LprojK QK %d (qq 1 %d))" % (d, D)
    dom = "(wfb QK %d 4 %s %s)" % (d, V, A)
    inp = {"dim": d, "shape": list(shape), "a": tc.jsonable(a)}
    tol = "(qq 1 1000000000000)"

    def emit(op, model, res):
        r = tc.real_coefflist(res)
        B.add("code %s (xcmp %d (pclose %d %s) %s %s)" % (dom, n, n, tol, model, tc.mkx_grid(n, r)),
              op=op, inp=inp, impl=tc.jsonable(r), dim=d, shape=shape, size=len(a), tol=1e-12)
    emit("reducecoeff", "(reducecoeff QK %d %s %s %s)" % (d, V, P, A), T.reducecoeff(T(a)))
    emit("collectcoeff", "(collectcoeff QK %s %s %s)" % (V, P, A), T.collectcoeff(T(a)))
    emit("reduce", "(reduce QK %d %s %s %s)" % (d, V, P, A), T(a).reduce())
    emit("separate", "(separatecoeff QK %d %s %s %s)" % (d, V, Pl, A), T(a).separate())
    emit("reduce.separate", "(separatecoeff QK %d %s %s (reduce QK %d %s %s %s))" % (d, V, Pl, d, V, P, A), T(a).reduce().separate())


def scenario_dtypes(rng, T, d, B, ck, cdt=None, mdt=None):
    """coefficient dtype {int,float,complex} x operand dtype {int,float,complex} for every operation that takes a matrix, a
    scalar or a second expansion; complex values go to the (real) model through the real embedding (re/im stacked, complex
    matrices as real block matrices), so a lost imaginary part or an integer truncation is a coefficient mismatch"""
    cdt = cdt or rng.choice(tc.DTYPES); mdt = mdt or rng.choice(tc.DTYPES)
    r, m, q = rng.randint(1, 2), rng.randint(1, 2), rng.randint(1, 2)
    if rng.random() < .2: r = m = 1
    nl = tc.rand_nl(rng, -2, 4, 2 if d == 3 else 3, rng.choice([1, 2, 3]))
    a = tc.typed_expansion(rng, d, (r, m), nl, cdt)
    n = r * m
    inp = {"dim": d, "shape": [r, m], "coef_dtype": cdt, "operand_dtype": mdt,
           "a": [[nn, l, repr(np.asarray(c).tolist())] for nn, l, c in a]}
    Av = B.define(tc.mkx(2 * n, tc.vstackc(a)), xtype(2 * n))
    Ah = B.define(tc.mkx(2 * n, tc.hstackc(a)), xtype(2 * n))
    Af = B.define(tc.mkx(2 * n, tc.fstackc(a)), xtype(2 * n))

    def attempt(op, f, key=None):
        try:
            return f()
        except (ArithmeticError, ValueError, TypeError, IndexError) as e:
            kk = key or ("c16-dtype-exception-%s" % op)
            cnt = ck.extra.setdefault("dtype_exceptions", {}); cnt[kk] = cnt.get(kk, 0) + 1
            if cnt[kk] > 3: return None                      # all counted, three replays per class are enough
            ck.violation("Taylor%dD: %s with %s coefficients and a %s operand raises %s: %s" % (d, op, cdt, mdt, type(e).__name__, str(e)[:140]),
                         dict(inp, op=op), key=key or ("c16-dtype-exception-%s" % op))
            return None

    def emit(op, nout, model, stacked, extra):
        B.add("code true (xcmp %d (peqb QK %d) %s %s)" % (nout, nout, model, tc.mkx(nout, stacked)),
              op="%s[%s coeff, %s operand]" % (op, cdt, mdt), inp=dict(inp, **extra), impl=tc.jsonable(stacked),
              dim=d, shape=(r, m), size=len(a))
    # --- left / right multiplication by a matrix
    C = tc.rand_typed(rng, mdt, (q, r)); CB = tc.mkv(4 * q * r, tc.block_l(C))
    for op in ("ldot", "ildot"):
        t = T(a)
        with tc.unchanged("dtype " + op, C=C):
            res = attempt(op, (lambda: t.ldot(C)) if op == "ldot" else (lambda: t.ildot(C)))
        if res is not None:
            emit(op, 2 * q * m, "(mapcoeff QK (pwmod QK %d) (pwmod QK %d) (fun b => matmul QK %d %d %d %s b) %s)" % (2 * n, 2 * q * m, 2 * q, 2 * r, m, CB, Av),
                 tc.vstackc(res.coefflist), {"C": repr(np.asarray(C).tolist())})
    C2 = tc.rand_typed(rng, mdt, (m, q)); CB2 = tc.mkv(4 * m * q, tc.block_r(C2))
    for op in ("rdot", "irdot"):
        t = T(a)
        with tc.unchanged("dtype " + op, C=C2):
            res = attempt(op, (lambda: t.rdot(C2)) if op == "rdot" else (lambda: t.irdot(C2)))
        if res is not None:
            emit(op, 2 * r * q, "(mapcoeff QK (pwmod QK %d) (pwmod QK %d) (fun b => matmul QK %d %d %d b %s) %s)" % (2 * n, 2 * r * q, r, 2 * m, 2 * q, CB2, Ah),
                 tc.hstackc(res.coefflist), {"C": repr(np.asarray(C2).tolist())})
    # --- scalar (python scalar and numpy scalar)
    k = tc.rand_typed(rng, mdt, ())
    kp = {"int": int, "float": float, "complex": complex}[mdt](k)
    KB = tc.mkv(4, tc.block_l(np.array([[kp]])))
    for op, f in (("k*a", lambda: kp * T(a)), ("a*k", lambda: T(a) * kp), ("a*numpy_scalar", lambda: T(a) * k)):
        res = attempt(op, f)
        if res is not None:
            emit(op, 2 * n, "(mapcoeff QK (pwmod QK %d) (pwmod QK %d) (fun b => matmul QK 2 2 %d %s b) %s)" % (2 * n, 2 * n, n, KB, Af),
                 tc.fstackc(res.coefflist), {"k": repr(kp)})
    # --- sum / difference with an expansion of the other dtype (orders overlap so that entries are merged)
    nlb = [(nn, rng.randint(0, 2 if d == 3 else 3)) for nn, _ in nl[:2]] + tc.rand_nl(rng, -2, 4, 2, 1)
    seen = set(); nlb = [x for x in nlb if not (x in seen or seen.add(x))]
    b = tc.typed_expansion(rng, d, (r, m), nlb, mdt)
    Bf = B.define(tc.mkx(2 * n, tc.fstackc(b)), xtype(2 * n))
    inb = {"b": [[nn, l, repr(np.asarray(c).tolist())] for nn, l, c in b]}
    for op, beta, f in (("a+b", "(qq 1 1)", lambda: T(a) + T(b)), ("a-b", "(qq (-1) 1)", lambda: T(a) - T(b))):
        res = attempt(op, f, key="c16-sum-mixed-dtype")
        if res is not None:
            emit(op, 2 * n, "(sumcoeff QK (pwmod QK %d) (qq 1 1) %s %s %s)" % (2 * n, Af, beta, Bf), tc.fstackc(res.coefflist), inb)
    t = T(a)
    res = attempt("a+=b", lambda: t.__iadd__(T(b)), key="c16-sum-mixed-dtype")
    if res is not None:
        emit("a+=b", 2 * n, "(sumcoeff QK (pwmod QK %d) (qq 1 1) %s (qq 1 1) %s)" % (2 * n, Af, Bf), tc.fstackc(res.coefflist), inb)
    # --- product of expansions of the two dtypes (matrix product; l_a + l_b <= Lmax)
    lcap = 4 - max(l for _, l in nl)
    b2 = tc.typed_expansion(rng, d, (m, q), tc.rand_nl(rng, -2, 4, min(lcap, 2), rng.choice([1, 2])), mdt)
    res = attempt("a*b", lambda: T(a) * T(b2))
    if res is not None:
        # (re, im) of a complex matrix product through the real block embedding: [re;im](a b) = block_l(a) [re;im](b)
        Ab = B.define(tc.mkx(4 * n, [(nn, l, np.array([tc.block_l(x) for x in tc.as3(c)])) for nn, l, c in a]), xtype(4 * n))
        Bv = B.define(tc.mkx(2 * m * q, tc.vstackc(b2)), xtype(2 * m * q))
        emit("a*b", 2 * r * q, "(coeffproduct QK %d 4 (pwmod QK %d) (pwmod QK %d) (pwmod QK %d) (matmul QK %d %d %d) %s %s)"
             % (d, 4 * n, 2 * m * q, 2 * r * q, 2 * r, 2 * m, q, Ab, Bv), tc.vstackc(res.coefflist),
             {"b": [[nn, l, repr(np.asarray(c).tolist())] for nn, l, c in b2]})


def scenario_empty(rng, T, d, B):
    """EMPTY expansions (Taylor(), and an expansion reduced to nothing by reduce()) as left and as right operand of every binary
    and in-place operation, and as the object of every unary one; model: the empty list"""
    r, m, q = rng.randint(1, 2), rng.randint(1, 2), rng.randint(1, 2)
    shape = (r, m); n = r * m
    V = "(pwmod QK %d)" % n
    b = tc.rand_expansion(rng, d, shape, tc.rand_nl(rng, -2, 4, 3, rng.choice([1, 2, 3])), density=0.5)
    b2 = tc.rand_expansion(rng, d, (m, q), tc.rand_nl(rng, -2, 4, 1, rng.choice([1, 2])), density=0.5)
    Bn = B.define(tc.mkx(n, b), xtype(n)); B2 = B.define(tc.mkx(m * q, b2), xtype(m * q))
    En = B.define("[]", xtype(n)); Emq = B.define("[]", xtype(m * q))
    # an expansion that reduce() annihilates: (x.x - 1) g
    ex = tc.exponents(d, tc.LMAX); pos = {e: i for i, e in enumerate(ex)}
    z = np.zeros((tc.npow_count(d, 2),) + shape); g = tc.rand_coeff(rng, d, 0, shape, density=1.0)[0]
    for i in range(d): z[pos[tuple(2 if j == i else 0 for j in range(d))]] += g
    z[0] -= g
    kinds = [("Taylor()", lambda: T()), ("reduced-to-nothing", lambda: T([(2, 2, z)]).reduce())]
    C = np.array([[tc.dy(rng) for _ in range(r)] for _ in range(q)]); k = tc.dy(rng); al, be = tc.dy(rng), tc.dy(rng)
    one, mone = "(qq 1 1)", "(qq (-1) 1)"
    for kname, mk in kinds:
        if len(mk().coefflist) != 0: raise RuntimeError("harness: %s is not empty" % kname)
        tb = T(b)

        def inplace(f):
            x = f[0](); f[1](x); return x
        cases = [("e+b", lambda: mk() + tb, n, "(sumcoeff QK %s %s %s %s %s)" % (V, one, En, one, Bn)),
                 ("b+e", lambda: tb + mk(), n, "(sumcoeff QK %s %s %s %s %s)" % (V, one, Bn, one, En)),
                 ("e-b", lambda: mk() - tb, n, "(sumcoeff QK %s %s %s %s %s)" % (V, one, En, mone, Bn)),
                 ("b-e", lambda: tb - mk(), n, "(sumcoeff QK %s %s %s %s %s)" % (V, one, Bn, mone, En)),
                 ("e+=b", lambda: inplace((mk, lambda x: x.__iadd__(tb))), n, "(sumcoeff QK %s %s %s %s %s)" % (V, one, En, one, Bn)),
                 ("e-=b", lambda: inplace((mk, lambda x: x.__isub__(tb))), n, "(sumcoeff QK %s %s %s %s %s)" % (V, one, En, mone, Bn)),
                 ("b+=e", lambda: inplace((tb.copy, lambda x: x.__iadd__(mk()))), n, "(sumcoeff QK %s %s %s %s %s)" % (V, one, Bn, one, En)),
                 ("b-=e", lambda: inplace((tb.copy, lambda x: x.__isub__(mk()))), n, "(sumcoeff QK %s %s %s %s %s)" % (V, one, Bn, mone, En)),
                 ("sumcoeff(e,b,alpha,beta)", lambda: T(T.sumcoeff(mk(), tb, al, be)), n, "(sumcoeff QK %s %s %s %s %s)" % (V, tc.qlit(al), En, tc.qlit(be), Bn)),
                 ("sumcoeff(b,e,alpha,beta)", lambda: T(T.sumcoeff(tb, mk(), al, be)), n, "(sumcoeff QK %s %s %s %s %s)" % (V, tc.qlit(al), Bn, tc.qlit(be), En)),
                 ("sumcoeff(e,b,alpha,beta,inplace)", lambda: T(T.sumcoeff(mk().coefflist, tb, al, be, inplace=True)), n, "(sumcoeff QK %s %s %s %s %s)" % (V, tc.qlit(al), En, tc.qlit(be), Bn)),
                 ("e+e", lambda: mk() + mk(), n, "(sumcoeff QK %s %s %s %s %s)" % (V, one, En, one, En)),
                 ("e*b2", lambda: mk() * T(b2), r * q, "(coeffproduct QK %d 4 %s (pwmod QK %d) (pwmod QK %d) (matmul QK %d %d %d) %s %s)" % (d, V, m * q, r * q, r, m, q, En, B2)),
                 ("b*e", lambda: tb * mk(), r * q, "(coeffproduct QK %d 4 %s (pwmod QK %d) (pwmod QK %d) (matmul QK %d %d %d) %s %s)" % (d, V, m * q, r * q, r, m, q, Bn, Emq)),
                 ("e.ldot(C)", lambda: mk().ldot(C), q * m, "(mapcoeff QK %s (pwmod QK %d) (fun x => matmul QK %d %d %d %s x) %s)" % (V, q * m, q, r, m, tc.mkv(q * r, C), En)),
                 ("e.ildot(C)", lambda: mk().ildot(C), q * m, "(mapcoeff QK %s (pwmod QK %d) (fun x => matmul QK %d %d %d %s x) %s)" % (V, q * m, q, r, m, tc.mkv(q * r, C), En)),
                 ("-e", lambda: -mk(), n, "(negcoeff QK %s %s)" % (V, En)), ("e*k", lambda: mk() * k, n, "(scale QK %s %s %s)" % (V, tc.qlit(k), En)),
                 ("k*e", lambda: k * mk(), n, "(scale QK %s %s %s)" % (V, tc.qlit(k), En)), ("e.truncate(1)", lambda: mk().truncate(1), n, "(truncate QK %s 1%%Z %s)" % (V, En)),
                 ("e.copy()", lambda: mk().copy(), n, En), ("e.reduce()", lambda: mk().reduce(), n, En), ("e.separate()", lambda: mk().separate(), n, En)]
        for op, f, nout, model in cases:
            res = tc.real_coefflist(f())
            B.add("code true (xcmp %d (peqb QK %d) %s %s)" % (nout, nout, model, tc.mkx(nout, res)),
                  op="%s[e=%s]" % (op, kname), inp={"dim": d, "shape": [r, m], "b": tc.jsonable(b), "alpha": al, "beta": be, "k": k, "C": C.tolist()},
                  impl=tc.jsonable(res) if res else [[0, 0, [1]]], dim=d, shape=shape, size=1)
        # evaluation of the empty expansion is 0
        u = np.array([1.5, -0.5, 0.25][:d])
        v = tc.impl_value(mk(), u)
        if not np.all(np.asarray(v) == 0): raise ArithmeticError("empty expansion evaluates to %r" % (v,))


def scenario_eval(rng, T, d, B):
    shape = rng.choice(SHAPES); n = tc.nflat(shape)
    V = "(pwmod QK %d)" % n
    a = tc.rand_expansion(rng, d, shape, tc.rand_nl(rng, -2, 4, 4, rng.choice([1, 2, 3, 4])), density=0.5)
    while True:
        u = np.array([tc.dy(rng, 2, 2) for _ in range(d)])
        if np.dot(u, u) > 0.05 and abs(np.dot(u, u) - 1.0) > 0.05: break      # never a unit vector
    uorig = u.copy()                                     # the ORIGINAL point: everything on the model side uses this copy
    ta = T(a)
    val = np.asarray(tc.impl_value(ta, u), dtype=float)   # the library gets the caller's array itself
    val2 = np.asarray(tc.impl_value(ta, u), dtype=float)  # ... and a second evaluation at the same array must agree
    # the direction at which the implementation is meant to evaluate: powexp's own float normalisation of the original point
    umagn = np.sqrt(np.dot(uorig, uorig)); u0 = uorig.copy(); u0 /= umagn
    scale = 1.0 + sum(float(umagn) ** nn * float(np.abs(c).sum()) for nn, l, c in a)
    tol = Fraction(FTOL * scale)
    A = B.define(tc.mkx(n, a), xtype(n))
    for tag, v in (("__call__", val), ("__call__(same array again)", val2)):
        B.add("code (wfb QK %d 4 %s %s) (pclose %d %s (E QK %d 4 %s (radq %s) %s %s) %s)" %
              (d, V, A, n, tc.qlit(tol), d, V, tc.qlit(Fraction(float(umagn))), tc.qlist([Fraction(float(x)) for x in u0]), A,
               tc.mkv_grid(n, v)),
              op=tag, inp={"dim": d, "shape": list(shape), "a": tc.jsonable(a), "u": uorig.tolist()}, impl=v.tolist(),
              dim=d, shape=shape, size=len(a), tol=FTOL * scale)
    # powexp(u, normalize=False) is exact on dyadic input; powexp(u) (normalising) must return |u| and leave u alone
    with tc.unchanged("powexp(normalize=False)", u=u): pe = T.powexp(u, normalize=False)
    B.add("code true (leqb (reqb QK) (powexp %d 4 %s) (map (qd %d%%positive) %s%%Z))" %
          (d, tc.qlist(uorig), tc.common_den([pe]), tc.zlist(tc.ints(pe, tc.common_den([pe])))),
          op="powexp", inp={"dim": d, "u": uorig.tolist()}, impl=pe.tolist(), dim=d, shape=(), size=1)
    with tc.unchanged("powexp(normalize=True)", u=u): pn, mag = T.powexp(u)
    B.add("code true (qclose (qq 1 1000000000000) %s %s && leqb (qclose (qq 1 1000000000000)) (powexp %d 4 %s) (map (qd %d%%positive) %s%%Z))" %
          (tc.qlit(Fraction(float(mag))), tc.qlit(Fraction(float(umagn))), d, tc.qlist([Fraction(float(x)) for x in u0]),
           tc.GRID, tc.zlist(tc.grid_ints(pn, tc.GRID))),
          op="powexp-normalised", inp={"dim": d, "u": uorig.tolist()}, impl=pn.tolist(), dim=d, shape=(), size=1)


def exact_tier(ck, Ts):
    rng = ck.rng
    ngroups = ck.n(44, 900)
    B = Batch()
    aliasing = []
    plan = (["linear"] * 3 + ["product"] * 4 + ["linmap"] * 2 + ["construct"] + ["reduce"] * 2 + ["eval"] * 2 + ["overflow"])
    for g in range(ngroups):
        d = rng.choice([3, 3, 2]); T = Ts[d]
        sc = plan[g % len(plan)] if g < 2 * len(plan) else rng.choice(plan)
        try:
            if sc == "linear":
                msg = scenario_linear(rng, T, d, B)
                if msg: aliasing.append((d, msg))
            elif sc == "product": scenario_product(rng, T, d, B)
            elif sc == "overflow": scenario_product(rng, T, d, B, overflow=True)
            elif sc == "linmap": scenario_linmap(rng, T, d, B)
            elif sc == "construct": scenario_construct(rng, T, d, B)
            elif sc == "reduce": scenario_reduce(rng, T, d, B)
            elif sc == "dtypes": scenario_dtypes(rng, T, d, B, ck)
            else: scenario_eval(rng, T, d, B)
        except (ArithmeticError, ValueError, TypeError, IndexError) as e:
            # an exception of the implementation on an input inside the property's domain
            ck.violation("implementation raised %s: %s in scenario %s" % (type(e).__name__, e, sc),
                         {"scenario": sc, "dim": d, "group": g, "seed": ck.seed}, key="c16-exception-%s" % sc)
    # empty operands, systematically, 3-D and 2-D
    for rep in range(ck.n(1, 8)):
        for d in (3, 2):
            try:
                scenario_empty(rng, Ts[d], d, B)
            except (ArithmeticError, ValueError, TypeError, IndexError) as e:
                ck.violation("implementation raised %s: %s with an empty expansion as operand" % (type(e).__name__, e), {"dim": d}, key="c16-exception-empty")
    # the full dtype matrix, systematically: every (coefficient dtype, operand dtype) pair, 3-D and 2-D
    import itertools as _it
    for rep in range(ck.n(1, 6)):
        for i, (cdt, mdt) in enumerate(_it.product(tc.DTYPES, tc.DTYPES)):
            for d in ((3, 2) if (not ck.quick or True) else (3,)):
                try:
                    scenario_dtypes(rng, Ts[d], d, B, ck, cdt, mdt)
                except (ArithmeticError, ValueError, TypeError, IndexError) as e:
                    ck.violation("implementation raised %s: %s in the dtype matrix (%s coefficients, %s operand)" % (type(e).__name__, e, cdt, mdt),
                                 {"dim": d, "coef_dtype": cdt, "operand_dtype": mdt}, key="c16-exception-dtypes")
    for d, msg in aliasing:
        ck.violation(msg, {"dim": d}, key="c16-operand-modified")
    # evaluate in chunks (definitions are shared, so a chunk = the whole defs + a slice of terms)
    try:
        codes = []
        per = 70
        for a in range(0, len(B.terms), per):
            # only the definitions used by this slice
            used = set()
            import re as _re
            for t in B.terms[a:a + per]: used.update(_re.findall(r"\bv\d+\b", t))
            defs = [dl for dl in B.defs if dl.split()[1] in used]
            codes += tc.run_codes(ck, "ops%d" % a, defs, B.terms[a:a + per], chunk=per)
    except CoqFailure as e:
        ck.broken_proof = "correspondence Model/Taylor (operations): %s" % e
        codes = []
    nsamp = 0
    for meta, c in zip(B.meta, codes):
        key = (meta["op"], meta["inp"])
        nontriv = meta["size"] >= 1 and any(np.any(np.asarray(e[2]) != 0) for e in (meta["impl"] if isinstance(meta["impl"], list) and meta["impl"] and isinstance(meta["impl"][0], list) and len(meta["impl"][0]) == 3 else [[0, 0, meta["impl"]]]))
        samp = None
        if nsamp < 3 and meta["op"] in ("a*b", "reduce", "ldot") and nontriv:
            samp = {"tier": "exact", "op": meta["op"], "input": meta["inp"], "impl_result": meta["impl"]}; nsamp += 1
        ck.case(key=key, nontrivial=bool(nontriv), kind="exact:%s:%dD:%s" % (meta["op"].split("(")[0], meta["dim"], "scalar" if meta["shape"] == () else "matrix"), sample=samp)
        if c == 1:
            raise RuntimeError("harness generated an input outside the model's domain: %r" % (meta["op"],))
        if c != 0:
            ck.violation("exact correspondence: %s of Taylor%dD differs from the model" % (meta["op"], meta["dim"]),
                         {"op": meta["op"], "input": meta["inp"], "impl_result": meta["impl"], "model_code": c,
                          "tolerance": meta.get("tol", 0)}, key="c16-exact-%s" % meta["op"].split("(")[0].split("[")[0])
    ck.extra["exact_cases"] = len(codes)
    ck.extra["traces_validated_against_impl"] = len(codes)


# ============================================================================================
# (F) direct float evaluator
def rand_float_expansion(nr, d, shape, nl, cplx):
    out = []
    for n, l in nl:
        sh = (tc.npow_count(d, l),) + tuple(shape)
        c = nr.normal(size=sh)
        if cplx: c = c + 1j * nr.normal(size=sh)
        out.append((n, l, c))
    return out


def absscale(cl, r):
    return sum(r ** n * float(np.abs(c).sum()) for n, l, c in cl)


def float_tier(ck, Ts):
    """Every identity is evaluated the way a user does it: ONE float ndarray u with |u| != 1 is handed to every
    expansion, left- and right-hand side one after the other, with the magnitude-dependent radial functions r^n.
    lhs = library value of op(a, b) at u;  rhs_lib = op applied to the library values of a, b at the same array u;
    rhs_def = op applied to the definition-level power series at a COPY of the original point.  All three must agree,
    and no call may have changed u, the operands or the matrices (tc.unchanged)."""
    rng = ck.rng
    nr = ck.nprng(16)
    ntr = ck.n(120, 6000)
    worst = 0.0
    nsamp = 0
    ev = tc.impl_value
    for it in range(ntr):
        d = rng.choice([3, 2]); T = Ts[d]
        cplx = rng.random() < .3
        u = nr.normal(size=d); u *= rng.choice([rng.uniform(0.4, 0.8), rng.uniform(1.25, 2.5)]) / np.linalg.norm(u)   # |u| != 1
        uorig = u.copy()
        r = float(np.linalg.norm(uorig))
        op = rng.choice(["sum", "diff", "neg", "scalar", "ldot", "rdot", "product", "product-sm", "slice", "setitem", "truncate",
                         "reduce", "reducecoeff", "collectcoeff", "separate", "construct", "powexp", "dtypes", "dtypes", "empty", "unsorted"])
        checks = []          # (label, lhs, rhs_def, rhs_lib or None, scale)
        try:
            if op in ("sum", "diff", "neg", "scalar", "truncate", "slice", "setitem"):
                shape = rng.choice([(), (2, 2), (2, 3), (1, 1)])
                a = rand_float_expansion(nr, d, shape, tc.rand_nl(rng, -2, 4, 4, rng.randint(1, 4)), cplx)
                b = rand_float_expansion(nr, d, shape, tc.rand_nl(rng, -2, 4, 4, rng.randint(1, 4)), cplx)
                ta, tb = T(a), T(b)
                va, vb = tc.value(a, uorig, d), tc.value(b, uorig, d)
                sc = 1 + absscale(a, r) + absscale(b, r)
                if op == "sum":
                    with tc.unchanged("a+b", a=ta, b=tb): t = ta + tb
                    checks.append(("a+b", ev(t, u), va + vb, ev(ta, u) + ev(tb, u), sc))
                    al, be = nr.normal(), nr.normal()
                    with tc.unchanged("sumcoeff", a=ta, b=tb): t = T(T.sumcoeff(ta, tb, al, be))
                    checks.append(("sumcoeff", ev(t, u), al * va + be * vb, al * ev(ta, u) + be * ev(tb, u), sc * (1 + abs(al) + abs(be))))
                    t = ta.copy()
                    with tc.unchanged("a+=b", b=tb): t += tb
                    checks.append(("a+=b", ev(t, u), va + vb, ev(ta, u) + ev(tb, u), sc))
                elif op == "diff":
                    with tc.unchanged("a-b", a=ta, b=tb): t = ta - tb
                    checks.append(("a-b", ev(t, u), va - vb, ev(ta, u) - ev(tb, u), sc))
                    t = ta.copy()
                    with tc.unchanged("a-=b", b=tb): t -= tb
                    checks.append(("a-=b", ev(t, u), va - vb, ev(ta, u) - ev(tb, u), sc))
                elif op == "neg":
                    with tc.unchanged("-a", a=ta): t = -ta
                    checks.append(("-a", ev(t, u), -va, -ev(ta, u), sc))
                elif op == "scalar":
                    k = nr.normal()
                    with tc.unchanged("k*a", a=ta): t1 = k * ta; t2 = ta * k
                    checks.append(("k*a", ev(t1, u), k * va, k * ev(ta, u), sc * (1 + abs(k))))
                    checks.append(("a*k", ev(t2, u), k * va, k * ev(ta, u), sc * (1 + abs(k))))
                elif op == "truncate":
                    N = rng.randint(-2, 4)
                    per, _ = tc.value(a, uorig, d, per_order=True)
                    rhs = sum(r ** n * v for n, v in per.items() if n <= N) if any(n <= N for n in per) else 0
                    with tc.unchanged("truncate", a=ta): t = ta.truncate(N)
                    perl = ev(ta, u, per_order=True)
                    rl = sum(r ** n * v for n, v in perl.items() if n <= N) if any(n <= N for n in perl) else 0
                    checks.append(("truncate", ev(t, u), rhs, rl, sc))
                elif op == "slice" and shape != ():
                    key = (rng.randrange(shape[0]), rng.randrange(shape[1]))
                    with tc.unchanged("a[i,j]", a=ta): t = ta[key]
                    checks.append(("a[i,j]", ev(t, u), np.asarray(va)[key], np.asarray(ev(ta, u))[key], sc))
                    key2 = (slice(None), rng.randrange(shape[1]))
                    with tc.unchanged("a[:,j]", a=ta): t = ta[key2]
                    checks.append(("a[:,j]", ev(t, u), np.asarray(va)[key2], np.asarray(ev(ta, u))[key2], sc))
                elif op == "setitem" and shape == (2, 2):
                    z = T.zeros(-2, 4, (2, 2))
                    t1 = T(a[:1])
                    with tc.unchanged("z[...]=a", a=t1): z[0:2, 0:2] = t1
                    checks.append(("z[...]=a", ev(z, u), tc.value(a[:1], uorig, d), ev(t1, u), sc))
            elif op in ("ldot", "rdot"):
                rr, m, q = rng.randint(1, 3), rng.randint(1, 3), rng.randint(1, 3)
                a = rand_float_expansion(nr, d, (rr, m), tc.rand_nl(rng, -2, 4, 4, rng.randint(1, 3)), cplx)
                ta = T(a)
                va = tc.value(a, uorig, d)
                if op == "ldot":
                    C = nr.normal(size=(q, rr))
                    with tc.unchanged("ldot", a=ta, C=C): t = ta.ldot(C)
                    checks.append(("ldot", ev(t, u), C @ va, C @ ev(ta, u), (1 + absscale(a, r)) * (1 + np.abs(C).sum())))
                else:
                    C = nr.normal(size=(m, q))
                    with tc.unchanged("rdot", a=ta, C=C): t = ta.rdot(C)
                    checks.append(("rdot", ev(t, u), va @ C, ev(ta, u) @ C, (1 + absscale(a, r)) * (1 + np.abs(C).sum())))
            elif op in ("product", "product-sm"):
                la = rng.randint(0, 4); lb = 4 - la
                if op == "product":
                    rr, m, q = rng.randint(1, 2), rng.randint(1, 3), rng.randint(1, 2); sa, sb = (rr, m), (m, q)
                else:
                    sa, sb = rng.choice([((), (2, 2)), ((2, 2), ()), ((), ())])
                a = rand_float_expansion(nr, d, sa, tc.rand_nl(rng, -2, 4, la, rng.randint(1, 3)), cplx)
                b = rand_float_expansion(nr, d, sb, tc.rand_nl(rng, -2, 4, lb, rng.randint(1, 3)), cplx)
                ta, tb = T(a), T(b)
                va, vb = tc.value(a, uorig, d), tc.value(b, uorig, d)
                mm = (sa != () and sb != ())
                with tc.unchanged("a*b", a=ta, b=tb): t = ta * tb
                la_, lb_ = ev(ta, u), ev(tb, u)
                checks.append(("a*b", ev(t, u), (va @ vb) if mm else va * vb, (la_ @ lb_) if mm else la_ * lb_,
                               (1 + absscale(a, r)) * (1 + absscale(b, r))))
            elif op in ("reduce", "reducecoeff", "collectcoeff", "separate"):
                shape = rng.choice([(), (2, 2)])
                a = rand_float_expansion(nr, d, shape, tc.rand_nl(rng, 0, 4, 4, rng.randint(1, 4)), cplx)
                ta = T(a)
                va = tc.value(a, uorig, d); sc = 1 + absscale(a, r)
                with tc.unchanged(op, a=ta):
                    if op == "reduce": t = ta.copy().reduce()
                    elif op == "reducecoeff": t = T(T.reducecoeff(ta))
                    elif op == "collectcoeff": t = T(T.collectcoeff(ta))
                    else: t = ta.copy().reduce().separate()
                checks.append((op, ev(t, u), va, ev(ta, u), sc))
            elif op == "unsorted":
                # hand-built coefficient lists in arbitrary order (the constructor accepts any order): every operation must give what it gives
                # for the sorted list
                nl = tc.rand_nl(rng, -2, 4, 2, 4, distinct_n=True)      # distinct n: with repeated n the merge (first match) legitimately depends on the order
                a = rand_float_expansion(nr, d, (2, 2), nl, cplx)
                srt = sorted(a, key=lambda e: (e[0], e[1])); sh = list(a); rng.shuffle(sh)
                if [(n, l) for n, l, _ in sh] == [(n, l) for n, l, _ in srt]: sh = sh[::-1]
                b = rand_float_expansion(nr, d, (2, 2), tc.rand_nl(rng, -2, 4, 2, 2), cplx); tb = T(b)
                va, vb = tc.value(srt, uorig, d), tc.value(b, uorig, d); sa = 1 + absscale(a, r); sb = 1 + absscale(b, r)
                C = nr.normal(size=(2, 2))
                pairs = [("unsorted:a+b", T(sh) + tb, T(srt) + tb, va + vb, sa + sb), ("unsorted:b-a", tb - T(sh), tb - T(srt), vb - va, sa + sb),
                         ("unsorted:a*b", T(sh) * tb, T(srt) * tb, va @ vb, sa * sb), ("unsorted:b*a", tb * T(sh), tb * T(srt), vb @ va, sa * sb),
                         ("unsorted:reduce", T(sh).reduce(), T(srt).reduce(), None, sa), ("unsorted:ldot", T(sh).ldot(C), None, C @ va, sa * (1 + np.abs(C).sum())),
                         ("unsorted:truncate", T(sh).truncate(1), None, None, sa), ("unsorted:__call__", T(sh), None, va, sa)]
                for lab, x, y, rhs, scl in pairs:
                    if y is not None and not tc.same_expansion(x, y, 1e-11):
                        ck.violation("order dependence: %s of a coefficient list in the order %s differs from the result for the sorted list" % (lab, [(n, l) for n, l, _ in sh]),
                                     {"op": lab, "dim": d, "order": [(n, l) for n, l, _ in sh]}, key="c16-unsorted")
                    if rhs is not None: checks.append((lab, ev(x, u), rhs, None, scl))
                if d == 3 or True:
                    per = ev(T(sh), u, per_order=True); per0, _ = tc.value(srt, uorig, d, per_order=True)
                    checks.append(("unsorted:__call__(dict)", np.array([per[n] for n in sorted(per)]), np.array([per0[n] for n in sorted(per0)]), None, sa))
            elif op == "empty":
                b = rand_float_expansion(nr, d, (2, 2), tc.rand_nl(rng, -2, 4, 4, rng.randint(1, 3)), cplx)
                tb = T(b); vb = tc.value(b, uorig, d); sc = 1 + absscale(b, r); C = nr.normal(size=(2, 2))
                e1 = T(); e1 += tb; e2 = T(); e2 -= tb; e3 = tb.copy(); e3 -= T(); e4 = tb.copy(); e4 += T()
                for lab, t, rhs in (("e+b", T() + tb, vb), ("b+e", tb + T(), vb), ("e-b", T() - tb, -vb), ("b-e", tb - T(), vb), ("e+=b", e1, vb), ("e-=b", e2, -vb),
                                    ("b-=e", e3, vb), ("b+=e", e4, vb), ("e*b", T() * tb, 0 * vb), ("b*e", tb * T(), 0 * vb), ("e.ldot(C)", T().ldot(C), 0 * vb),
                                    ("sum([e,b])", sum([T(), tb]), vb)):
                    checks.append((lab + "[empty e]", ev(t, u), rhs, None, sc))
            elif op == "dtypes":
                # coefficient dtype x operand dtype: (c.T)(u) = np.dot(c, T(u)), (T.c)(u) = np.dot(T(u), c), (k T)(u) = k T(u), (a+b)(u) = a(u)+b(u)
                def typed(dt, shape):
                    if dt == "int": return nr.integers(-3, 4, size=shape)
                    if dt == "float": return nr.normal(size=shape)
                    return nr.normal(size=shape) + 1j * nr.normal(size=shape)
                cdt, mdt = rng.choice(tc.DTYPES), rng.choice(tc.DTYPES)
                rr, m, q = rng.randint(1, 3), rng.randint(1, 3), rng.randint(1, 3)
                nl = tc.rand_nl(rng, -2, 4, 4, rng.randint(1, 3))
                a = [(n, l, typed(cdt, (tc.npow_count(d, l), rr, m))) for n, l in nl]
                b = [(n, l, typed(mdt, (tc.npow_count(d, l), rr, m))) for n, l in tc.rand_nl(rng, -2, 4, 4, rng.randint(1, 3))]
                ta = T(a); va = tc.value(a, uorig, d); vb = tc.value(b, uorig, d)
                C = typed(mdt, (q, rr)); C2 = typed(mdt, (m, q)); k = typed(mdt, ())[()]
                kp = {"int": int, "float": float, "complex": complex}[mdt](k)
                tag = "[%s coeff, %s operand]" % (cdt, mdt)
                sa = 1 + absscale(a, r)
                with tc.unchanged("ldot" + tag, a=ta, C=C): t = ta.ldot(C)
                checks.append(("ldot" + tag, ev(t, u), np.dot(C, va), np.dot(C, ev(ta, u)), sa * (1 + np.abs(C).sum())))
                t = T(a)
                with tc.unchanged("ildot" + tag, C=C): t.ildot(C)
                checks.append(("ildot" + tag, ev(t, u), np.dot(C, va), np.dot(C, ev(ta, u)), sa * (1 + np.abs(C).sum())))
                with tc.unchanged("rdot" + tag, a=ta, C=C2): t = ta.rdot(C2)
                checks.append(("rdot" + tag, ev(t, u), np.dot(va, C2), np.dot(ev(ta, u), C2), sa * (1 + np.abs(C2).sum())))
                t = T(a)
                with tc.unchanged("irdot" + tag, C=C2): t.irdot(C2)
                checks.append(("irdot" + tag, ev(t, u), np.dot(va, C2), np.dot(ev(ta, u), C2), sa * (1 + np.abs(C2).sum())))
                with tc.unchanged("k*a" + tag, a=ta): t1 = kp * ta; t2 = ta * kp
                checks.append(("k*a" + tag, ev(t1, u), kp * va, kp * ev(ta, u), sa * (1 + abs(kp))))
                checks.append(("a*k" + tag, ev(t2, u), kp * va, kp * ev(ta, u), sa * (1 + abs(kp))))
                tb = T(b)
                try:
                    with tc.unchanged("a+b" + tag, a=ta, b=tb): t = ta + tb
                    checks.append(("a+b" + tag, ev(t, u), va + vb, ev(ta, u) + ev(tb, u), sa + absscale(b, r)))
                except (ArithmeticError, ValueError, TypeError, IndexError) as e:
                    cnt = ck.extra.setdefault("dtype_exceptions", {}); cnt["c16-sum-mixed-dtype"] = cnt.get("c16-sum-mixed-dtype", 0) + 1
                    if cnt["c16-sum-mixed-dtype"] <= 3: ck.violation("Taylor%dD: a+b with %s and %s coefficient arrays raises %s: %s" % (d, cdt, mdt, type(e).__name__, str(e)[:140]),
                                 {"op": "a+b", "dim": d, "coef_dtype": cdt, "operand_dtype": mdt, "nl_a": nl, "iteration": it}, key="c16-sum-mixed-dtype")
            elif op == "powexp":
                with tc.unchanged("powexp(normalize=True)", u=u): pn, mag = T.powexp(u)
                with tc.unchanged("powexp(normalize=False)", u=u): pf = T.powexp(u, normalize=False)
                ex = tc.exponents(d, tc.LMAX)
                ref_n = np.array([np.prod([(x / r) ** k for x, k in zip(uorig, e)]) for e in ex])
                ref_f = np.array([np.prod([x ** k for x, k in zip(uorig, e)]) for e in ex])
                checks.append(("powexp", np.append(pn, mag), np.append(ref_n, r), None, 1.0))
                checks.append(("powexp(normalize=False)", pf, ref_f, None, 1.0 + r ** 4))
            else:  # construct
                shape = rng.choice([(1, 1), (2, 2)])
                basis = [(nr.normal(size=shape), nr.normal(size=d)) for _ in range(rng.randint(1, 3))]
                N = rng.choice([-1, 2, 3, 4]); Nn = 4 if N < 0 else N
                pre = [nr.normal() for _ in range(Nn + 1)]
                with tc.unchanged("constructexpansion", basis=[x for cv in basis for x in cv], pre=pre):
                    out = T.constructexpansion(basis, N, pre)
                t = T([c[0] for c in out])
                rhs = sum(pre[n] * float(np.dot(v, uorig)) ** n * co for co, v in basis for n in range(Nn + 1))
                sc = 1 + sum(abs(pre[n]) * (np.linalg.norm(v) * r) ** n * np.abs(co).sum() for co, v in basis for n in range(Nn + 1))
                checks.append(("constructexpansion", ev(t, u), rhs, None, sc))
        except (ArithmeticError, ValueError, TypeError, IndexError) as e:
            ck.violation("implementation raised %s: %s during %s" % (type(e).__name__, e, op),
                         {"op": op, "dim": d, "u": uorig.tolist(), "iteration": it}, key="c16-float-exception-%s" % op)
            continue
        for label, lhs, rhs, rhs_lib, sc in checks:
            err = float(np.max(np.abs(np.asarray(lhs) - np.asarray(rhs)))) / sc
            err_lib = 0.0 if rhs_lib is None else float(np.max(np.abs(np.asarray(lhs) - np.asarray(rhs_lib)))) / sc
            worst = max(worst, err, err_lib)
            samp = None
            if nsamp < 2 and label in ("a*b", "reduce"):
                samp = {"tier": "float", "op": label, "dim": d, "complex": cplx, "u": uorig.tolist(), "|u|": r, "rel_err": err,
                        "rel_err_library_rhs_same_array": err_lib}; nsamp += 1
            ck.case(key=("float", label, d, it), nontrivial=True, kind="float:%s:%dD" % (label, d), sample=samp)
            if not (err <= FTOL):
                ck.violation("float evaluator: value(%s) differs from the operation on the values (direct power series at the original point) by %.3g (relative to scale)" % (label, err),
                             {"op": label, "dim": d, "complex": cplx, "u": uorig.tolist(), "u_after": u.tolist(), "lhs": np.asarray(lhs).tolist(),
                              "rhs": np.asarray(rhs).tolist(), "iteration": it, "seed": ck.seed}, key="c16-float-%s" % label.split("[")[0])
            elif not (err_lib <= FTOL):
                ck.violation("library identity: %s evaluated at u differs from the operation applied to the library's own values at the SAME array u by %.3g" % (label, err_lib),
                             {"op": label, "dim": d, "complex": cplx, "u": uorig.tolist(), "u_after": u.tolist(), "lhs": np.asarray(lhs).tolist(),
                              "rhs_library": np.asarray(rhs_lib).tolist(), "iteration": it, "seed": ck.seed}, key="c16-same-array-%s" % label.split("[")[0])
    ck.extra["float_worst_rel_err"] = worst


def semantics_tier(ck, Ts):
    """value semantics of the model (every operation returns a fresh value) against the implementation's objects:
    (i) the result of every NON in-place operation -- binary and reflected dunder operations, 0 + T / sum(), unary +/-, copy,
    scalar multiples, products, ldot/rdot, truncate, the coefficient-list class methods, copies of slices -- is a new object sharing
    no memory with an operand, and modifying it in place leaves the operands bit-identical (slices T[key] themselves are
    documented views, nodeepcopy=True, and are the only exception); (ii) histories: a query repeated on one object after an
    in-place modification (+=, -=, T[i,j] = S, T[i:j,i:j] += dV, in-place scalar product, direct array edit, ildot, irdot) equals
    the query on a fresh copy of the modified object (nothing stale is remembered)."""
    rng = ck.rng; nr = ck.nprng(18)
    k = 2
    for it in range(ck.n(10, 120)):
        d = 3 if it % 2 == 0 else 2; T = Ts[d]
        cplx = it % 3 != 2
        a = rand_float_expansion(nr, d, (k, k), tc.rand_nl(rng, -1, 4, 2, rng.randint(1, 3), distinct_n=True), cplx)
        b = rand_float_expansion(nr, d, (k, k), tc.rand_nl(rng, -1, 4, 2, rng.randint(1, 3), distinct_n=True), cplx)
        ta, tb = T(a), T(b)
        C = nr.normal(size=(k, k)); N = rng.randint(0, 3); sc = nr.normal()
        raw = lambda cl: T(cl, nodeepcopy=True)          # class methods return bare coefficient lists: wrap without copying
        ops = [("a+b", lambda: ta + tb), ("a-b", lambda: ta - tb), ("0+a (__radd__)", lambda: 0 + ta), ("sum([a])", lambda: sum([ta])),
               ("sum([a,b])", lambda: sum([ta, tb])), ("a+ndarray", lambda: ta + np.eye(k)), ("a-ndarray", lambda: ta - np.eye(k)),
               ("+a", lambda: +ta), ("-a", lambda: -ta), ("a.copy()", lambda: ta.copy()), ("k*a (__rmul__)", lambda: sc * ta), ("a*k", lambda: ta * sc),
               ("a*b", lambda: ta * tb), ("a.ldot(C)", lambda: ta.ldot(C)), ("a.rdot(C)", lambda: ta.rdot(C)), ("a.truncate(N)", lambda: ta.truncate(N)),
               ("a.truncate(99)", lambda: ta.truncate(99)), ("a[0:1,:].copy()", lambda: ta[0:1, :].copy()), ("T(a.coefflist)", lambda: T(ta.coefflist)),
               ("sumcoeff(a,b)", lambda: raw(T.sumcoeff(ta, tb))), ("sumcoeff(a,[])", lambda: raw(T.sumcoeff(ta, []))), ("sumcoeff([],b)", lambda: raw(T.sumcoeff([], tb))),
               ("negcoeff(a)", lambda: raw(T.negcoeff(ta))), ("scalarproductcoeff(1,a)", lambda: raw(T.scalarproductcoeff(1, ta))),
               ("tensorproductcoeff(C,a)", lambda: raw(T.tensorproductcoeff(C, ta))), ("coeffproductcoeff(a,b)", lambda: raw(T.coeffproductcoeff(ta, tb))),
               ("truncatecoeff(a,N)", lambda: raw(T.truncatecoeff(ta, N))), ("reducecoeff(a)", lambda: raw(T.reducecoeff(ta))),
               ("collectcoeff(a)", lambda: raw(T.collectcoeff(ta))), ("separatecoeff(a)", lambda: raw(T.separatecoeff(ta)))]
        for label, f in ops:
            try:
                res = f()
            except (ArithmeticError, ValueError, TypeError, IndexError) as e:
                ck.violation("implementation raised %s: %s in %s" % (type(e).__name__, e, label), {"op": label, "dim": d}, key="c16-exception-semantics")
                continue
            tc.alias_case(ck, "c16", "%s[%dD]" % (label, d), res, {"a": ta, "b": tb}, T, nr, rng)
        # histories on one object
        u = nr.normal(size=d) * 1.3
        queries = [("__call__", lambda t: np.asarray(tc.impl_value(t, u))), ("copy", lambda t: t.copy()), ("truncate", lambda t: t.truncate(N)),
                   ("ldot", lambda t: t.ldot(C)), ("mul", lambda t: t * tb), ("neg", lambda t: -t), ("radd0", lambda t: 0 + t),
                   ("reducecoeff", lambda t: T(T.reducecoeff(t)))]
        for qi, (qname, q) in enumerate(queries):
            route = tc.ROUTES[(it + qi) % len(tc.ROUTES)]
            t = T([(n, l, c.astype(complex)) for n, l, c in a])
            try:
                tc.history_case(ck, "c16", qname, q, t, route, T, nr, rng)
            except (ArithmeticError, ValueError, TypeError, IndexError) as e:
                ck.violation("implementation raised %s: %s in history %s / %s" % (type(e).__name__, e, qname, route),
                             {"query": qname, "route": route, "dim": d}, key="c16-exception-semantics")


def overflow_demo(ck, Ts):
    """replay of the witness of C16_product_order_hypothesis_needed on the implementation (a note: the property
    excludes it)"""
    T = Ts[3]
    c = np.zeros(20); c[19] = 1.0        # x^3
    a = T([(3, 3, c)])
    u = np.array([2., -1., 3.]); r = float(np.linalg.norm(u))
    got = tc.impl_value(a * a, u.copy()); want = tc.impl_value(a, u.copy()) ** 2
    ck.extra["outside_domain_demo"] = {"a": "r^3 x^3 (l=3)", "impl_value_of_a*a": float(np.real(got)), "square_of_value": float(np.real(want))}
    ck.note("outside the hypothesis (l_a+l_b=6>4): value(a*a)=%.6g vs value(a)^2=%.6g -- differs as the model proves; not part of the property"
            % (float(np.real(got)), float(np.real(want))))


def run(ck):
    ck.rule = ("(T) all index/projector tables of Taylor3D and Taylor2D, exhaustively; (X) random expansions: dimension 2/3, "
               "scalar or r x c matrix coefficients (r,c<=3), 0-4 entries (n in -2..4, l in 0..4, repeated n allowed), dyadic "
               "coefficients k/4; every operation named in the property evaluated by the implementation and by the Coq model "
               "over Qc and compared coefficientwise; (F) random real/complex float expansions, both sides of every identity "
               "evaluated at the same non-unit float ndarray with f_n = r^n, against the library's own values and a definition-level "
               "evaluator at the original point; (G) every library call leaves its arguments bit-identical; distinct = distinct (operation, inputs); non-trivial = result has a non-zero coefficient")
    ck.trusted += ["harness/taylorcase.py + c16.py: printing of Coq literals, comparison glue (leqb/xcmp/pclose), numpy index "
                   "selection used to model __getitem__ keys", "numpy elementwise arithmetic on small dyadic numbers is exact"]
    ck.theorems()
    Ts = tc.classes()
    try:
        check_tables(ck, Ts)
    except CoqFailure as e:
        ck.broken_proof = "correspondence Model/Taylor (tables): %s" % e
    exact_tier(ck, Ts)
    float_tier(ck, Ts)
    semantics_tier(ck, Ts)
    overflow_demo(ck, Ts)
    tc.flush_guard(ck, "c16")
