"""Shared machinery for the per-property checks (see DESIGN.md section 2).

Every check is a module harness/cXX.py exposing  run(ck: Check) -> None.
The Check object owns: the PRNG (seeded from VERIF_SEED), counters, samples,
the Coq obligations (compile Properties/CXX.v, parse Print Assumptions), the
model runner (cases.v evaluated by coqc/vm_compute), violation reporting with
known-findings filtering, and the evidence file.
"""
import os, sys, json, time, random, subprocess, re, hashlib, fractions, math, traceback

VERIF = os.path.dirname(os.path.dirname(os.path.abspath(__file__)))
REPO = os.environ.get("ONSAGER_REPO", "/repo")
COQDIR = os.path.join(VERIF, "coq")
BUILD = os.path.join(VERIF, "build")
REPLAYS = os.environ.get("VERIF_REPLAY_DIR", os.path.join(VERIF, "replays"))
EVIDENCE = os.environ.get("VERIF_EVIDENCE_DIR", os.path.join(VERIF, "evidence"))   # overridden when running against a mutated scratch tree
KNOWN = os.path.join(VERIF, "known_findings.txt")
COQ_TIMEOUT = int(os.environ.get("VERIF_COQ_TIMEOUT", "1500"))
PERFILE_TIMEOUT = int(os.environ.get("VERIF_COQ_FILE_TIMEOUT", "400"))

FORBIDDEN = re.compile(r"\b(Admitted|admit|Axiom|Axioms|Parameter|Parameters|Conjecture|Conjectures|"
                       r"Admit Obligations|bypass_check|Unset Guard Checking|Unset Positivity Checking|"
                       r"Unset Universe Checking|type-in-type|impredicative-set|give_up)\b")


def sh(cmd, timeout=None, cwd=None, env=None, input=None):
    p = subprocess.run(cmd, shell=isinstance(cmd, str), cwd=cwd, env=env, input=input,
                       stdout=subprocess.PIPE, stderr=subprocess.STDOUT, timeout=timeout, text=True)
    return p.returncode, p.stdout


# ----------------------------------------------------------------------------------------
# number conversion: every IEEE double is a rational
def frac(x):
    """exact Fraction of a python/numpy number"""
    if isinstance(x, fractions.Fraction): return x
    if isinstance(x, int): return fractions.Fraction(x)
    return fractions.Fraction(float(x))


def coq_Z(n):
    n = int(n)
    return "(%d)%%Z" % n if n < 0 else "%d%%Z" % n


def coq_Q(x):
    """Coq term of type Q (numerator # denominator) for an exact Fraction / double"""
    f = frac(x)
    return "(%d # %d)" % (f.numerator, f.denominator) if f.numerator >= 0 else "((%d) # %d)" % (f.numerator, f.denominator)


def coq_list(items):
    return "[" + "; ".join(items) + "]"


def coq_bool(b):
    return "true" if b else "false"


def coq_nat(n):
    assert 0 <= int(n) < 5000, "nat literal too large: %r" % (n,)
    return "%d%%nat" % int(n)


# ----------------------------------------------------------------------------------------
class CoqFailure(Exception):
    pass


_built = {}


def write_coqproject():
    """_CoqProject lists every Base/Model/Proofs file (Properties/ are compiled by the checks
    themselves so that Print Assumptions output is captured on every run)"""
    files = []
    for sub in ("Base", "Model", "Proofs"):
        d = os.path.join(COQDIR, sub)
        if os.path.isdir(d):
            files += sorted(os.path.join(sub, f) for f in os.listdir(d) if f.endswith(".v") and not f.startswith("."))
    txt = "-Q . Onsager\n" + "\n".join(files) + "\n"
    p = os.path.join(COQDIR, "_CoqProject")
    old = open(p).read() if os.path.exists(p) else ""
    if old != txt or not os.path.exists(os.path.join(COQDIR, "Makefile")):
        with open(p, "w") as f: f.write(txt)
        return True
    return False


def coq_make(timeout=COQ_TIMEOUT, strict=False):
    """full .vo build of the development (no -vos); cached per process.  Non-strict: make -k, so that
    a file broken elsewhere does not stop an unrelated check (whose Properties file is the judge)."""
    if "make" in _built and not strict: return _built["make"]
    lock = "flock %s/.buildlock " % COQDIR
    if write_coqproject():
        rc, out = sh(lock + "coq_makefile -f _CoqProject -o Makefile", cwd=COQDIR, timeout=120)
        if rc != 0:
            _built["make"] = (False, out); return _built["make"]
    # every coqc is bounded: a diverging proof must not hold the build lock for everybody
    rc, out = sh(lock + "make %s -j%d COQC='timeout %d coqc' 2>&1" % ("" if strict else "-k", min(16, os.cpu_count() or 4), PERFILE_TIMEOUT),
                 cwd=COQDIR, timeout=timeout)
    _built["make"] = (rc == 0, out)
    return _built["make"]


def scan_forbidden():
    """grep the whole development for escape hatches; returns list of 'file:line: text'"""
    hits = []
    for root, _, files in os.walk(COQDIR):
        for f in files:
            if not f.endswith(".v"): continue
            p = os.path.join(root, f)
            txt = open(p).read()
            # strip comments (non-nested is enough: we never nest)
            txt2 = re.sub(r"\(\*.*?\*\)", lambda m: "\n" * m.group(0).count("\n"), txt, flags=re.S)
            for n, line in enumerate(txt2.split("\n"), 1):
                if FORBIDDEN.search(line):
                    hits.append("%s:%d: %s" % (os.path.relpath(p, VERIF), n, line.strip()))
    return hits


def parse_assumptions(out):
    """split coqc output of a Properties file into {theorem: [axioms]} using our marker lines"""
    res, cur, name = {}, None, None
    for line in out.split("\n"):
        m = re.match(r'^\s*"?ASSUMPTIONS-OF ([A-Za-z0-9_\.\']+)"?', line.strip().replace('= "', '').strip())
        if "ASSUMPTIONS-OF" in line:
            name = re.search(r"ASSUMPTIONS-OF ([A-Za-z0-9_\.']+)", line).group(1)
            res[name] = []
            continue
        if name is None: continue
        s = line.strip()
        if not s or s.startswith(": string") or s.startswith("Closed under the global context") or s == "Axioms:":
            continue
        m = re.match(r"^([A-Za-z0-9_\.']+)\s*:", s)
        if m and not line.startswith("    "):
            res[name].append(m.group(1))
    return res


# ----------------------------------------------------------------------------------------
class Check:
    def __init__(self, pid, tier, seed, level="proof"):
        self.pid, self.tier, self.seed, self.level = pid, tier, seed, level
        self.rng = random.Random((seed * 1000003) ^ int(hashlib.sha1(pid.encode()).hexdigest()[:8], 16))
        self.t0 = time.time()
        self.evaluations = 0
        self.keys = set()
        self.samples = []
        self.violations = []      # dicts
        self.known_hits = []
        self.obligations = []     # (name, ok, axioms)
        self.trusted = []
        self.assumptions = []
        self.extra = {}
        self.dist = {}
        self.rule = ""
        self.checker_cmds = []
        self.notes = []
        os.makedirs(BUILD, exist_ok=True)
        os.makedirs(os.path.join(REPLAYS, pid), exist_ok=True)
        self.known = []
        if os.path.exists(KNOWN):
            # lines:  known: property=<id> key=<key> <what fails>     (suppresses exactly that key)
            #         fixed: property=<id> <commit> <what failed>      (suppresses nothing)
            for l in open(KNOWN):
                m = re.match(r"^known:\s+property=(\S+)\s+key=(\S+)\s+(.*)$", l.strip())
                if m and m.group(1) == pid:
                    self.known.append({"key": m.group(2), "what": m.group(3)})

    # numpy PRNG derived from the same seed
    def nprng(self, salt=0):
        import numpy as np
        return np.random.default_rng([self.seed, salt, int(hashlib.sha1(self.pid.encode()).hexdigest()[:6], 16)])

    @property
    def quick(self):
        return self.tier == "quick"

    def n(self, quick, thorough):
        return quick if self.quick else thorough

    # ---- counting -------------------------------------------------------------------
    def case(self, key=None, nontrivial=True, sample=None, kind=None):
        """record one evaluated case; key identifies distinctness (hashable / json-able)"""
        self.evaluations += 1
        if nontrivial and key is not None:
            k = hashlib.sha1(json.dumps(key, sort_keys=True, default=str).encode()).hexdigest()
            self.keys.add(k)
        if kind is not None:
            self.dist[kind] = self.dist.get(kind, 0) + 1
        if sample is not None and len(self.samples) < 6:
            self.samples.append(sample)

    def note(self, s):
        self.notes.append(s)
        print("[%s] %s" % (self.pid, s), flush=True)

    # ---- violations -----------------------------------------------------------------
    def violation(self, what, replay, key=None, no_input=False):
        """report a property violation.  `key` is matched against known_findings.jsonl
        (exact match on the recorded key only)."""
        for e in self.known:
            if key is not None and e.get("key") == key:
                if key not in [k["key"] for k in self.known_hits]:
                    self.known_hits.append({"key": key, "what": e.get("what", what)})
                return False
        idx = len(self.violations)
        path = os.path.join(REPLAYS, self.pid, "violation_%d_seed%d.json" % (idx, self.seed))
        doc = {"property": self.pid, "what": what, "key": key, "seed": self.seed, "tier": self.tier,
               "no_failing_input_found": bool(no_input), "replay": replay}
        with open(path, "w") as f:
            json.dump(doc, f, indent=1, default=str)
        self.violations.append({"what": what, "path": path, "no_input": no_input})
        print("[%s] violation: %s" % (self.pid, what), flush=True)
        return True

    # ---- Coq obligations ------------------------------------------------------------
    def theorems(self, propfile=None, expect=None):
        """build the development, compile Properties/<pid>.v (always, so that Print
        Assumptions output is captured on every run), record obligations."""
        propfile = propfile or "Properties/%s.v" % self.pid
        hits = scan_forbidden()
        if hits:
            self.obligations.append(("no-escape-hatches", False, hits[:5]))
        else:
            self.obligations.append(("no-escape-hatches", True, []))
        ok, out = coq_make()
        self.make_ok = ok
        cmd = "coqc -Q . Onsager %s" % propfile
        self.checker_cmds.append("cd coq && make && " + cmd)
        src = open(os.path.join(COQDIR, propfile)).read()
        names = re.findall(r"^\s*(?:Theorem|Lemma|Corollary)\s+([A-Za-z0-9_']+)", src, flags=re.M)
        try:
            rc, out = sh("flock %s/.buildlock %s" % (COQDIR, cmd), cwd=COQDIR, timeout=COQ_TIMEOUT)
        except subprocess.TimeoutExpired:
            rc, out = 1, "timeout"
        if rc != 0:
            for nm in names: self.obligations.append((nm, False, []))
            self.broken_proof = "coqc %s failed:\n%s" % (propfile, "\n".join(out.strip().split("\n")[-25:]))
            return False
        ass = parse_assumptions(out)
        allax = set()
        for nm in names:
            if nm not in ass:
                self.obligations.append((nm, False, ["no Print Assumptions output"]))
                self.broken_proof = "theorem %s has no Print Assumptions record" % nm
            else:
                self.obligations.append((nm, True, ass[nm]))
                allax.update(ass[nm])
        if expect:
            for nm in expect:
                if nm not in names:
                    self.obligations.append((nm, False, ["missing from " + propfile]))
                    self.broken_proof = "expected theorem %s missing" % nm
        self.axioms = sorted(allax)
        return not hasattr(self, "broken_proof")

    def coq_cases(self, name, body, imports, timeout=COQ_TIMEOUT):
        """write build/<pid>_<name>.v = imports + body, compile, return stdout.
        The body uses `Eval vm_compute in ...` ; results are parsed by the caller."""
        d = os.path.join(BUILD, "cases")
        os.makedirs(d, exist_ok=True)
        fn = "%s_%s_%d" % (self.pid, name, os.getpid())
        path = os.path.join(d, fn + ".v")
        with open(path, "w") as f:
            f.write(imports + "\n" + body + "\n")
        coq_make()
        cmd = "ulimit -s unlimited 2>/dev/null; coqc -Q %s Onsager -Q %s Cases %s" % (COQDIR, d, path)
        try:
            rc, out = sh(["bash", "-c", cmd], cwd=d, timeout=timeout)
        except subprocess.TimeoutExpired:
            raise CoqFailure("coqc timeout on " + path)
        finally:
            for ext in (".vo", ".vos", ".vok", ".glob"):
                try: os.remove(os.path.join(d, fn + ext))
                except OSError: pass
            try: os.remove(os.path.join(d, "." + fn + ".aux"))
            except OSError: pass
        if rc != 0:
            raise CoqFailure("coqc failed on %s:\n%s" % (path, "\n".join(out.strip().split("\n")[-20:])))
        if not os.environ.get("VERIF_KEEP_CASES"):
            try: os.remove(path)
            except OSError: pass
        return out

    # ---- finish ---------------------------------------------------------------------
    def finish(self):
        wall = time.time() - self.t0
        nob = len(self.obligations)
        ndis = sum(1 for o in self.obligations if o[1])
        # calculators built through harness/vm.py are guarded: a library call that wrote into the caller's arrays
        import sys as _sys
        _vm = _sys.modules.get("harness.vm")
        if _vm is not None and _vm.INPUT_MUTATIONS:
            muts = sorted(set(map(str, _vm.INPUT_MUTATIONS)))
            self.violation("a calculator call modified the caller's input arrays in place: %s" % ", ".join(muts),
                           {"calls": muts, "count": len(_vm.INPUT_MUTATIONS)}, key="input-arrays-mutated")
        if _vm is not None:
            sm = sorted(set(_vm.state_mutations()))
            if sm:
                self.violation("evaluating transport coefficients changed stored arrays of the calculator: %s" % ", ".join(sm[:8]),
                               {"attributes": sm}, key="calculator-state-mutated")
        # a broken proof / correspondence with no concrete failing input is still a violation
        if hasattr(self, "broken_proof") and not self.violations:
            self.violation("proof obligation no longer checks: " + self.broken_proof.split("\n")[0],
                           {"obligation": self.broken_proof,
                            "failed": [o[0] for o in self.obligations if not o[1]]}, no_input=True)
        cov = {
            "obligations": nob, "discharged": ndis,
            "checker_cmd": " ; ".join(self.checker_cmds) or "cd coq && make",
            "trusted_base": self.trusted + ["Coq 8.16.1 kernel + vm_compute (no native_compute)",
                                            "axioms reported by Print Assumptions: " + (", ".join(getattr(self, "axioms", [])) or "none (closed under the global context)")],
            "theorems": [{"name": o[0], "ok": o[1], "axioms": o[2]} for o in self.obligations],
            "evaluations": self.evaluations,
            "distinct_nontrivial": len(self.keys),
            "rule": self.rule,
            "samples": self.samples if self.samples else [{"note": "no cases recorded"}],
            "input_distribution": self.dist,
            "notes": self.notes[-40:],
        }
        cov.update(self.extra)
        ev = {"property_id": self.pid, "tier": self.tier, "seed": self.seed, "level": self.level,
              "coverage": cov, "assumptions": self.assumptions, "wall_s": round(wall, 2),
              "violations": len(self.violations),
              "known_findings_hit": self.known_hits}
        os.makedirs(EVIDENCE, exist_ok=True)
        with open(os.path.join(EVIDENCE, self.pid + ".json"), "w") as f:
            json.dump(ev, f, indent=1, default=str)
        for k in self.known_hits:
            print("KNOWN-FINDING: property=%s %s" % (self.pid, k["what"]))
        for v in self.violations:
            print("VIOLATION property=%s replay=%s%s" % (self.pid, v["path"], " no-failing-input-found" if v["no_input"] else ""))
        print("[%s] tier=%s seed=%d evaluations=%d distinct=%d obligations=%d/%d violations=%d wall=%.1fs" %
              (self.pid, self.tier, self.seed, self.evaluations, len(self.keys), ndis, nob, len(self.violations), wall), flush=True)
        return 1 if self.violations else 0


def guarded(ck, fn, what):
    """run a sub-check; an unexpected exception in the implementation under test is
    reported by the caller, an exception in our harness is a harness error (exit 2)"""
    try:
        return fn()
    except CoqFailure as e:
        ck.broken_proof = "%s: %s" % (what, e)
        return None
