"""Exact lattice-coordinate view of crystals for C18 / C19 / C23 (DESIGN 3.2).

A *spec* is a crystal description whose metric g = A^T A and unit-cell positions are exact
rationals (Cartesian lattice vectors may contain sqrt(3)); the implementation gets the float
version.  After `Crystal(...)` has reduced / re-chosen the cell, `exact_view` recovers the exact
metric of the implementation's cell (through the rational change of basis U = A_in^-1 A_crys)
and the exact positions, verifying every rationalisation against the floats.  Python only
generates inputs, calls the implementation and prints Coq literals (Model/Lattice.v)."""
import itertools, math
from fractions import Fraction as Fr
import numpy as np
from onsager import crystal
from .lib import coq_Z, coq_list, coq_nat

S3 = math.sqrt(3.0)


class Irrational(Exception):
    """a float of the implementation is not (close to) the small rational the exact view expects"""


def rat(x, maxden=5040, tol=1e-9):
    f = Fr(float(x)).limit_denominator(maxden)
    if abs(float(f) - float(x)) > tol:
        raise Irrational("%r is not within %g of a rational with denominator <= %d" % (float(x), tol, maxden))
    return f


def lcm(a, b): return a * b // math.gcd(a, b)


def lcmden(xs):
    d = 1
    for x in xs: d = lcm(d, Fr(x).denominator)
    return d


def fmat_mul(A, B):
    return [[sum((A[i][k] * B[k][j] for k in range(len(B))), Fr(0)) for j in range(len(B[0]))] for i in range(len(A))]


def fmat_T(A): return [list(r) for r in zip(*A)]


def fmat_vec(A, v): return [sum((A[i][k] * v[k] for k in range(len(v))), Fr(0)) for i in range(len(A))]


def fdet(M):
    n = len(M)
    if n == 1: return M[0][0]
    if n == 2: return M[0][0] * M[1][1] - M[0][1] * M[1][0]
    return (M[0][0] * (M[1][1] * M[2][2] - M[1][2] * M[2][1]) - M[0][1] * (M[1][0] * M[2][2] - M[1][2] * M[2][0])
            + M[0][2] * (M[1][0] * M[2][1] - M[1][1] * M[2][0]))


def finv(M):
    """exact inverse of a 2x2 / 3x3 Fraction matrix"""
    n = len(M); d = fdet(M)
    if n == 2: return [[M[1][1] / d, -M[0][1] / d], [-M[1][0] / d, M[0][0] / d]]
    nx = lambda i: (i + 1) % 3
    return [[(M[nx(j)][nx(i)] * M[nx(nx(j))][nx(nx(i))] - M[nx(j)][nx(nx(i))] * M[nx(nx(j))][nx(i)]) / d for j in range(3)]
            for i in range(3)]


def F(x):
    """small exact rational from a literal (int, str, Fraction)"""
    return Fr(x)


# ------------------------------------------------------------------------------------------------
class Spec:
    """label, dim, A (float columns), g (Fraction metric), basis [[(Fr,..)]], spins (None | [[int|tuple]])"""

    def __init__(self, label, A, g, basis, spins=None, Aq=None):
        self.label, self.A, self.g, self.basis, self.spins, self.Aq = label, np.array(A, dtype=float), g, basis, spins, Aq
        self.dim = self.A.shape[0]

    def fbasis(self):
        return [[np.array([float(x) for x in u]) for u in ul] for ul in self.basis]

    def fspins(self):
        if self.spins is None: return None
        return [[(np.array(s, dtype=float) if isinstance(s, tuple) else s) for s in sl] for sl in self.spins]

    def natoms(self): return sum(len(ul) for ul in self.basis)

    def describe(self):
        return {"label": self.label, "lattice_columns": self.A.tolist(),
                "basis": [[[str(x) for x in u] for u in ul] for ul in self.basis], "spins": self.spins}


PARAMS = [Fr(11, 10), Fr(6, 5), Fr(5, 4), Fr(13, 10), Fr(3, 2), Fr(4, 5), Fr(9, 10)]


def lattice(rng, dim, system=None):
    """-> (system, A_float, g_exact, Aq or None); every crystal system (2-D: five nets)"""
    def two():
        b = rng.choice(PARAMS); c = rng.choice([p for p in PARAMS if p != b])
        return b, c
    if dim == 2:
        sysm = system or rng.choice(["square", "rect", "hex", "oblique", "crect"])
        b, _ = two()
        if sysm == "square": Aq = [[Fr(1), Fr(0)], [Fr(0), Fr(1)]]
        elif sysm == "rect": Aq = [[Fr(1), Fr(0)], [Fr(0), b]]
        elif sysm == "crect": Aq = [[Fr(1, 2), -Fr(1, 2)], [b / 2, b / 2]]
        elif sysm == "oblique": Aq = [[Fr(1), rng.choice([Fr(1, 5), Fr(3, 10), Fr(7, 20)])], [Fr(0), b]]
        elif sysm == "hex":
            A = np.array([[1., -.5], [0., S3 / 2]])
            return sysm, A, [[Fr(1), Fr(-1, 2)], [Fr(-1, 2), Fr(1)]], None
        else: raise KeyError(sysm)
    else:
        sysm = system or rng.choice(["cubic", "fcc", "bcc", "tet", "bct", "ortho", "ortho-c", "hex", "mono", "tri", "rhomb"])
        b, c = two()
        h = Fr(1, 2); o = Fr(0); i = Fr(1)
        if sysm == "cubic": Aq = [[i, o, o], [o, i, o], [o, o, i]]
        elif sysm == "fcc": Aq = [[o, h, h], [h, o, h], [h, h, o]]
        elif sysm == "bcc": Aq = [[-h, h, h], [h, -h, h], [h, h, -h]]
        elif sysm == "tet": Aq = [[i, o, o], [o, i, o], [o, o, c]]
        elif sysm == "bct": Aq = [[-h, h, h], [h, -h, h], [c / 2, c / 2, -c / 2]]
        elif sysm == "ortho": Aq = [[i, o, o], [o, b, o], [o, o, c]]
        elif sysm == "ortho-c": Aq = [[h, -h, o], [b / 2, b / 2, o], [o, o, c]]
        elif sysm == "mono": Aq = [[i, o, rng.choice([Fr(1, 5), Fr(3, 10)])], [o, b, o], [o, o, c]]
        elif sysm == "tri": Aq = [[i, Fr(1, 5), Fr(3, 10)], [o, b, Fr(3, 20)], [o, o, c]]
        elif sysm == "rhomb":
            t = rng.choice([Fr(1, 10), Fr(1, 5), Fr(-1, 10)])
            Aq = [[i, t, t], [t, i, t], [t, t, i]]
        elif sysm == "hex":
            csq = rng.choice([Fr(8, 3), Fr(9, 4), Fr(121, 100), Fr(64, 25)])
            A = np.array([[.5, .5, 0.], [-S3 / 2, S3 / 2, 0.], [0., 0., math.sqrt(float(csq))]])
            return sysm, A, [[Fr(1), Fr(-1, 2), Fr(0)], [Fr(-1, 2), Fr(1), Fr(0)], [Fr(0), Fr(0), csq]], None
        else: raise KeyError(sysm)
    A = np.array([[float(x) for x in r] for r in Aq])
    return sysm, A, fmat_mul(fmat_T(Aq), Aq), Aq


def holohedry(g, m=1):
    """all integer matrices with entries in {-m..m} that preserve the exact metric g (independent of the code)"""
    d = len(g)
    G = np.array([[float(x) for x in r] for r in g])
    cols = [np.array(v) for v in itertools.product(range(-m, m + 1), repeat=d) if any(v)]
    match = [[v for v in cols if abs(v @ G @ v - G[k, k]) < 1e-9] for k in range(d)]
    out = []
    for tup in itertools.product(*match):
        S = np.array(tup).T
        if abs(abs(np.linalg.det(S)) - 1) > 1e-9: continue
        if np.abs(S.T @ G @ S - G).max() > 1e-9: continue
        Sf = [[Fr(int(x)) for x in r] for r in S]
        if fmat_mul(fmat_T(Sf), fmat_mul(g, Sf)) == g: out.append(S.astype(int))
    return out


GRID = [Fr(0), Fr(1, 2), Fr(1, 3), Fr(2, 3), Fr(1, 4), Fr(3, 4), Fr(1, 6), Fr(5, 12), Fr(37, 100), Fr(2, 5), Fr(1, 8)]


def mod1(x): return x - math.floor(x)


def random_spec(rng, dim=None, system=None, maxatoms=8, nchem_max=3, spin_mode=None):
    """random lattice + Wyckoff-like decoration: each species is a union of orbits (under the lattice
    holohedry about the origin) of random grid points, or of single general points; optional spins"""
    dim = dim or rng.choice([2, 3])
    sysm, A, g, Aq = lattice(rng, dim, system)
    H = holohedry(g)
    nchem = rng.randint(1, nchem_max)
    basis, used = [], set()
    special = [Fr(0), Fr(1, 2)]
    for c in range(nchem):
        ul = []
        for _ in range(rng.randint(1, 2)):
            pick = rng.random()
            if pick < 0.4: u = tuple(rng.choice(special) for _ in range(dim))
            elif pick < 0.7: u = tuple(rng.choice(special + GRID[:6]) for _ in range(dim))
            else: u = tuple(rng.choice(GRID) for _ in range(dim))
            mode = rng.random()
            if mode < 0.65:   # full orbit under the holohedry about the origin
                orb = []
                for S in H:
                    v = tuple(mod1(sum(int(S[i, j]) * u[j] for j in range(dim))) for i in range(dim))
                    if v not in orb: orb.append(v)
            elif mode < 0.8:  # orbit under inversion only
                orb = [tuple(mod1(x) for x in u)]
                v = tuple(mod1(-x) for x in u)
                if v not in orb: orb.append(v)
            else:
                orb = [tuple(mod1(x) for x in u)]
            if any(v in used for v in orb): continue
            if sum(len(l) for l in basis) + len(ul) + len(orb) > maxatoms: continue
            ul += orb; used.update(orb)
        if not ul:
            for _try in range(50):
                v = tuple(rng.choice(GRID) for _ in range(dim))
                if v not in used:
                    ul = [v]; used.add(v); break
        if ul: basis.append(ul)
    spin_mode = spin_mode if spin_mode is not None else rng.choice(["none", "none", "scalar", "scalar", "vector"])
    spins = None
    if spin_mode == "scalar":
        pat = rng.choice(["random", "ferro", "afm"])
        if pat == "ferro": spins = [[1 for _ in ul] for ul in basis]
        elif pat == "afm": spins = [[(1 if k % 2 == 0 else -1) for k, _ in enumerate(ul)] for ul in basis]
        else: spins = [[rng.choice([1, -1, 0, 2]) for _ in ul] for ul in basis]
    elif spin_mode == "vector":
        ax = [tuple(1 if k == a else 0 for k in range(dim)) for a in range(dim)]
        spins = [[tuple(rng.choice([1, -1]) * x for x in rng.choice(ax)) for _ in ul] for ul in basis]
    return Spec("rand-%dD-%s" % (dim, sysm), A, g, basis, spins, Aq)


def named_specs():
    """named lattices of the suite with exact data"""
    o, h, i = Fr(0), Fr(1, 2), Fr(1)
    out = []
    def add(label, A, g, basis, spins=None, Aq=None): out.append(Spec(label, A, g, basis, spins, Aq))
    def ratl(Aq): return np.array([[float(x) for x in r] for r in Aq]), fmat_mul(fmat_T(Aq), Aq)
    cub = [[i, o, o], [o, i, o], [o, o, i]]; A, g = ratl(cub)
    add("sc", A, g, [[(o, o, o)]], Aq=cub)
    add("b2", A, g, [[(o, o, o)], [(h, h, h)]], Aq=cub)
    add("b2-afm", A, g, [[(o, o, o), (h, h, h)]], spins=[[1, -1]], Aq=cub)
    add("re3", A, g, [[(o, o, o), (h, o, o), (o, h, o), (o, o, h)]], Aq=cub)
    add("fcc-conv", A, g, [[(o, o, o), (o, h, h), (h, o, h), (h, h, o)]], Aq=cub)
    fcc = [[o, h, h], [h, o, h], [h, h, o]]; A, g = ratl(fcc)
    add("fcc", A, g, [[(o, o, o)]], Aq=fcc)
    q = Fr(1, 4)
    add("diamond", A, g, [[(o, o, o), (q, q, q)]], Aq=fcc)
    add("fcc-oct-tet", A, g, [[(o, o, o)], [(h, h, h), (q, q, q), (3 * q, 3 * q, 3 * q)]], Aq=fcc)
    bcc = [[-h, h, h], [h, -h, h], [h, h, -h]]; A, g = ratl(bcc)
    add("bcc", A, g, [[(o, o, o)]], Aq=bcc)
    for csq, nm in ((Fr(8, 3), "hcp"), (Fr(9, 4), "hcp-nonideal")):
        A = np.array([[.5, .5, 0.], [-S3 / 2, S3 / 2, 0.], [0., 0., math.sqrt(float(csq))]])
        g = [[i, -h, o], [-h, i, o], [o, o, csq]]
        add(nm, A, g, [[(Fr(1, 3), Fr(2, 3), q), (Fr(2, 3), Fr(1, 3), 3 * q)]])
        add(nm + "-afm", A, g, [[(Fr(1, 3), Fr(2, 3), q), (Fr(2, 3), Fr(1, 3), 3 * q)]], spins=[[1, -1]])
    A, g = ratl(fcc)
    add("diamond-afm", A, g, [[(o, o, o), (q, q, q)]], spins=[[1, -1]], Aq=fcc)
    add("diamond-ferri", A, g, [[(o, o, o), (q, q, q)]], spins=[[2, -1]], Aq=fcc)
    tet = [[i, o, o], [o, i, o], [o, o, Fr(13, 10)]]; A, g = ratl(tet)
    add("polar", A, g, [[(o, o, o), (h, h, Fr(2, 5))]], Aq=tet)
    add("polar2w", A, g, [[(o, o, o)], [(h, h, Fr(2, 5)), (o, h, Fr(17, 100)), (h, o, Fr(17, 100))]], Aq=tet)
    sq = [[i, o], [o, i]]; A, g = ratl(sq)
    add("square", A, g, [[(o, o)]], Aq=sq)
    add("sq2w", A, g, [[(o, o), (h, o), (o, h)]], Aq=sq)
    add("square-afm", A, g, [[(o, o), (h, h)]], spins=[[1, -1]], Aq=sq)
    A = np.array([[1., -.5], [0., S3 / 2]]); g = [[i, -h], [-h, i]]
    add("tria", A, g, [[(o, o)]])
    add("honeycomb", A, g, [[(Fr(1, 3), Fr(2, 3)), (Fr(2, 3), Fr(1, 3))]])
    add("honeycomb-afm", A, g, [[(Fr(1, 3), Fr(2, 3)), (Fr(2, 3), Fr(1, 3))]], spins=[[1, -1]])
    add("honeycomb-afm-vector", A, g, [[(Fr(1, 3), Fr(2, 3)), (Fr(2, 3), Fr(1, 3))]], spins=[[(1, 0), (-1, 0)]])
    rect = [[i, o], [o, Fr(13, 10)]]; A, g = ratl(rect)
    add("rect-polar2d", A, g, [[(o, o), (h, Fr(37, 100))]], Aq=rect)
    return out


def build(spec, **kw):
    """the implementation's crystal for a spec (float lattice, float positions, spins)"""
    return crystal.Crystal(spec.A, spec.fbasis(), spins=spec.fspins(), **kw)


# ------------------------------------------------------------------------------------------------
class View:
    """exact description of the implementation's cell: g (Fractions), basis (Fractions), scalar integer spins
    (or None when spins are vectors), U (rational change of basis from the spec's cell)"""
    pass


def exact_view(crys, spec, Umaxden=720, posmaxden=5040):
    v = View()
    d = crys.dim
    Uf = np.linalg.solve(spec.A, crys.lattice)
    v.U = [[rat(Uf[i, j], Umaxden) for j in range(d)] for i in range(d)]
    v.g = fmat_mul(fmat_T(v.U), fmat_mul(spec.g, v.U))
    gf = np.array([[float(x) for x in r] for r in v.g])
    if np.abs(gf - crys.metric).max() > 1e-9 * max(1.0, np.abs(gf).max()):
        raise Irrational("metric of the implementation's cell differs from U^T g U")
    v.basis = [[tuple(rat(x, posmaxden) for x in u) for u in ul] for ul in crys.basis]
    v.dim = d
    v.vector_spins = False
    if crys.spins is None:
        v.spins = [[0 for _ in ul] for ul in crys.basis]
    else:
        v.spins = []
        for sl in crys.spins:
            row = []
            for s in sl:
                if isinstance(s, np.ndarray):
                    v.vector_spins = True; row.append(0)
                else:
                    if abs(complex(s).imag) > 1e-9 or abs(complex(s).real - round(complex(s).real)) > 1e-9:
                        raise Irrational("non-integer scalar spin %r" % (s,))
                    row.append(int(round(complex(s).real)))
            v.spins.append(row)
    return v


def exact_ops(crys, posmaxden=5040):
    """the implementation's group as exact data, in a deterministic order"""
    ops = []
    for g in crys.G:
        rot = np.array(g.rot)
        if rot.shape != (crys.dim, crys.dim) or not np.issubdtype(rot.dtype, np.integer):
            ops.append({"bad": "rot has shape %s dtype %s for a %d-dimensional crystal" % (rot.shape, rot.dtype, crys.dim), "g": g})
            continue
        ops.append({"rot": [[int(x) for x in r] for r in rot], "trans": [rat(x, posmaxden) for x in g.trans],
                    "perm": [list(int(x) for x in p) for p in g.indexmap], "g": g})
    ops.sort(key=lambda o: (o.get("rot", []), [float(x) for x in o.get("trans", [])], o.get("perm", [])))
    return ops


def common_den(view, ops=()):
    xs = [x for ul in view.basis for u in ul for x in u]
    for o in ops: xs += list(o.get("trans", []))
    return lcmden(xs)


def coq_crystal(view, D):
    gs = lcmden([x for r in view.g for x in r])
    return "(mkCrys %s %s %s %s %s)" % (
        coq_nat(view.dim), coq_Z(D),
        coq_list([coq_list([coq_Z(int(x * gs)) for x in r]) for r in view.g]),
        coq_list([coq_list([coq_list([coq_Z(int(x * D)) for x in u]) for u in ul]) for ul in view.basis]),
        coq_list([coq_list([coq_Z(s) for s in sl]) for sl in view.spins]))


def coq_op(o, D):
    return "(mkOp %s %s %s)" % (
        coq_list([coq_list([coq_Z(x) for x in r]) for r in o["rot"]]),
        coq_list([coq_Z(int(x * D)) for x in o["trans"]]),
        coq_list([coq_list([coq_nat(x) for x in p]) for p in o["perm"]]))


IMPORTS = """From Coq Require Import List ZArith.
From Onsager Require Import Model.Lattice.
Import ListNotations.
Local Open Scope Z_scope.
"""


def parse_Zlist(out):
    """parse the `= [a; b; ...] : list Z` answers of a cases file -> list of lists of int"""
    import re
    res = []
    for blk in re.findall(r"=\s*(\[[^\]]*\])\s*:\s*list Z", out.replace("\n", " ")):
        res.append([int(x) for x in re.findall(r"-?\d+", blk.replace("%Z", ""))])
    return res


# ------------------------------------------------------------------------------------------------
# independent exact evaluation in Python (finds the concrete failing operation; also used when a
# group is too large for the Coq closure test)
def py_check_op(view, o, spins_float=None, cartrot=None):
    """-> None if the operation is valid in exact arithmetic, else a short reason"""
    d = view.dim
    S = [[Fr(x) for x in r] for r in o["rot"]]
    if fmat_mul(fmat_T(S), fmat_mul(view.g, S)) != view.g: return "metric not preserved"
    if abs(fdet(S)) != 1: return "|det rot| != 1"
    if len(o["perm"]) != len(view.basis): return "indexmap has the wrong number of species"
    for c, ul in enumerate(view.basis):
        p = o["perm"][c]
        if sorted(p) != list(range(len(ul))): return "indexmap[%d] is not a permutation" % c
        for i, u in enumerate(ul):
            w = [a + b - x for a, b, x in zip(fmat_vec(S, list(u)), o["trans"], ul[p[i]])]
            if any(x.denominator != 1 for x in w): return "atom %d.%d is not mapped onto atom %d.%d" % (c, i, c, p[i])
    return None


def py_spin_ok(crys, g, tol=1e-8):
    """exists a phase (any 4th or 6th root of unity) with spin[perm i] = phase * rot(spin i) for all atoms"""
    if crys.spins is None: return True
    phases = [np.exp(2j * np.pi * k / 12) for k in range(12)]
    det = round(float(np.linalg.det(g.cartrot)))
    for ph in phases:
        ok = True
        for c, sl in enumerate(crys.spins):
            for i, s in enumerate(sl):
                rs = np.dot(g.cartrot, s) if isinstance(s, np.ndarray) else det * s
                if not np.allclose(crys.spins[c][g.indexmap[c][i]], ph * rs, atol=tol):
                    ok = False; break
            if not ok: break
        if ok: return True
    return False


def eq_mod(o1, o2):
    return (o1["rot"] == o2["rot"] and o1["perm"] == o2["perm"]
            and all((a - b).denominator == 1 for a, b in zip(o1["trans"], o2["trans"])))


def py_mul(a, b):
    Sa = [[Fr(x) for x in r] for r in a["rot"]]
    rot = [[int(x) for x in r] for r in fmat_mul(Sa, [[Fr(x) for x in r] for r in b["rot"]])]
    tr = [x + y for x, y in zip(fmat_vec(Sa, list(b["trans"])), a["trans"])]
    return {"rot": rot, "trans": tr, "perm": [[pa[i] for i in pb] for pa, pb in zip(a["perm"], b["perm"])]}


def py_inv(a):
    Si = finv([[Fr(x) for x in r] for r in a["rot"]])
    return {"rot": [[int(x) for x in r] for r in Si], "trans": [-x for x in fmat_vec(Si, list(a["trans"]))],
            "perm": [[j for _, j in sorted((y, j) for j, y in enumerate(p))] for p in a["perm"]]}


def key_mod(o):
    return (tuple(map(tuple, o["rot"])), tuple(x - math.floor(x) for x in o["trans"]), tuple(map(tuple, o["perm"])))


def py_check_group(view, ops):
    """-> None or reason; exact, O(n^2) with hashing modulo lattice translations"""
    d = view.dim
    keys = {}
    for k, o in enumerate(ops):
        kk = key_mod(o)
        if kk in keys: return "operations %d and %d are equal modulo lattice translations" % (keys[kk], k)
        keys[kk] = k
    ident = {"rot": [[1 if i == j else 0 for j in range(d)] for i in range(d)], "trans": [Fr(0)] * d,
             "perm": [list(range(len(ul))) for ul in view.basis]}
    if key_mod(ident) not in keys: return "identity missing"
    for i, a in enumerate(ops):
        if key_mod(py_inv(a)) not in keys: return "inverse of operation %d missing" % i
        for j, b in enumerate(ops):
            if key_mod(py_mul(a, b)) not in keys: return "product of operations %d and %d missing" % (i, j)
    return None


def independent_group_order(view, spins_scalar=True):
    """order of the full space group modulo lattice translations restricted to rotation parts with entries in
    {-1,0,1}, computed independently of the implementation (exact; scalar integer spins up to a sign)"""
    d = view.dim
    H = holohedry(view.g)
    cmin = min(range(len(view.basis)), key=lambda c: len(view.basis[c]))
    found = set()
    for S in H:
        Sf = [[Fr(int(x)) for x in r] for r in S]
        img = [[fmat_vec(Sf, list(u)) for u in ul] for ul in view.basis]
        for j, ub in enumerate(view.basis[cmin]):
            t = [mod1(a - b) for a, b in zip(ub, img[cmin][0])]
            for sgn in (1, -1):
                ok = True; perm = []
                for c, ul in enumerate(view.basis):
                    where = {tuple(mod1(x) for x in u): k for k, u in enumerate(ul)}
                    p = []
                    for i, w in enumerate(img[c]):
                        k = where.get(tuple(mod1(a + b) for a, b in zip(w, t)))
                        if k is None or view.spins[c][k] != sgn * view.spins[c][i]:
                            ok = False; break
                        p.append(k)
                    if not ok: break
                    perm.append(tuple(p))
                if ok: found.add((tuple(map(tuple, S.tolist())), tuple(t), tuple(perm)))
    return len(found)


def pure_translations(view):
    """non-zero translations (mod 1) that map every species (and spin) onto itself: non-empty <=> the cell is not primitive"""
    c0 = min(range(len(view.basis)), key=lambda c: len(view.basis[c]))
    out = []
    sets = [{(tuple(mod1(x) for x in u), s) for u, s in zip(ul, sl)} for ul, sl in zip(view.basis, view.spins)]
    u0 = view.basis[c0][0]
    for ub in view.basis[c0][1:]:
        t = tuple(mod1(a - b) for a, b in zip(ub, u0))
        if all(x == 0 for x in t): continue
        if all({(tuple(mod1(a + b) for a, b in zip(u, t)), s) for (u, s) in st} == st for st in sets): out.append(t)
    return out


def skew(rng, spec, nshear=2):
    """the same crystal described in a sheared (unimodular, non-reduced) cell"""
    d = spec.dim
    U = [[Fr(int(i == j)) for j in range(d)] for i in range(d)]
    for _ in range(rng.randint(1, nshear)):
        a, b = rng.sample(range(d), 2)
        E = [[Fr(int(i == j)) for j in range(d)] for i in range(d)]; E[a][b] = Fr(rng.choice([1, -1, 2]))
        U = fmat_mul(U, E)
    Ui = finv(U)
    A2 = spec.A @ np.array([[float(x) for x in r] for r in U])
    g2 = fmat_mul(fmat_T(U), fmat_mul(spec.g, U))
    basis = [[tuple(mod1(x) for x in fmat_vec(Ui, list(u))) for u in ul] for ul in spec.basis]
    Aq = fmat_mul(spec.Aq, U) if spec.Aq is not None else None
    return Spec(spec.label + "+skew", A2, g2, basis, spec.spins, Aq), U


def afm_supercell(spec, w, base_spins=None, label=None, flip=None):
    """index-2 magnetic supercell: the sublattice {n : w.n even} of the spec's lattice, every atom repeated in the two
    cosets, the spin reversed in the odd coset (an ANTI-translation: pure translation combined with spin reversal).
    w = e_k doubles the cell along a_k; w = (1,1,1) keeps the 3-fold axis along a_1+a_2+a_3 of cubic/rhombohedral cells.
    base_spins: per-atom scalar ints or vector tuples (default: the spec's spins, else +1 everywhere)."""
    d = spec.dim
    k = [i for i in range(d) if w[i] % 2][0]
    cols = []
    for j in range(d):
        v = [0] * d
        if j == k: v[k] = 2
        else:
            v[j] = 1; v[k] = w[j] % 2
        cols.append(v)
    N = [[Fr(cols[j][i]) for j in range(d)] for i in range(d)]      # columns = kernel basis
    Ni = finv(N)
    spins0 = base_spins if base_spins is not None else (spec.spins if spec.spins is not None else [[1 for _ in ul] for ul in spec.basis])
    ek = [Fr(int(i == k)) for i in range(d)]
    basis, spins = [], []
    flip = flip if flip is not None else [True] * len(spec.basis)      # flip[c] False: species c keeps its spin (ferromagnetic sublattice)
    for ul, sl, fl in zip(spec.basis, spins0, flip):
        bl, pl = [], []
        for u, s0 in zip(ul, sl):
            for x, sgn in (([Fr(0)] * d, 1), (ek, -1 if fl else 1)):
                v = tuple(mod1(y) for y in fmat_vec(Ni, [a + b for a, b in zip(u, x)]))
                bl.append(v)
                pl.append(tuple(sgn * c for c in s0) if isinstance(s0, tuple) else sgn * s0)
        basis.append(bl); spins.append(pl)
    A2 = spec.A @ np.array([[float(x) for x in r] for r in N])
    g2 = fmat_mul(fmat_T(N), fmat_mul(spec.g, N))
    Aq = fmat_mul(spec.Aq, N) if spec.Aq is not None else None
    return Spec(label or (spec.label + "+afm" + "".join(str(x % 2) for x in w)), A2, g2, basis, spins, Aq)


def texture_specs():
    """non-collinear VECTOR-spin crystals whose spins are related by 3-, 4-, 6-fold rotations (spins are floats: evaluated by the
    float-side spin test; positions / metric exact): kagome 120-degree q=0 textures of both chiralities (2-D with 2-vector spins and
    3-D with 3-vector spins), a square-lattice 4-sublattice vortex and anti-vortex, pyrochlore (fcc) all-in-all-out and 2-in-2-out"""
    o, h, q, i = Fr(0), Fr(1, 2), Fr(1, 4), Fr(1)
    out = []
    ang = lambda deg, dim=2: tuple([math.cos(math.radians(deg)), math.sin(math.radians(deg))] + [0.0] * (dim - 2))
    # kagome: hexagonal net, sites a1/2, a2/2, (a1+a2)/2
    A2 = np.array([[1., -.5], [0., S3 / 2]]); g2 = [[i, -h], [-h, i]]
    kag = [(h, o), (o, h), (h, h)]
    for nm, degs in (("kagome-120-chirality+", (90, 210, 330)), ("kagome-120-chirality-", (90, 330, 210)), ("kagome-120-radial", (0, 120, 240))):
        out.append(Spec(nm, A2, g2, [list(kag)], [[ang(a) for a in degs]]))
    csq = Fr(8, 3)
    A3 = np.array([[.5, .5, 0.], [-S3 / 2, S3 / 2, 0.], [0., 0., math.sqrt(float(csq))]]); g3 = [[i, -h, o], [-h, i, o], [o, o, csq]]
    kag3 = [(h, o, o), (o, h, o), (h, h, o)]
    # in this 3-D cell a1 = (1/2,-sqrt3/2,0), a2 = (1/2,sqrt3/2,0): site directions at -60, 60, 0 degrees
    for nm, degs in (("kagome3d-120-chirality+", (30, 150, 270)), ("kagome3d-120-chirality-", (30, 270, 150)), ("kagome3d-120-tangential", (30, 150, 270))):
        if nm.endswith("tangential"): degs = (-60 + 90, 60 + 90, 0 + 90)
        out.append(Spec(nm, A3, g3, [list(kag3)], [[ang(a, 3) for a in degs]]))
    # square lattice, 4 sublattices around the cell centre
    sq = [[i, o], [o, i]]; Asq = np.eye(2); gsq = [[i, o], [o, i]]
    pos = [(q, q), (3 * q, q), (3 * q, 3 * q), (q, 3 * q)]
    r2 = 1 / math.sqrt(2.)
    vortex = [(r2, -r2), (r2, r2), (-r2, r2), (-r2, -r2)]            # tangential, counter-clockwise
    anti = [(r2, -r2), (-r2, -r2), (-r2, r2), (r2, r2)]                # anti-vortex
    radial = [(-r2, -r2), (r2, -r2), (r2, r2), (-r2, r2)]
    for nm, sp in (("square-vortex", vortex), ("square-antivortex", anti), ("square-radial", radial)):
        out.append(Spec(nm, Asq, gsq, [list(pos)], [list(sp)], sq))
    # pyrochlore: fcc primitive cell, sites (0,0,0), (1/2,0,0), (0,1/2,0), (0,0,1/2); local <111> axes from the tetrahedron centre
    fcc = [[o, h, h], [h, o, h], [h, h, o]]
    Af = np.array([[float(x) for x in r] for r in fcc]); gf = fmat_mul(fmat_T(fcc), fcc)
    pyro = [(o, o, o), (h, o, o), (o, h, o), (o, o, h)]
    r3 = 1 / math.sqrt(3.)
    axes = [(-r3, -r3, -r3), (-r3, r3, r3), (r3, -r3, r3), (r3, r3, -r3)]
    out.append(Spec("pyrochlore-all-in-all-out", Af, gf, [list(pyro)], [list(axes)], fcc))
    out.append(Spec("pyrochlore-2in-2out", Af, gf, [list(pyro)], [[axes[0], axes[1], tuple(-x for x in axes[2]), tuple(-x for x in axes[3])]], fcc))
    out.append(Spec("pyrochlore-with-spectator", Af, gf, [list(pyro), [(h, h, h)]], [list(axes), [(0.0, 0.0, 0.0)]], fcc))
    # MIXED spin representation: a non-magnetic species with the scalar spin 0 (what Crystal.addbasis produces) next to a species with
    # vector moments -- listed first, listed last, and the all-vector form with zero vectors
    tet = [[i, o, o], [o, i, o], [o, o, Fr(13, 10)]]
    At = np.array([[float(x) for x in r] for r in tet]); gt = fmat_mul(fmat_T(tet), tet)
    cub = [[i, o, o], [o, i, o], [o, o, i]]
    Ac = np.eye(3); gc = fmat_mul(fmat_T(cub), cub)
    X, M1 = [(o, o, o)], [(h, h, h)]
    M2 = [(h, h, Fr(1, 4)), (h, h, Fr(3, 4))]
    c15 = (math.cos(math.radians(15)), math.sin(math.radians(15)), 0.0); c15m = (-math.cos(math.radians(15)), math.sin(math.radians(15)), 0.0)
    for nm, Aq_, A_, g_, mag, vec in (("tet-moment-x", tet, At, gt, M1, [(1.0, 0.0, 0.0)]), ("tet-moment-z", tet, At, gt, M1, [(0.0, 0.0, 1.0)]),
                                      ("tet-moment-110", tet, At, gt, M1, [(r2, r2, 0.0)]), ("cubic-moment-111", cub, Ac, gc, M1, [(r3, r3, r3)]),
                                      ("cubic-moment-x", cub, Ac, gc, M1, [(1.0, 0.0, 0.0)]), ("tet-canted-afm", tet, At, gt, M2, [c15, c15m]),
                                      ("tet-afm-x", tet, At, gt, M2, [(1.0, 0.0, 0.0), (-1.0, 0.0, 0.0)])):
        out.append(Spec("mixed-" + nm + "-scalar0-first", A_, g_, [list(X), list(mag)], [[0], list(vec)], Aq_))
        out.append(Spec("mixed-" + nm + "-scalar0-last", A_, g_, [list(mag), list(X)], [list(vec), [0]], Aq_))
        out.append(Spec("mixed-" + nm + "-zero-vector", A_, g_, [list(X), list(mag)], [[(0.0, 0.0, 0.0)], list(vec)], Aq_))
    # hexagonal: kagome moments with a non-magnetic scalar-0 species at the hexagon centre, listed first
    out.append(Spec("mixed-kagome3d-scalar0-first", A3, g3, [[(o, o, o)], list(kag3)], [[0], [ang(a, 3) for a in (30, 150, 270)]]))
    out.append(Spec("mixed-kagome2d-scalar0-first", A2, g2, [[(o, o)], list(kag)], [[0], [ang(a) for a in (90, 210, 330)]]))
    return out


def nonsymmorphic_specs(rng=None, nrandom=0):
    """multi-chemistry crystals with NON-SYMMORPHIC operations in which one chemistry occupies a sublattice that is more symmetric
    than the whole crystal (A on a centred sublattice {0, c}) and another one (B at u and c + m u, m a mirror / two-fold axis)
    breaks the centring: for the screw / glide operations the first translation maptranslation() tries maps A but not B.
    Every crystal is produced with the symmetric chemistry listed first AND last, with equal and unequal site counts."""
    o, h, i = Fr(0), Fr(1, 2), Fr(1)
    out = []
    def add(label, Aq, chems):
        A = np.array([[float(x) for x in r] for r in Aq]); g = fmat_mul(fmat_T(Aq), Aq)
        out.append(Spec(label, A, g, [list(c) for c in chems], None, Aq))
        out.append(Spec(label + "-reversed", A, g, [list(c) for c in chems[::-1]], None, Aq))
    def fam(tag, Aq, c, m, u, extra=None):
        d = len(Aq)
        Asub = [tuple([o] * d), tuple(c)]
        mu = lambda v: tuple(mod1(ck + mk * vk) for ck, mk, vk in zip(c, m, v))
        B = [tuple(mod1(x) for x in u), mu(u)]
        add(tag, Aq, [Asub, B])
        if extra is not None:      # unequal site counts: a four-atom breaker, and a third single-atom chemistry on a special position
            e = tuple(mod1(x) for x in extra)
            me = tuple(mod1(-x) if k == 0 else x for k, x in enumerate(e))
            B4 = [e, me, mu(e), mu(me)]
            if len(set(B4)) == 4 and not (set(B4) & set(Asub)):
                add(tag + "-4", Aq, [Asub, B4])
                s3 = tuple([h] + [o] * (d - 1))
                C2 = [s3, tuple(mod1(a + b) for a, b in zip(s3, c))]
                if len(set(C2)) == 2 and not (set(C2) & (set(B4) | set(Asub))):
                    add(tag + "-3chem", Aq, [Asub, C2, B4])
    ortho = [[i, o, o], [o, Fr(6, 5), o], [o, o, Fr(3, 2)]]
    tet = [[i, o, o], [o, i, o], [o, o, Fr(13, 10)]]
    cub = [[i, o, o], [o, i, o], [o, o, i]]
    rect = [[i, o], [o, Fr(13, 10)]]
    sq = [[i, o], [o, i]]
    fam("ns-ortho-I", ortho, (h, h, h), (1, 1, -1), (o, o, Fr(1, 5)), extra=(Fr(1, 8), o, Fr(1, 5)))
    fam("ns-tet-I", tet, (h, h, h), (1, 1, -1), (o, o, Fr(3, 10)), extra=(Fr(1, 6), o, Fr(3, 10)))
    fam("ns-cubic-I", cub, (h, h, h), (1, 1, -1), (o, o, Fr(1, 5)))
    fam("ns-ortho-C", ortho, (h, h, o), (1, -1, 1), (o, Fr(1, 5), Fr(1, 3)), extra=(Fr(1, 8), Fr(1, 5), Fr(1, 3)))
    fam("ns-ortho-a", ortho, (h, o, o), (1, -1, 1), (Fr(1, 8), Fr(1, 5), o))
    fam("ns-rect-glide", rect, (h, h), (1, -1), (o, Fr(1, 5)), extra=(Fr(1, 8), Fr(1, 5)))
    fam("ns-square-glide", sq, (h, h), (1, -1), (o, Fr(3, 10)))
    for k in range(nrandom):
        d = rng.choice([2, 3, 3])
        Aq = rng.choice([rect, sq] if d == 2 else [ortho, tet, cub])
        c = tuple(rng.choice([o, h]) for _ in range(d))
        if not any(c): c = tuple([h] * d)
        m = tuple(rng.choice([1, -1]) for _ in range(d))
        if all(x == 1 for x in m): m = tuple([1] * (d - 1) + [-1])
        u = tuple(rng.choice([o, o, Fr(1, 5), Fr(3, 10), Fr(1, 8), Fr(1, 3)]) for _ in range(d))
        if u in (tuple([o] * d), c) or tuple(mod1(ck + mk * vk) for ck, mk, vk in zip(c, m, u)) in (u, tuple([o] * d), c): continue
        fam("ns-rand%d" % k, Aq, c, m, u, extra=tuple(rng.choice([Fr(1, 8), Fr(1, 5), Fr(1, 3), Fr(1, 6)]) for _ in range(d)) if rng.random() < 0.5 else None)
    return out


def glide_specs():
    """2-D plane groups with glide lines (pg, pmg, pgg, p4g) from general positions, and 3-D non-symmorphic ones (Pnma-like 4 sites, hcp)"""
    o, h, i = Fr(0), Fr(1, 2), Fr(1)
    out = []
    rect = [[i, o], [o, Fr(7, 5)]]; sq = [[i, o], [o, i]]
    x, y = Fr(13, 100), Fr(1, 5)
    m = lambda *v: tuple(mod1(a) for a in v)
    def add(label, Aq, basis):
        A = np.array([[float(t) for t in r] for r in Aq]); out.append(Spec(label, A, fmat_mul(fmat_T(Aq), Aq), basis, None, Aq))
    add("pg", rect, [[m(x, y), m(x + h, -y)]])
    add("pmg", rect, [[m(x, y), m(-x, -y), m(-x + h, y), m(x + h, -y)]])
    add("pgg", rect, [[m(x, y), m(-x, -y), m(x + h, -y + h), m(-x + h, y + h)]])
    add("p4g", sq, [[m(x, y), m(-x, -y), m(-y, x), m(y, -x), m(-x + h, y + h), m(x + h, -y + h), m(y + h, x + h), m(-y + h, -x + h)]])
    add("pg-2species", rect, [[m(x, y), m(x + h, -y)], [m(Fr(3, 10), Fr(2, 5)), m(Fr(4, 5), Fr(3, 5))]])
    orth = [[i, o, o], [o, Fr(7, 5), o], [o, o, Fr(19, 10)]]
    add("pnma-4site", orth, [[m(Fr(1, 10), Fr(1, 4), Fr(1, 5)), m(Fr(3, 5), Fr(1, 4), Fr(3, 10)), m(Fr(9, 10), Fr(3, 4), Fr(4, 5)), m(Fr(2, 5), Fr(3, 4), Fr(7, 10))]])
    out += [s_ for s_ in named_specs() if s_.label in ("hcp", "diamond")]
    return out


def rotate_frame(spec, Q, tag="+rot"):
    """the same crystal in a rigidly rotated Cartesian frame: lattice Q A (not a symmetric matrix any more), same metric / coordinates"""
    Q = np.asarray(Q, dtype=float)[:spec.dim, :spec.dim]
    return Spec(spec.label + tag, Q @ spec.A, spec.g, spec.basis, spec.spins, None)


def random_rotation(rng, dim):
    if dim == 2:
        t = rng.uniform(0.2, 2.9); return np.array([[math.cos(t), -math.sin(t)], [math.sin(t), math.cos(t)]])
    v = np.array([rng.gauss(0, 1) for _ in range(3)]); v /= np.linalg.norm(v); t = rng.uniform(0.2, 2.9)
    K = np.array([[0, -v[2], v[1]], [v[2], 0, -v[0]], [-v[1], v[0], 0]])
    return np.eye(3) + math.sin(t) * K + (1 - math.cos(t)) * K @ K
