"""C13  Saved and reloaded calculators reproduce results exactly.

Coq (Model/Codec.v, Properties/C13.v): round-trip theorems, with exact well-formedness conditions, for the list
codecs the HDF5 code uses (flat list + index array, PairState arrays, vTK-keyed dictionaries, index arrays of
partitions).  PARTIAL: HDF5/YAML byte formats and the numerical kernels are outside the model.
Tie: (a) correspondence -- the implementation's codec functions and the load/save loops of real StarSets
against the Gallina codecs inside Coq on random nested lists (incl. empty / trailing-empty / unsorted);
(b) well-formedness predicates of the theorems checked on every list the real objects store;
(c) direct evaluator -- save/load (h5py in-memory) of VacancyMediated (before and after cache population),
GFCrystalcalc, StarSet, VectorStarSet, Taylor expansions: every attribute that Lij / tags2preene / the GF
evaluation READ (read-set derived from the current source by ast) is present and identical, and results, tags
and tags2preene outputs are identical for further random inputs; YAML round trips of Crystal, GroupOp,
PairState, ClusterSite, Cluster."""
META = dict(
    level="proof",
    text=("Coq round-trip theorems (all element types, all lengths) for doublelist2flatlistindex/flatlistindex2doublelist "
          "(identity iff non-empty with non-empty last list; in general trailing empty lists are lost; refuted witness), the "
          "decoder on arbitrary index arrays (sitelist-from-invmap, stars-from-index), PSlist2array/array2PSlist, "
          "vTKdict2arrays/arrays2vTKdict (exact for equal-shape keys). In-Coq correspondence with the implementation's codecs "
          "on random nested lists and on the index arrays of real StarSets; evaluator: HDF5 save/load of calculators (2-D, "
          "multi-site, multi-Wyckoff, 3-D; before/after cache population), GF calculators, star sets, vector star sets, Taylor "
          "expansions with ast-derived read-sets compared field by field and bit-identical results/tags for further inputs; "
          "YAML round trips of the value types."),
    note=("PARTIAL: HDF5/YAML byte formats, h5py/PyYAML and the numerics are trusted, not modelled; the frame argument "
          "(equal read-set => equal results) is checked per run (read-set by ast + bit-identical results), not proved. "
          "Observation (outside 'results and tags'): loadhdf5 does not restore `threshold`, so makesupercells() of a reloaded "
          "calculator raises AttributeError. Nthermo=0 calculators cannot be constructed at all (generate(0) returns early)."),
    technique="Coq proof (list induction) + in-Coq correspondence + save/load evaluator with source-derived read-sets",
)

import ast, os, itertools
import numpy as np
from .lib import CoqFailure, coq_Z, coq_list, coq_bool, coq_nat
from .pscommon import Once, run_nat_cases, random_thermo, encode
from . import gen

IMPORTS = """From Coq Require Import List ZArith Arith Bool.
From Onsager Require Import Model.Codec Proofs.Codec_proofs.
Import ListNotations.
Fixpoint leqb {A} (e : A -> A -> bool) (a b : list A) : bool :=
  match a, b with [], [] => true | x :: a', y :: b' => e x y && leqb e a' b' | _, _ => false end.
Definition lleqb := leqb (leqb Nat.eqb).
Definition olleqb (a b : option (list (list nat))) : bool :=
  match a, b with None, None => true | Some x, Some y => lleqb x y | _, _ => false end.
(* (ll, impl flat, impl index, impl decode of (flat, index) or None if it raised) *)
Definition run_flat (c : list (list nat) * list nat * list nat * option (list (list nat))) : nat :=
  let '(ll, f, i, d) := c in
  if negb (leqb Nat.eqb (fst (encode ll)) f) then 1 else if negb (leqb Nat.eqb (snd (encode ll)) i) then 2
  else if negb (olleqb (decode f i) d) then 3
  else if negb (Bool.eqb (wf_ll ll) (olleqb d (Some ll))) then 4 else 0.
(* decoder on an arbitrary (unsorted) index array *)
Definition run_dec (c : list nat * list nat * option (list (list nat))) : nat :=
  let '(f, i, d) := c in if olleqb (decode f i) d then 0 else 1.
(* partition <-> index array as written by addhdf5 and read back by loadhdf5 *)
Definition run_inv (c : list (list nat) * list nat * list (list nat)) : nat :=
  let '(ll, inv, back) := c in
  if negb (leqb Nat.eqb (invmap_of (length inv) ll) inv) then 1
  else if negb (olleqb (lists_of_index inv) (Some back)) then 2 else 0.
Definition zz := (Z * Z)%type.
Definition zzeqb (a b : zz) := Z.eqb (fst a) (fst b) && Z.eqb (snd a) (snd b).
Definition roweqb (a b : psrow zz (list Z) (list Z)) :=
  zzeqb (r_ij _ _ _ a) (r_ij _ _ _ b) && leqb Z.eqb (r_R _ _ _ a) (r_R _ _ _ b) && leqb Z.eqb (r_dx _ _ _ a) (r_dx _ _ _ b).
(* (rows, impl arrays or None, impl array2PSlist of them) *)
Definition run_ps (c : list (psrow zz (list Z) (list Z)) * option (list zz * list (list Z) * list (list Z)) * list (psrow zz (list Z) (list Z))) : nat :=
  let '(l, arr, back) := c in
  match ps2arrays l, arr with
  | None, None => 0
  | Some (a, b, x), Some (a', b', x') =>
    if negb (leqb zzeqb a a' && leqb (leqb Z.eqb) b b' && leqb (leqb Z.eqb) x x') then 1
    else if negb (leqb roweqb (arrays2ps (a', b', x')) back) then 2 else if negb (leqb roweqb back l) then 3 else 0
  | _, _ => 4
  end.
(* Cluster._asdict keys (0 clustersitelist, 1 transition, 2 vacancy; 9 = anything else) for given constructor flags, and the
   flags of the reloaded cluster *)
Definition run_clflags (c : bool * bool * list nat * bool * bool) : nat :=
  let '(t, v, ks, t', v') := c in
  if negb (leqb Nat.eqb (cluster_asdict_keys t v) ks) then 1
  else if negb (Bool.eqb (fst (cluster_flags_of_keys ks)) t' && Bool.eqb (snd (cluster_flags_of_keys ks)) v') then 2
  else if negb (Bool.eqb t t' && Bool.eqb v v') then 3 else 0.
(* a numbered family with n members: the order in which h5py iterates the sub-group names (their numeric suffixes) is the
   alphabetical order of the decimal names, and reading by number restores 0..n-1 *)
Definition run_family (c : nat * list nat) : nat :=
  let '(n, iterated) := c in
  if negb (leqb Nat.eqb (read_alphabetical (write_family digits (seq 0 n))) iterated) then 1
  else if negb (leqb (fun a b => match a, b with Some x, Some y => Nat.eqb x y | _, _ => false end)
                     (read_by_number lnat_eqb digits (write_family digits (seq 0 n)) n) (map Some (seq 0 n))) then 2 else 0.
Definition keyeqb (a b : vkey Z) : bool :=
  let '(a1, a2, a3, a4) := a in let '(b1, b2, b3, b4) := b in
  leqb Z.eqb a1 b1 && leqb Z.eqb a2 b2 && leqb Z.eqb a3 b3 && leqb Z.eqb a4 b4.
Definition kveqb (a b : vkey Z * Z) := keyeqb (fst a) (fst b) && Z.eqb (snd a) (snd b).
(* (dict, impl (rows, values, splits) or None, impl arrays2vTKdict of them) *)
Definition run_vtk (c : list (vkey Z * Z) * option (list (list Z) * list Z * list nat) * list (vkey Z * Z)) : nat :=
  let '(d, arr, back) := c in
  match dict2arrays d, arr with
  | None, None => if leqb kveqb back [] then 0 else 5
  | Some (r, v, s), Some (r', v', s') =>
    if negb (leqb (leqb Z.eqb) r r' && leqb Z.eqb v v' && leqb Nat.eqb s s') then 1
    else if negb (leqb kveqb (arrays2dict (Some (r', v', s'))) back) then 2 else if negb (leqb kveqb back d) then 3 else 0
  | _, _ => 4
  end.
"""


def nl(v): return coq_list([coq_nat(int(x)) for x in v])
def nll(ll): return coq_list([nl(x) for x in ll])
def zl(v): return coq_list([coq_Z(int(x)) for x in v])
def onll(x): return "None" if x is None else "(Some %s)" % nll(x)


# ------------------------------------------------------------------------------------------------
def codec_correspondence(ck, rng, V):
    from onsager import crystalStars as stars
    from onsager import OnsagerCalc
    # ---- flat codec
    terms, meta = [], []
    for k in range(ck.n(150, 600)):
        mode = rng.choice(["wf", "wf", "trailing", "middle-empty", "all-empty", "empty", "single"])
        n = rng.randint(1, 5)
        ll = [[rng.randrange(40) for _ in range(rng.randint(1, 4))] for _ in range(n)]
        if mode == "trailing": ll += [[] for _ in range(rng.randint(1, 2))]
        elif mode == "middle-empty": ll.insert(rng.randrange(len(ll)), [])
        elif mode == "all-empty": ll = [[] for _ in range(n)]
        elif mode == "empty": ll = []
        elif mode == "single": ll = [ll[0]]
        flat, idx = stars.doublelist2flatlistindex(ll)
        try:
            back = [list(map(int, x)) for x in stars.flatlistindex2doublelist(flat, idx)]
        except ValueError:
            back = None
        term = encode(V, "c13-unencodable-output", {"ll": ll, "flat": [str(x) for x in flat], "index": [str(x) for x in idx], "roundtrip": back},
                      lambda: "(%s, %s, %s, %s)" % (nll(ll), nl(flat), nl(idx), onll(back)))
        if term is not None: terms.append(term); meta.append((mode, ll, back))
        ck.case(key=("flat", ll), nontrivial=len(ll) > 0, kind="flat:" + mode, sample={"codec": "flat", "ll": ll, "roundtrip": back} if k < 1 else None)
    codes = run_nat_cases(ck, "flat", IMPORTS, "run_flat", terms)
    for (mode, ll, back), c in zip(meta, codes):
        if c: V("flat-list codec differs from the model (%s)" % {1: "flat list", 2: "index array", 3: "decoder", 4: "round trip vs wf_ll"}[c],
                {"ll": ll, "impl_roundtrip": back}, key="c13-corr-flat-%d" % c)
    # ---- decoder on arbitrary index arrays
    terms, meta = [], []
    for k in range(ck.n(80, 300)):
        n = rng.randint(0, 9)
        flat = [rng.randrange(40) for _ in range(n)]
        idx = [rng.randrange(4) for _ in range(n + rng.choice([0, 0, 0, 1, -1]) if n else 0)]
        idx = idx[:max(0, len(idx))]
        try:
            back = [list(map(int, x)) for x in stars.flatlistindex2doublelist(flat, np.array(idx, dtype=int))]
        except ValueError:
            back = None
        term = encode(V, "c13-unencodable-output", {"flat": flat, "index": idx, "decoded": back}, lambda: "(%s, %s, %s)" % (nl(flat), nl(idx), onll(back)))
        if term is not None: terms.append(term); meta.append((flat, idx, back))
        ck.case(key=("dec", flat, idx), nontrivial=n > 1, kind="decode:unsorted")
    codes = run_nat_cases(ck, "dec", IMPORTS, "run_dec", terms)
    for (flat, idx, back), c in zip(meta, codes):
        if c: V("flatlistindex2doublelist differs from the model on an arbitrary index array", {"flat": flat, "index": idx, "impl": back}, key="c13-corr-decode")
    # ---- PairState lists
    terms, meta = [], []
    for k in range(ck.n(60, 250)):
        dim = rng.choice([2, 3]); n = rng.choice([0, 1, 1, 2, 3, 5])
        l = [stars.PairState(i=rng.randrange(4), j=rng.randrange(4), R=np.array([rng.randint(-3, 3) for _ in range(dim)]),
                             dx=np.array([rng.randint(-16, 16) / 8 for _ in range(dim)])) for _ in range(n)]
        def row(ps): return "(mkRow (%s, %s) %s %s)" % (coq_Z(ps.i), coq_Z(ps.j), zl(ps.R), zl(np.round(np.asarray(ps.dx) * 8)))
        try:
            ij, R, dx = stars.PSlist2array(l)
            back = stars.array2PSlist(ij, R, dx)
            arr = "(Some (%s, %s, %s))" % (coq_list(["(%s, %s)" % (coq_Z(a), coq_Z(b)) for a, b in ij]), coq_list([zl(r) for r in R]),
                                          coq_list([zl(np.round(x * 8)) for x in dx]))
        except IndexError:
            arr, back = "None", []
        term = encode(V, "c13-unencodable-output", {"pslist": [str(p) for p in l], "back": [str(p) for p in back]},
                      lambda: "(%s, %s, %s)" % (coq_list([row(p) for p in l]), arr, coq_list([row(p) for p in back])))
        if term is None: continue
        terms.append(term); meta.append([str(p) for p in l])
        ck.case(key=("ps", meta[-1]), nontrivial=n > 0, kind="pslist:%d" % min(n, 2))
    codes = run_nat_cases(ck, "ps", IMPORTS, "run_ps", terms)
    for m, c in zip(meta, codes):
        if c: V("PSlist2array/array2PSlist differ from the model (code %d)" % c, {"pslist": m}, key="c13-corr-pslist-%d" % c)
    # ---- vTK dictionaries
    terms, meta = [], []
    VTK = OnsagerCalc.vacancyThermoKinetics
    for k in range(ck.n(60, 250)):
        n = rng.choice([0, 1, 2, 3]); nw, nt = rng.randint(1, 3), rng.randint(1, 3)
        d, seen = {}, set()
        while len(d) < n:
            key = VTK(pre=np.ones(nw), betaene=np.array([rng.randint(0, 12) / 4 for _ in range(nw)]), preT=np.ones(nt),
                      betaeneT=np.array([rng.randint(4, 20) / 4 for _ in range(nt)]))
            sig = tuple(np.hstack(key).tolist())
            if sig in seen: continue
            seen.add(sig); d[key] = np.array(float(rng.randint(-9, 9)))
        def kterm(key): return "(%s, %s, %s, %s)" % tuple(zl(np.round(np.asarray(x) * 4)) for x in key)
        def dterm(dd): return coq_list(["(%s, %s)" % (kterm(key), coq_Z(round(float(v)))) for key, v in dd.items()])
        a = OnsagerCalc.vTKdict2arrays(d)
        back = OnsagerCalc.arrays2vTKdict(*a)
        arr = "None" if a[0] is None else "(Some (%s, %s, %s))" % (coq_list([zl(np.round(r * 4)) for r in a[0]]), zl(np.round(a[1])),
                                                                   coq_list([coq_nat(s) for s in a[2]]))
        term = encode(V, "c13-unencodable-output", {"keys": [np.hstack(key).tolist() for key in d]}, lambda: "(%s, %s, %s)" % (dterm(d), arr, dterm(back)))
        if term is None: continue
        terms.append(term); meta.append([np.hstack(key).tolist() for key in d])
        ck.case(key=("vtk", meta[-1]), nontrivial=n > 0, kind="vtkdict:%d" % n)
    codes = run_nat_cases(ck, "vtk", IMPORTS, "run_vtk", terms)
    for m, c in zip(meta, codes):
        if c: V("vTKdict2arrays/arrays2vTKdict differ from the model (code %d)" % c, {"keys": m}, key="c13-corr-vtk-%d" % c)


# ------------------------------------------------------------------------------------------------
# deep comparison
def deep_diff(a, b, path="", out=None, exact=True):
    """list of paths where a and b differ (exactly)"""
    from onsager.crystalStars import PairState
    out = [] if out is None else out
    if len(out) > 8: return out
    if isinstance(a, PairState) or isinstance(b, PairState):
        if not (isinstance(a, PairState) and isinstance(b, PairState) and a == b and np.array_equal(a.dx, b.dx)): out.append(path + " PairState")
        return out
    if isinstance(a, dict) and isinstance(b, dict):
        ka, kb = list(a.keys()), list(b.keys())
        if len(ka) != len(kb): out.append(path + " dict size"); return out
        try:
            same_keys = all(k in b for k in ka)
        except Exception:
            same_keys = False
        if not same_keys: out.append(path + " dict keys"); return out
        for k in ka: deep_diff(a[k], b[k], "%s[%s]" % (path, str(k)[:30]), out)
        return out
    if isinstance(a, (list, tuple)) and isinstance(b, (list, tuple, np.ndarray)) or isinstance(b, (list, tuple)) and isinstance(a, np.ndarray):
        if len(a) != len(b): out.append(path + " length %d/%d" % (len(a), len(b))); return out
        for i, (x, y) in enumerate(zip(a, b)): deep_diff(x, y, "%s[%d]" % (path, i), out)
        return out
    if isinstance(a, np.ndarray) or isinstance(b, np.ndarray):
        try:
            aa, bb = np.asarray(a), np.asarray(b)
            if aa.shape != bb.shape or not np.array_equal(aa, bb): out.append(path + " array")
        except Exception:
            out.append(path + " array?")
        return out
    if isinstance(a, (int, float, complex, np.number, str, bytes, bool, type(None), set, frozenset)):
        try:
            if not (a == b): out.append(path + " value %r/%r" % (a, b))
        except Exception:
            out.append(path + " value?")
        return out
    if hasattr(a, "coefflist") and hasattr(b, "coefflist"):
        return deep_diff(taylor_dict(a), taylor_dict(b), path + ".coeff", out)
    if hasattr(a, "__dict__") and hasattr(b, "__dict__") and type(a) is type(b):
        return out    # nested objects are compared through their own read-sets
    out.append(path + " type %s/%s" % (type(a).__name__, type(b).__name__))
    return out


def taylor_dict(t):
    d = {}
    for n, l, c in t.coefflist:
        d[(int(n), int(l))] = d.get((int(n), int(l)), 0) + np.asarray(c)
    return d


def read_set(srcfile, clsname, methods):
    """attributes `self.X` loaded by the named methods of a class of the CURRENT source"""
    tree = ast.parse(open(srcfile).read())
    cls = [n for n in tree.body if isinstance(n, ast.ClassDef) and n.name == clsname][0]
    fns = {n.name: n for n in cls.body if isinstance(n, ast.FunctionDef)}
    attrs, todo, done = set(), list(methods), set()
    while todo:
        m = todo.pop()
        if m in done or m not in fns: continue
        done.add(m)
        for n in ast.walk(fns[m]):
            if isinstance(n, ast.Attribute) and isinstance(n.value, ast.Name) and n.value.id == "self":
                if n.attr in fns: todo.append(n.attr)
                elif isinstance(n.ctx, ast.Load): attrs.add(n.attr)
    return sorted(attrs)


STARSET_FIELDS = ["jumpnetwork_index", "jumplist", "chem", "Nshells", "stars", "states", "Nstars", "Nstates", "index"]
VSS_FIELDS = ["Nvstars", "vecpos", "vecvec", "outer"]


def cmp_starset(a, b, path, out):
    for f in STARSET_FIELDS:
        if not hasattr(b, f): out.append("%s.%s missing" % (path, f)); continue
        deep_diff(getattr(a, f), getattr(b, f), "%s.%s" % (path, f), out)
    if hasattr(a, "indexdict"):
        if not hasattr(b, "indexdict") or len(a.indexdict) != len(b.indexdict) or any(k not in b.indexdict or tuple(map(int, b.indexdict[k])) != tuple(map(int, v))
                                                                                  for k, v in a.indexdict.items()):
            out.append(path + ".indexdict")


def wf_lists(name, ll, out):
    """premise of C13_flat_roundtrip on a real stored list of lists"""
    if len(ll) == 0 or len(ll[-1]) == 0: out.append(name)


def ascending_partition(ll, n):
    flat = [int(x) for l in ll for x in l]
    return sorted(flat) == list(range(n)) and all(list(map(int, l)) == sorted(map(int, l)) for l in ll)


def h5file(tag):
    import h5py
    return h5py.File("c13_%s_%d.h5" % (tag, os.getpid()), "w", driver="core", backing_store=False)


def noisy_crystal(name, rng, noise=2e-4, threshold=1e-3):
    """the named crystal with positions perturbed by ~noise, built with a symmetry threshold that still finds the full group;
    None if that fails (then the default threshold must NOT find it, otherwise the case is pointless)"""
    from onsager import crystal
    c = gen.named(name)[0]
    basis = [[u + np.array([rng.uniform(-noise, noise) for _ in range(c.dim)]) for u in ul] for ul in c.basis]
    try:
        cn = crystal.Crystal(c.lattice, basis, threshold=threshold)
        c8 = crystal.Crystal(c.lattice, basis)
    except Exception:
        return None
    if len(cn.G) != len(c.G) or len(c8.G) >= len(cn.G): return None
    return cn


def calculators(ck, rng):
    """(label, crys, chem, sitelist, jumpnetwork, Nthermo)"""
    names = ["square", "honeycomb", "sq2w", "rect-polar2d", "sc"] if ck.quick else \
            ["square", "honeycomb", "sq2w", "tria", "rect-polar2d", "rect", "oblique2d", "sc", "b2", "bcc", "fcc", "hcp", "tet", "polar", "diamond"]
    out = []
    from onsager import crystal as _crystal
    try:   # a non-primitive (centred) input cell: the constructor reduces it and rescales its threshold
        cnp = _crystal.Crystal(np.diag([1., 1.25]), [[np.array([0., 0.]), np.array([.5, .5])]])
        net = gen.percolating_network(cnp, 0, rng, maxshell=1)
        if net is not None: out.append(("crect-nonprimitive", cnp, 0, net[1], net[2], 1))
    except Exception:
        pass
    for nm in names:
        crys, chem = gen.named(nm)
        net = gen.percolating_network(crys, chem, rng, maxshell=1)
        if net is None: continue
        for N in ((1, 2) if crys.dim == 2 else (1,)):
            out.append((nm, crys, chem, net[1], net[2], N))
    # noisy atom positions with a NON-DEFAULT symmetry threshold (the full group is found only with that threshold)
    for nm in (["honeycomb"] if ck.quick else ["honeycomb", "hcp"]):
        c0 = noisy_crystal(nm, rng)
        if c0 is None: continue
        net = gen.percolating_network(c0, 0, rng, maxshell=1)
        if net is not None: out.append((nm + "-noisy-thr1e-3", c0, 0, net[1], net[2], 1))
    nrand = ck.n(1, 8)
    tries = 0
    while nrand > 0 and tries < 60:
        tries += 1
        r = gen.random_crystal(rng, 2 if rng.random() < 0.8 else 3, maxatoms=2, nchem=rng.randint(1, 2))
        if r is None: continue
        crys = r[1]; chem = rng.randrange(crys.Nchem)
        try:
            net = gen.percolating_network(crys, chem, rng, maxshell=1, maxjumps=24)
        except Exception:
            net = None
        if net is None: continue
        out.append(("rand-" + r[0], crys, chem, net[1], net[2], 1)); nrand -= 1
    return out


def evaluator(ck, rng, V):
    import yaml, onsager
    from onsager import OnsagerCalc, GFcalc, crystalStars as stars, PowerExpansion as PE, cluster, crystal
    srcdir = os.path.dirname(onsager.__file__)
    rs_vm = read_set(os.path.join(srcdir, "OnsagerCalc.py"), "VacancyMediated",
                     ["Lij", "tags2preene", "makeLIMBpreene", "maketracerpreene", "interactlist", "omegalist", "generatetags"])
    rs_gf = read_set(os.path.join(srcdir, "GFcalc.py"), "GFCrystalcalc", ["SetRates", "__call__", "Diffusivity", "biascorrection"])
    ck.extra["read_set_VacancyMediated"] = rs_vm
    ck.extra["read_set_GFCrystalcalc"] = rs_gf
    inv_terms, inv_meta = [], []
    not_restored = set()
    maxdiff = 0.0
    skipped = {"construct-failed": 0}
    for ci, (nm, crys, chem, sl, jn, N) in enumerate(calculators(ck, rng)):
        base = {"calculator": nm, "crystal": repr(crys), "chem": chem, "Nthermo": N, "jumpnetwork_sizes": [len(t) for t in jn]}
        try:
            d = OnsagerCalc.VacancyMediated(crys, chem, sl, jn, N)
        except Exception as e:
            skipped["construct-failed"] += 1; continue
        nr = ck.nprng(1000 + ci)
        inputs = [random_thermo(d, nr) for _ in range(ck.n(4, 6))]
        import copy as _copy
        pristine = _copy.deepcopy(d)      # never used: the reference "fresh calculator"
        # the cache is filled with all but the last input, in DESCENDING lexicographic order of the keys (so that a writer
        # that reorders keys but not values, or vice versa, cannot go unnoticed); the last input stays uncached (miss path)
        cached_inputs = sorted(inputs[:-1], key=lambda a: tuple(np.hstack([np.ones_like(a[0]), a[0], np.ones_like(a[3]), a[3]]).tolist()), reverse=True)
        for stage in ("before-cache", "after-cache"):
            if stage == "after-cache":
                d.clearcache()
                for a in cached_inputs: d.Lij(*[x.copy() for x in a])
            f = h5file("%d%s" % (ci, stage[0]))
            try:
                try:
                    d.addhdf5(f.create_group("D"))
                    c = OnsagerCalc.VacancyMediated.loadhdf5(f["D"])
                except Exception as e:
                    if "np.float64" in str(e):
                        V("loadhdf5 of a VacancyMediated calculator on a crystal with a reduced cell raises %r: its crystal_yaml cannot be parsed "
                          "(float representer writes repr(np.float64) under numpy >= 2)" % (e,), {**base, "stage": stage, "threshold": repr(crys.threshold),
                          "minimal_patch": "crystal.float_representer: return dumper.represent_float(float(data))"}, key="c13-yaml-numpy-float")
                    else:
                        V("addhdf5/loadhdf5 of a VacancyMediated calculator raises %r (%s)" % (e, stage), {**base, "stage": stage}, key="c13-vm-exception")
                    continue
                out = []
                not_restored.update(set(vars(d)) - set(vars(c)))
                # premises of the codec theorems on what is actually stored
                bad = []
                for name, ll in (("crys.basis", d.crys.basis), ("jumpnetwork", d.jumpnetwork), ("om1_jn", d.om1_jn), ("om2_jn", d.om2_jn),
                                 ("kin2vstar", d.kin2vstar), ("vkinetic.vecpos", d.vkinetic.vecpos), ("vkinetic.vecvec", d.vkinetic.vecvec)) + \
                                tuple(("tags[%s]" % t, d.tags[t]) for t in d.__taglist__):
                    wf_lists(name, ll, bad)
                if not ascending_partition(d.sitelist, d.N): bad.append("sitelist not an ascending partition")
                for sn in ("thermo", "kinetic", "NNstar", "GFstarset"):
                    ss = getattr(d, sn)
                    if not ascending_partition(ss.stars, ss.Nstates): bad.append(sn + ".stars not an ascending partition")
                    if not ascending_partition(ss.jumpnetwork_index, len(ss.jumplist)): bad.append(sn + ".jumpnetwork_index")
                if bad:
                    V("a stored list violates the well-formedness premise of the codec round trip: %s" % bad, {**base, "stage": stage, "lists": bad},
                      key="c13-wf-premise")
                # read-set, field by field
                for attr in rs_vm:
                    if not hasattr(d, attr): continue
                    if not hasattr(c, attr):
                        not_restored.add(attr)
                        if attr != "threshold": out.append(attr + " missing")
                        continue
                    x, y = getattr(d, attr), getattr(c, attr)
                    if isinstance(x, stars.StarSet): cmp_starset(x, y, attr, out)
                    elif isinstance(x, stars.VectorStarSet):
                        for fld in VSS_FIELDS: deep_diff(getattr(x, fld), getattr(y, fld), "%s.%s" % (attr, fld), out)
                    elif isinstance(x, crystal.Crystal):
                        deep_diff([x.lattice, x.basis, list(x.chemistry), x.N, x.dim, float(x.threshold), len(x.G), x.Wyckoff],
                                  [y.lattice, y.basis, list(y.chemistry), y.N, y.dim, float(y.threshold), len(y.G), y.Wyckoff], attr, out)
                        if x.G != y.G: out.append(attr + ".G")
                    elif isinstance(x, GFcalc.GFCrystalcalc):
                        for fld in rs_gf:
                            if fld in ("D", "eta", "crys") or not hasattr(x, fld): continue
                            if not hasattr(y, fld):
                                if fld in x.__HDF5list__ or fld in ("Taylorjumps", "jumppairs", "sitelist", "chem"): out.append("%s.%s missing" % (attr, fld))
                                continue
                            deep_diff(getattr(x, fld), getattr(y, fld), "%s.%s" % (attr, fld), out)
                    elif attr in ("GFvalues", "Lvvvalues", "etavvalues"):
                        # every cached entry, key by key (looked up by key CONTENT, whatever the stored order)
                        if len(x) != len(y): out.append("%s: %d entries saved, %d reloaded" % (attr, len(x), len(y)))
                        ymap = {tuple(np.hstack(k).tolist()): v for k, v in y.items()}
                        for ki, (k, v) in enumerate(x.items()):
                            v2 = ymap.get(tuple(np.hstack(k).tolist()))
                            if v2 is None: out.append("%s: key %d missing after reload" % (attr, ki))
                            elif not np.array_equal(np.asarray(v), np.asarray(v2)): out.append("%s: value of key %d (betaeneT=%s) differs after reload" % (attr, ki, np.asarray(k.betaeneT).tolist()))
                        if [tuple(np.hstack(k).tolist()) for k in x] != [tuple(np.hstack(k).tolist()) for k in y]: out.append(attr + ": key order changed")
                    else:
                        deep_diff(x, y, attr, out)
                ck.case(key=("vm", nm, N, stage), nontrivial=True, kind="vm:%dD-%s-N%d-%s" % (crys.dim, nm.split("-")[0], N, stage),
                        sample={"object": "VacancyMediated", **base, "stage": stage, "cached_keys": len(d.GFvalues)} if ci < 1 else None)
                if out:
                    V("reloaded VacancyMediated differs from the original in fields read by Lij/tags2preene: %s" % out[:6], {**base, "stage": stage, "fields": out},
                      key="c13-vm-field")
                # identical results, tags, tags2preene for further inputs (hit and miss paths)
                for ai, a in enumerate(inputs):
                    try:
                        r0 = d.Lij(*[x.copy() for x in a]); r1 = c.Lij(*[x.copy() for x in a])
                    except Exception as e:
                        V("Lij of the reloaded (or original) calculator raises %r" % (e,), {**base, "stage": stage, "input": [x.tolist() for x in a]}, key="c13-vm-lij-exception")
                        break
                    dd = max(float(np.abs(np.asarray(x) - np.asarray(y)).max()) for x, y in zip(r0, r1))
                    # ... and against a calculator that has never cached or been saved
                    if ai == 0: fresh_calc = _copy.deepcopy(pristine)      # never saved / loaded; every input is new to it
                    rf = fresh_calc.Lij(*[x.copy() for x in a])
                    df = max(float(np.abs(np.asarray(x) - np.asarray(y)).max()) for x, y in zip(r1, rf))
                    if df > 1e-12:
                        V("Lij of the reloaded calculator at a%s input differs from a fresh calculator (max |diff| %.3g; %d cache entries were saved)"
                          % (" cached" if any(a is b for b in cached_inputs) and stage == "after-cache" else "n uncached", df, len(d.GFvalues)),
                          {**base, "stage": stage, "input": [x.tolist() for x in a], "reloaded": [np.asarray(x).tolist() for x in r1],
                           "fresh": [np.asarray(x).tolist() for x in rf], "cache_keys_betaeneT": [np.asarray(k.betaeneT).tolist() for k in d.GFvalues]}, key="c13-vm-lij-vs-fresh")
                    maxdiff = max(maxdiff, dd)
                    ck.case(key=("vm-lij", nm, N, stage, ai), nontrivial=True, kind="lij:" + stage)
                    if dd != 0.0:
                        V("reloaded calculator returns different Lij (max |diff| %.3g)" % dd, {**base, "stage": stage, "input": [x.tolist() for x in a],
                          "orig": [np.asarray(x).tolist() for x in r0], "copy": [np.asarray(x).tolist() for x in r1]}, key="c13-vm-lij")
                        break
                if d.tags != c.tags or d.tagdict != {k: int(v) for k, v in c.tagdict.items()} or d.tagdicttype != c.tagdicttype:
                    V("tags of the reloaded calculator differ", {**base, "stage": stage}, key="c13-vm-tags")
                alltags = [t for tl in d.tags.values() for ts in tl for t in ts]
                ud = {t: (float(nr.uniform(0.5, 2)), float(nr.uniform(0, 1))) for t in rng.sample(alltags, min(len(alltags), rng.randint(1, 6)))}
                try:
                    t0, t1 = d.tags2preene(ud, VERBOSE=True), c.tags2preene(ud, VERBOSE=True)
                    if deep_diff(list(t0), list(t1)):
                        V("tags2preene of the reloaded calculator differs", {**base, "stage": stage, "usertags": ud}, key="c13-vm-tags2preene")
                except Exception as e:
                    V("tags2preene of the reloaded (or original) calculator raises %r" % (e,), {**base, "stage": stage, "usertags": ud}, key="c13-vm-tags2preene-exception")
                # the index-array loops of addhdf5/loadhdf5 against the model
                if stage == "before-cache":
                    for sn in ("thermo", "kinetic"):
                        g = f["D"][sn]; ss, sc = getattr(d, sn), getattr(c, sn)
                        for ll, inv, back in ((ss.stars, g["states_index"][()], sc.stars), (ss.jumpnetwork_index, g["jumplist_invmap"][()], sc.jumpnetwork_index)):
                            if len(inv) <= 60:
                                term = encode(V, "c13-unencodable-output", {**base, "what": sn}, lambda: "(%s, %s, %s)" % (nll(ll), nl(inv), nll(back)))
                                if term is not None: inv_terms.append(term); inv_meta.append((nm, N, sn))
                    term = encode(V, "c13-unencodable-output", {**base, "what": "sitelist"}, lambda: "(%s, %s, %s)" % (nll(d.sitelist), nl(f["D"]["invmap"][()]), nll(c.sitelist)))
                    if term is not None: inv_terms.append(term); inv_meta.append((nm, N, "sitelist"))
            finally:
                f.close()
        # ---- stand-alone GF calculator, star sets, vector star sets
        f = h5file("%ds" % ci)
        try:
            g0 = GFcalc.GFCrystalcalc(crys, chem, sl, jn, Nmax=4)
            g0.addhdf5(f.create_group("GF")); g1 = GFcalc.GFCrystalcalc.loadhdf5(crys, f["GF"])
            pre = nr.uniform(0.5, 2, len(sl)); bE = nr.uniform(0, 1, len(sl)); preT = nr.uniform(0.5, 2, len(jn)); bET = nr.uniform(1, 2, len(jn))
            g0.SetRates(pre, bE, preT, bET); g1.SetRates(pre, bE, preT, bET)
            diffs = [float(np.abs(g0.D - g1.D).max()), float(np.abs(np.asarray(g0.eta) - np.asarray(g1.eta)).max())]
            for jl in jn[:3]:
                (i, j), dx = jl[0]
                diffs.append(abs(g0(i, j, dx) - g1(i, j, dx))); diffs.append(abs(g0(i, i, np.zeros(crys.dim)) - g1(i, i, np.zeros(crys.dim))))
            ck.case(key=("gf", nm), nontrivial=True, kind="gf:%dD" % crys.dim)
            if max(diffs) != 0.0:
                V("reloaded GFCrystalcalc gives different D / eta / G values (max %.3g)" % max(diffs), {**base, "pre": pre.tolist(), "betaene": bE.tolist(),
                  "preT": preT.tolist(), "betaeneT": bET.tolist()}, key="c13-gf")
            S0 = stars.StarSet(jn, crys, chem, Nshells=rng.choice([1, 2]), originstates=rng.random() < 0.5)
            S0.addhdf5(f.create_group("S")); S1 = stars.StarSet.loadhdf5(crys, f["S"])
            out = []; cmp_starset(S0, S1, "StarSet", out)
            VS0 = stars.VectorStarSet(S0); VS0.addhdf5(f.create_group("VS")); VS1 = stars.VectorStarSet.loadhdf5(S1, f["VS"])
            for fld in VSS_FIELDS: deep_diff(getattr(VS0, fld), getattr(VS1, fld), "VectorStarSet." + fld, out)
            ck.case(key=("stars", nm, S0.Nshells), nontrivial=True, kind="starset:%dD" % crys.dim)
            if out: V("reloaded StarSet / VectorStarSet differ: %s" % out[:6], {**base, "fields": out, "Nshells": int(S0.Nshells)}, key="c13-starset")
        except Exception as e:
            V("save/load of GFCrystalcalc / StarSet / VectorStarSet raises %r" % (e,), base, key="c13-standalone-exception")
        finally:
            f.close()
        # ---- YAML
        try:
            yc = yaml.load(yaml.dump(crys), Loader=yaml.Loader)
            bad = deep_diff([crys.basis, list(crys.chemistry), crys.N, crys.atomindices, crys.Wyckoff], [yc.basis, list(yc.chemistry), yc.N, yc.atomindices, yc.Wyckoff])
            if not np.allclose(crys.lattice, yc.lattice, rtol=1e-14, atol=0) or yc.G != crys.G or bad:
                V("YAML round trip of a Crystal is not equal", {**base, "diff": bad}, key="c13-yaml-crystal")
            objs = list(crys.G)[:6] + list(d.kinetic.states[:6])
            cs = [cluster.ClusterSite(ci=(chem, rng.randrange(len(crys.basis[chem]))), R=np.array([rng.randint(-2, 2) for _ in range(crys.dim)])) for _ in range(3)]
            objs += cs + [cluster.Cluster(cs[:2]), cluster.Cluster(cs, transition=True), cluster.Cluster(cs, vacancy=True)]
            for o in objs:
                o2 = yaml.load(yaml.dump(o), Loader=yaml.Loader)
                ck.case(key=("yaml", nm, str(o)[:60]), nontrivial=True, kind="yaml:" + type(o).__name__)
                if not (o == o2 and type(o) is type(o2)):
                    V("YAML round trip of a %s is not equal" % type(o).__name__, {**base, "object": str(o)}, key="c13-yaml-" + type(o).__name__)
        except Exception as e:
            V("YAML round trip raises %r" % (e,), {**base, "threshold": repr(crys.threshold)}, key="c13-yaml-numpy-float" if "np.float64" in str(e) else "c13-yaml-exception")
    ck.extra["max_result_difference"] = maxdiff
    ck.extra["attributes_not_restored"] = sorted(not_restored)
    ck.extra["skipped"] = skipped
    if "threshold" in not_restored:
        ck.note("loadhdf5 does not restore `threshold` (read by makesupercells only): outside 'results and tags', recorded as observation")
    # index arrays of the real objects through the Coq model
    codes = run_nat_cases(ck, "inv", IMPORTS, "run_inv", inv_terms, chunk=60)
    ck.extra["index_array_cases"] = len(inv_terms)
    for m, c in zip(inv_meta, codes):
        if c: V("index array written by addhdf5 / lists rebuilt by loadhdf5 differ from the model (%s)" % {1: "index array", 2: "rebuilt lists"}[c],
                {"calculator": m[0], "Nthermo": m[1], "what": m[2]}, key="c13-corr-index-%d" % c)
    # ---- Taylor expansions
    for Tcls, dim in ((PE.Taylor3D, 3), (PE.Taylor2D, 2)):
        Tcls()
        for k in range(ck.n(3, 10)):
            nr = ck.nprng(5000 + 10 * dim + k)
            basis = [(nr.uniform(-1, 1, (2, 2)), nr.uniform(-1, 1, dim)) for _ in range(rng.randint(2, 5))]
            pre = (0, 1, 1 / 2, 1 / 6, 1 / 24) if k % 2 == 0 else (0, -1j, -1 / 2, 1j / 6, 1 / 24)
            t = Tcls([c[0] for c in Tcls.constructexpansion(basis, N=4, pre=pre)])
            if k % 3 == 1: t = t * t
            if k % 3 == 2: t = (t + t * t); t.reduce()
            f = h5file("T%d%d" % (dim, k))
            try:
                t.addhdf5(f.create_group("T")); t2 = Tcls.loadhdf5(f["T"])
                bad = deep_diff(taylor_dict(t), taylor_dict(t2))
                u = nr.uniform(-1, 1, dim)
                fnu = {(n, l): (lambda x, n=n: x ** n) for n in range(-4, 12) for l in range(0, 5)}
                try:
                    v0, v1 = t(u, fnu), t2(u, fnu)
                    if not np.array_equal(np.asarray(v0), np.asarray(v1)): bad.append("value at u")
                except Exception:
                    pass
                ck.case(key=("taylor", dim, k), nontrivial=True, kind="taylor:%dD" % dim)
                if bad: V("reloaded Taylor expansion differs: %s" % bad[:5], {"dim": dim, "case": k, "terms": [(int(n), int(l)) for n, l, c in t.coefflist]}, key="c13-taylor")
            except Exception as e:
                V("Taylor expansion save/load raises %r" % (e,), {"dim": dim, "case": k, "terms": [(int(n), int(l)) for n, l, c in t.coefflist]}, key="c13-taylor-exception")
            finally:
                f.close()


def as_plain(x):
    """results of value-type operations as nested plain data"""
    if isinstance(x, np.ndarray): return x
    if hasattr(x, "_asdict") and not isinstance(x, dict):
        dd = x._asdict()
        return {k: as_plain(v) for k, v in dd.items()}
    if isinstance(x, (list, tuple)): return [as_plain(y) for y in x]
    return x


def field_types(a, b, path=""):
    """differences in type / dtype-kind / shape between corresponding fields of two value objects"""
    out = []
    if hasattr(a, "_fields") and hasattr(b, "_fields"):
        for f in a._fields: out += field_types(getattr(a, f), getattr(b, f), path + "." + f)
        return out
    if hasattr(a, "sites") and hasattr(b, "sites") and not isinstance(a, dict):
        for n, (x, y) in enumerate(zip(a.sites, b.sites)): out += field_types(x, y, "%s.sites[%d]" % (path, n))
        return out
    if isinstance(a, np.ndarray) or isinstance(b, np.ndarray):
        if not (isinstance(a, np.ndarray) and isinstance(b, np.ndarray)): out.append("%s: %s vs %s" % (path, type(a).__name__, type(b).__name__))
        elif a.dtype.kind != b.dtype.kind or a.shape != b.shape: out.append("%s: %s%s vs %s%s" % (path, a.dtype, a.shape, b.dtype, b.shape))
        return out
    if isinstance(a, (list, tuple)) and isinstance(b, (list, tuple)):
        if type(a) is not type(b) and not (hasattr(a, "_fields") or hasattr(b, "_fields")): out.append("%s: %s vs %s" % (path, type(a).__name__, type(b).__name__))
        for n, (x, y) in enumerate(zip(a, b)): out += field_types(x, y, "%s[%d]" % (path, n))
        return out
    if isinstance(a, (bool, np.bool_)) and isinstance(b, (bool, np.bool_)): return out
    num = (int, float, np.integer, np.floating)
    if isinstance(a, num) and isinstance(b, num):
        if isinstance(a, (int, np.integer)) != isinstance(b, (int, np.integer)): out.append("%s: %s vs %s" % (path, type(a).__name__, type(b).__name__))
        return out
    if type(a) is not type(b): out.append("%s: %s vs %s" % (path, type(a).__name__, type(b).__name__))
    return out


def bool_kwargs(fn):
    """names of the keyword arguments of a constructor whose default is a bool: every combination is enumerated"""
    import inspect
    return [n for n, p in inspect.signature(fn).parameters.items() if isinstance(p.default, bool)]


def yaml_corpus(ck, rng, V):
    """YAML round trips of the value types over EVERY combination of constructor flags / alternative constructors, plus the
    clusters the library's own generators produce (incl. transition-state clusters of vacancy cluster expansions)"""
    import yaml, itertools
    from onsager import cluster, crystal, crystalStars as stars
    def rt(o): return yaml.load(yaml.dump(o), Loader=yaml.Loader)
    terms, meta = [], []

    def check_cluster(cl, origin):
        try:
            c2 = rt(cl)
        except Exception as e:
            V("YAML round trip of a Cluster raises %r" % (e,), {"origin": origin, "cluster": str(cl)}, key="c13-yaml-exception"); return
        t, v = bool(cl.__transition__), bool(cl.__vacancy__)
        ok = (type(c2) is type(cl) and c2 == cl and cl == c2 and hash(c2) == hash(cl) and bool(c2.__transition__) == t and bool(c2.__vacancy__) == v
              and c2.Norder == cl.Norder and len(c2.sites) == len(cl.sites))
        ck.case(key=("yaml-cluster", origin, str(cl)), nontrivial=True, kind="yaml:Cluster[%s%s]" % ("T" if t else "-", "V" if v else "-"))
        if not ok:
            V("YAML round trip of a Cluster (transition=%s, vacancy=%s; %s) is not equal: reloaded flags transition=%s vacancy=%s"
              % (t, v, origin, getattr(c2, "__transition__", None), getattr(c2, "__vacancy__", None)),
              {"origin": origin, "cluster": str(cl), "flags": {"transition": t, "vacancy": v}, "yaml": yaml.dump(cl)[:600], "reloaded": str(c2)},
              key="c13-yaml-Cluster")
        if ok:
            td = field_types(cl, c2)
            if td: V("a Cluster reloaded from YAML compares equal but its sites have different field types: %s" % td[:4], {"origin": origin, "cluster": str(cl)}, key="c13-yaml-field-types")
            g0 = list(crys_for_cluster[0].G)[-1] if crys_for_cluster else None
            same_sites = list(map(str, cl.sites)) == list(map(str, c2.sites))     # (NOSORT is not stored: a re-sorted copy is equal but listed differently)
            cops = [("len", len), ("cl.g(crys,g)", lambda a: a.g(crys_for_cluster[0], g0))]
            if same_sites: cops += [("cl[0]", lambda a: a[0] if len(a) > 0 else None), ("site in cl", lambda a: a.sites[-1] in a),
                                    ("cl+site", lambda a: a + (a.sites[-1] + np.ones(len(a.sites[-1].R), dtype=int)))]
            for opn, op in cops:
                try: r0 = op(cl)
                except Exception: continue
                try:
                    r1 = op(c2); same = (r0 == r1)
                except Exception as e:
                    same, r1 = False, repr(e)
                if not same:
                    V("a Cluster reloaded from YAML does not behave like the original: %s gives %s instead of %s" % (opn, str(r1)[:100], str(r0)[:100]),
                      {"origin": origin, "cluster": str(cl), "operation": opn}, key="c13-yaml-use-Cluster"); break
        code = {"clustersitelist": 0, "transition": 1, "vacancy": 2}
        ks = [code.get(k, 9) for k in cl._asdict().keys()]
        terms.append("(%s, %s, %s, %s, %s)" % (coq_bool(t), coq_bool(v), nl(ks), coq_bool(bool(getattr(c2, "__transition__", False))),
                                              coq_bool(bool(getattr(c2, "__vacancy__", False)))))
        meta.append((origin, str(cl)))

    crys_for_cluster = []
    flags = bool_kwargs(cluster.Cluster.__init__)
    ck.extra["cluster_constructor_flags_enumerated"] = flags
    for nm in (["square", "fcc", "b2"] if ck.quick else ["square", "honeycomb", "fcc", "b2", "hcp", "rect-polar2d"]):
        crys, chem = gen.named(nm)
        dim = crys.dim
        crys_for_cluster[:] = [crys]
        def rs():
            c = rng.randrange(crys.Nchem)
            return cluster.ClusterSite(ci=(c, rng.randrange(len(crys.basis[c]))), R=np.array([rng.randint(-1, 2) for _ in range(dim)], dtype=int))
        # ---- Cluster: all combinations of the boolean constructor keywords, 2-4 distinct sites
        for combo in itertools.product([False, True], repeat=len(flags)):
            for rep in range(2):
                sites = []
                while len(sites) < rng.randint(2, 4):
                    x = rs()
                    if all(not (x == y) for y in sites): sites.append(x)
                check_cluster(cluster.Cluster(sites, **dict(zip(flags, combo))), "%s Cluster(%s)" % (nm, ", ".join("%s=%s" % kv for kv in zip(flags, combo))))
        # ---- clusters produced by the library's own generators
        try:
            cut = gen.shells(crys, chem)[0] + 1e-4
            clexp = cluster.makeclusters(crys, cut, 3)
            jn = crys.jumpnetwork(chem, cut)
            vac = cluster.makeVacancyClusters(crys, chem, clexp)
            fams = {"makeclusters": clexp, "makeTSclusters": cluster.makeTSclusters(crys, chem, jn, clexp), "makeVacancyClusters": vac,
                    "makeTSclusters(makeVacancyClusters)": cluster.makeTSclusters(crys, chem, jn, vac)}
            for fam, sets in fams.items():
                members = [cl for st in sets for cl in st]
                for cl in (members if len(members) <= 12 else rng.sample(members, 12)):
                    check_cluster(cl, "%s %s" % (nm, fam))
            ck.extra.setdefault("library_cluster_families", {})[nm] = {k: sum(len(x) for x in v2) for k, v2 in fams.items()}
        except Exception as e:
            ck.extra.setdefault("skipped", {}).setdefault("cluster-generators-failed", []).append("%s: %r" % (nm, e))
        # ---- ClusterSite, PairState (every alternative constructor), GroupOp (every derived form)
        objs = [rs(), -rs(), rs() + np.ones(dim, dtype=int)]
        basis = crys.basis[chem]
        jn1 = crys.jumpnetwork(chem, gen.shells(crys, chem)[0] + 1e-4)
        (i, j), dx = jn1[0][0]
        ps = stars.PairState.fromcrys(crys, chem, (i, j), dx)
        objs += [stars.PairState.zero(0, dim), stars.PairState.zero(-1, dim), ps, stars.PairState.fromcrys_latt(crys, chem, (i, j), ps.R), -ps, ps - ps]
        G = list(crys.G)
        g, h = rng.choice(G), rng.choice(G)
        objs += [g, g.incell(), g.inhalf(), g.inv(), g * h, g + np.ones(dim, dtype=int), g - np.ones(dim, dtype=int), ps.g(crys, chem, g), objs[0].g(crys, g)]
        Rv = np.array([1] + [0] * (dim - 1), dtype=int)
        for o in objs:
            try:
                o2 = rt(o)
                good = type(o2) is type(o) and o2 == o and o == o2 and hash(o2) == hash(o)
                if isinstance(o, stars.PairState): good = good and np.array_equal(o.dx, o2.dx)
            except Exception as e:
                good, o2 = False, repr(e)
            ck.case(key=("yaml-obj", nm, str(o)[:80]), nontrivial=True, kind="yaml:" + type(o).__name__)
            if not good:
                V("YAML round trip of a %s is not equal" % type(o).__name__, {"crystal": nm, "object": str(o), "reloaded": str(o2)}, key="c13-yaml-" + type(o).__name__)
                continue
            # the loaded object must also BE the same kind of data (type / dtype / shape of every field) and behave the same
            tdiff = field_types(o, o2)
            if tdiff:
                V("a %s reloaded from YAML compares equal but its fields have different types: %s" % (type(o).__name__, tdiff[:4]),
                  {"crystal": nm, "object": str(o), "field_types": tdiff}, key="c13-yaml-field-types")
            if isinstance(o, stars.PairState):
                usable = o.i >= 0 and o.j >= 0
                ops = [("-a", lambda a: -a), ("a+(-a)", lambda a: a + (-a)), ("a-a", lambda a: a - a), ("a^a", lambda a: a ^ a), ("a.iszero()", lambda a: a.iszero())]
                if usable: ops += [("a.g(crys,chem,g)", lambda a: a.g(crys, chem, g)), ("a+jump", lambda a: a + stars.PairState.fromcrys(crys, chem, (a.j, a.j), np.zeros(dim)))]
            elif isinstance(o, crystal.GroupOp):
                ops = [("g*g", lambda a: a * a), ("g.inv()", lambda a: a.inv()), ("g+R", lambda a: a + Rv), ("g.incell()", lambda a: a.incell()),
                       ("crys.g_pos", lambda a: crys.g_pos(a, Rv, (chem, 0))), ("crys.g_direc", lambda a: crys.g_direc(a, np.ones(dim))), ("g.eigen()", lambda a: a.eigen()[0])]
            else:   # ClusterSite
                ops = [("s+R", lambda a: a + Rv), ("s-R", lambda a: a - Rv), ("-s", lambda a: -a), ("s.g(crys,g)", lambda a: a.g(crys, g)),
                       ("Cluster([s, s+R])", lambda a: cluster.Cluster([a, a + Rv]))]
            for opn, op in ops:
                try: r0 = op(o)
                except Exception: continue          # not defined for the original either
                try:
                    r1 = op(o2)
                    if isinstance(r0, (bool, np.bool_)): same = isinstance(r1, (bool, np.bool_)) and bool(r0) == bool(r1)
                    else: same = not deep_diff(as_plain(r0), as_plain(r1)) and not field_types(r0, r1)
                except Exception as e:
                    same, r1 = False, repr(e)
                ck.case(key=("yaml-use", nm, opn, str(o)[:60]), nontrivial=True, kind="yaml-use:" + type(o).__name__)
                if not same:
                    V("a %s reloaded from YAML does not behave like the original: %s gives %s instead of %s" % (type(o).__name__, opn, str(r1)[:120], str(r0)[:120]),
                      {"crystal": nm, "object": str(o), "operation": opn, "original_result": str(r0), "reloaded_result": str(r1), "field_types": field_types(o, o2)},
                      key="c13-yaml-use-" + type(o).__name__)
                    break
    # ---- Crystal: every combination of its boolean constructor keywords x spins x chemistry x threshold
    cflags = bool_kwargs(crystal.Crystal.__init__)
    ck.extra["crystal_constructor_flags_enumerated"] = cflags
    cells = [(np.diag([1., 1.25]), [[np.array([0., 0.]), np.array([.5, .5])]]),
             (np.diag([1., 1., 1.3]), [[np.array([0., 0., 0.])], [np.array([.5, .5, .5]), np.array([.5, .5, .1])]])]
    nfail = 0
    for latt, basis in cells:
        nat = [len(b) for b in basis]
        spin_opts = [None, [[(-1) ** k for k in range(n)] for n in nat], [[np.eye(len(latt))[k % len(latt)] for k in range(n)] for n in nat]]
        chem_opts = [None, ["El%d" % k for k in range(len(basis))]]
        for combo in itertools.product([False, True], repeat=len(cflags)):
            for spins, chemn, thr in itertools.product(spin_opts, chem_opts, [1e-8, 1e-6]):
                kw = dict(zip(cflags, combo)); kw.update(spins=spins, chemistry=chemn, threshold=thr)
                try:
                    c0 = crystal.Crystal(latt, basis, **kw)
                except Exception:
                    nfail += 1; continue          # construction itself is C18/C19's subject
                try:
                    c1 = rt(c0)
                    bad = deep_diff([c0.basis, list(c0.chemistry), c0.N, c0.dim, c0.atomindices, c0.Wyckoff, c0.threshold, c0.spins],
                                    [c1.basis, list(c1.chemistry), c1.N, c1.dim, c1.atomindices, c1.Wyckoff, c1.threshold, c1.spins])
                    if not np.allclose(c0.lattice, c1.lattice, rtol=1e-14, atol=0) or c1.G != c0.G: bad.append("lattice/G")
                except Exception as e:
                    bad = [repr(e)]
                ck.case(key=("yaml-crystal", len(latt), str(kw)), nontrivial=True, kind="yaml:Crystal")
                if bad and "np.float64" in str(bad):
                    V("a Crystal whose constructor reduced the cell (threshold becomes a numpy scalar) cannot be reloaded from its YAML dump: %s; "
                      "the float representer writes repr(np.float64) = 'np.float64(2e-08)' under numpy >= 2" % bad[0],
                      {"lattice": latt.tolist(), "basis": [[u.tolist() for u in b] for b in basis], "kwargs": str(kw), "threshold": repr(c0.threshold),
                       "minimal_patch": "crystal.float_representer: return dumper.represent_float(float(data))"}, key="c13-yaml-numpy-float")
                elif bad: V("YAML round trip of a Crystal(%s) is not equal: %s" % (", ".join("%s=%s" % (k, type(v2).__name__ if v2 is not None and not isinstance(v2, (bool, float)) else v2) for k, v2 in kw.items()), bad[:4]),
                          {"lattice": latt.tolist(), "basis": [[u.tolist() for u in b] for b in basis], "kwargs": str(kw), "diff": bad}, key="c13-yaml-crystal")
    ck.extra.setdefault("skipped", {})["crystal-kwargs-construct-failed"] = nfail
    # ---- noisy crystals with non-default thresholds: yaml.dump/load and simpleYAML/fromdict must keep threshold, group, Wyckoff sets
    nnoisy = 0
    for nm in (["honeycomb", "hcp"] if ck.quick else ["honeycomb", "hcp", "b2", "square", "fcc", "diamond", "sq2w", "hcp-oct-tet"]):
        for thr in (1e-3, 5e-4):
            c0 = noisy_crystal(nm, rng, noise=thr / 5, threshold=thr)
            if c0 is None: continue
            nnoisy += 1
            for how in ("yaml.dump/load", "simpleYAML/fromdict", "simpleYAML(a0=2.5)/fromdict"):
                try:
                    if how == "yaml.dump/load": c1 = rt(c0)
                    else: c1 = crystal.Crystal.fromdict(yaml.load(c0.simpleYAML(2.5) if "a0" in how else c0.simpleYAML(), Loader=yaml.Loader))
                    bad = deep_diff([float(c0.threshold), len(c0.G), c0.N, c0.dim, list(c0.chemistry), sorted(sorted(w) for w in c0.Wyckoff), c0.atomindices],
                                    [float(c1.threshold), len(c1.G), c1.N, c1.dim, list(c1.chemistry), sorted(sorted(w) for w in c1.Wyckoff), c1.atomindices])
                    if not np.allclose(c0.lattice, c1.lattice, rtol=1e-12, atol=0): bad.append("lattice")
                    if any(not np.allclose(u, v2, rtol=0, atol=1e-12) for ul, vl in zip(c0.basis, c1.basis) for u, v2 in zip(ul, vl)): bad.append("basis")
                except Exception as e:
                    bad = [repr(e)]
                ck.case(key=("yaml-noisy", nm, thr, how), nontrivial=True, kind="yaml:Crystal-noisy[%s]" % how.split("/")[0])
                if bad:
                    V("%s of a crystal with noisy positions and threshold=%g does not give the same crystal back: %s (|G| %d)" % (how, thr, bad[:5], len(c0.G)),
                      {"crystal": nm, "threshold": thr, "how": how, "diff": bad, "basis": [[u.tolist() for u in b] for b in c0.basis], "lattice": c0.lattice.tolist()},
                      key="c13-yaml-crystal-threshold")
    ck.extra["noisy_threshold_crystals"] = nnoisy
    if nnoisy == 0: raise RuntimeError("no noisy crystal with a non-default threshold could be built")
    codes = run_nat_cases(ck, "clflags", IMPORTS, "run_clflags", terms, chunk=200)
    for (origin, cl), c in zip(meta, codes):
        if c: V("Cluster._asdict / reloaded flags differ from the model (%s)" % {1: "dictionary keys", 2: "reloaded flags vs dictionary", 3: "reloaded flags vs original"}[c],
                {"origin": origin, "cluster": cl}, key="c13-corr-clusterflags-%d" % c)


def numbered_families(srcdir):
    """names of the numbered sub-group / dataset families that the addhdf5 writers of the CURRENT source create
    ('<prefix>-{}'.format(n)), per file"""
    import re
    found = {}
    for fn in sorted(os.listdir(srcdir)):
        if not fn.endswith(".py"): continue
        tree = ast.parse(open(os.path.join(srcdir, fn)).read())
        for node in ast.walk(tree):
            if isinstance(node, ast.FunctionDef) and node.name == "addhdf5":
                for c in ast.walk(node):
                    if isinstance(c, ast.Call) and isinstance(c.func, ast.Attribute) and c.func.attr == "format":
                        for k in ast.walk(c.func.value):
                            if isinstance(k, ast.Constant) and isinstance(k.value, str) and re.search(r"-\{\}$", k.value):
                                found.setdefault(fn, set()).add(k.value)
    return {k: sorted(v) for k, v in found.items()}


def many_member_families(ck, rng, V):
    """calculators with >= 11, >= 21 (and >= 101) members of every numbered HDF5 family, distinct data per member"""
    import onsager
    from onsager import crystal, GFcalc, OnsagerCalc, PowerExpansion as PE
    fams = numbered_families(os.path.dirname(onsager.__file__))
    ck.extra["numbered_hdf5_families"] = fams
    covered = {"GFcalc.py": ["jump-{}"]}
    for fn, names in fams.items():
        for nmf in names:
            if nmf not in covered.get(fn, []):
                ck.broken_proof = "numbered HDF5 family %r written by %s is not exercised with > 10 members by harness/c13.py" % (nmf, fn)
    cells = [("oblique-bravais-2d", lambda: crystal.Crystal(np.array([[1., 0.31], [0., 1.13]]), [np.array([0., 0.])]), 8),
             ("triclinic-bravais-3d", lambda: crystal.Crystal(np.array([[1., 0.2, 0.3], [0., 1.1, 0.15], [0., 0., 1.27]]), [np.array([0., 0., 0.])]), 3)]
    terms, meta = [], []
    for label, mk, nmax in cells:
        crys = mk()
        sh = gen.shells(crys, 0, nmax=nmax)
        wants = [11, 21, 101] if (crys.dim == 2 or not ck.quick) else [11]
        for want in wants:
            # a Bravais lattice with only the inversion: one jump type per neighbour distance
            jn, k = None, want - 1
            while k < len(sh):
                cut = sh[k] + 1e-4
                j = crys.jumpnetwork(0, cut)
                if len(j) >= want: jn = j; break
                k += max(1, want - len(j))
            if jn is None: raise RuntimeError("cannot build %d jump types on %s" % (want, label))
            sl = crys.sitelist(0)
            base = {"calculator": label, "crystal": repr(crys), "cutoff": cut, "jump_types": len(jn)}
            nr = ck.nprng(7000 + want + 1000 * crys.dim)
            f = h5file("fam%s%d" % (label[:3], want))
            try:
                g0 = GFcalc.GFCrystalcalc(crys, 0, sl, jn, Nmax=4)
                g0.addhdf5(f.create_group("GF")); g1 = GFcalc.GFCrystalcalc.loadhdf5(crys, f["GF"])
                tag = "T3Djump-" if crys.dim == 3 else "T2Djump-"
                iterated = [int(k[len(tag):]) for k in f["GF"] if k.startswith(tag)]
                terms.append("(%s, %s)" % (coq_nat(len(jn)), nl(iterated))); meta.append(base)
                bad = []
                if len(g1.Taylorjumps) != len(g0.Taylorjumps): bad.append("number of Taylorjumps %d/%d" % (len(g0.Taylorjumps), len(g1.Taylorjumps)))
                for n, (t0, t1) in enumerate(zip(g0.Taylorjumps, g1.Taylorjumps)):
                    if deep_diff(taylor_dict(t0), taylor_dict(t1)): bad.append("Taylorjumps[%d]" % n)
                # distinct rate per jump type
                pre = np.ones(1); bE = np.zeros(1); preT = nr.uniform(0.5, 2.0, len(jn)); bET = np.linspace(1.0, 2.5, len(jn)) + nr.uniform(0, 0.01, len(jn))
                g0.SetRates(pre, bE, preT, bET); g1.SetRates(pre, bE, preT, bET)
                dD = float(np.abs(g0.Diffusivity() - g1.Diffusivity()).max())
                dG = max(abs(g0(0, 0, dx) - g1(0, 0, dx)) for dx in [np.zeros(crys.dim)] + [jl[0][1] for jl in jn[:6]])
                ck.case(key=("family", label, want), nontrivial=True, kind="family:%s-%d" % (label, want),
                        sample={"object": "GFCrystalcalc", **base, "max|dD|": dD, "max|dG|": float(dG)} if want == 11 and crys.dim == 2 else None)
                if bad or dD > 1e-12 * max(1.0, float(np.abs(g0.D).max())) or dG > 1e-12:
                    V("GFCrystalcalc with %d symmetry-unique jump types is not reproduced by save/load: %s; |dD| %.3g, |dG| %.3g "
                      "(HDF5 iterates 'jump-<n>' sub-groups alphabetically: 0, 1, 10, 11, 2, ...)" % (len(jn), bad[:4], dD, dG),
                      {**base, "preT": preT.tolist(), "betaeneT": bET.tolist(), "differing": bad[:12], "dD": dD, "dG": float(dG),
                       "subgroup_iteration_order": iterated[:14]}, key="c13-numbered-family-order")
                # the same inside a VacancyMediated file (cheap enough in 2-D with 11 types; 3-D in the thorough tier)
                if want == 11 and (crys.dim == 2 or not ck.quick):
                    d0 = OnsagerCalc.VacancyMediated(crys, 0, sl, jn, 1)
                    d0.addhdf5(f.create_group("D")); d1 = OnsagerCalc.VacancyMediated.loadhdf5(f["D"])
                    a = list(random_thermo(d0, nr)); a[3] = bET - bET.min() + 1.0
                    r0, r1 = d0.Lij(*[x.copy() for x in a]), d1.Lij(*[x.copy() for x in a])
                    dd = max(float(np.abs(np.asarray(x) - np.asarray(y)).max()) for x, y in zip(r0, r1))
                    ck.case(key=("family-vm", label, want), nontrivial=True, kind="family:vm-%s" % label)
                    if dd > 1e-12:
                        V("VacancyMediated with %d jump types: reloaded calculator returns different Lij (max |diff| %.3g)" % (len(jn), dd),
                          {**base, "input": [x.tolist() for x in a]}, key="c13-numbered-family-order")
            except Exception as e:
                V("save/load of a calculator with %d jump types raises %r" % (len(jn), e), base, key="c13-numbered-family-exception")
            finally:
                f.close()
    codes = run_nat_cases(ck, "family", IMPORTS, "run_family", terms, chunk=20)
    for m, c in zip(meta, codes):
        if c: V("h5py's iteration order of a numbered family / reading by number differs from the model (code %d)" % c, m, key="c13-corr-family-%d" % c)


def run(ck):
    V = Once(ck)
    ck.rule = ("codecs: random nested lists (well-formed / trailing empty / middle empty / all empty / empty), arbitrary index arrays, "
               "PairState lists (dim 2/3, length 0-5), vTK dictionaries (0-3 keys); objects: VacancyMediated on named 2-D (Nthermo 1,2) "
               "and 3-D (Nthermo 1) lattices incl. multi-site, multi-Wyckoff, polar + random crystals, saved before and after cache "
               "population, GFCrystalcalc, StarSet (1-2 shells, with/without origin states), VectorStarSet, Taylor2D/3D sums and "
               "products; YAML of Crystal/GroupOp/PairState/ClusterSite/Cluster; distinct = distinct (object, stage, input)")
    ck.trusted += ["h5py / HDF5 and PyYAML byte formats", "harness/c13.py deep comparison and ast read-set extraction",
                   "numerical kernels (identical code on identical fields is assumed to give identical results; checked per input)"]
    ck.theorems()
    rng = ck.rng
    try:
        codec_correspondence(ck, rng, V)
    except CoqFailure as e:
        ck.broken_proof = "correspondence codecs: %s" % e
    try:
        evaluator(ck, rng, V)
    except CoqFailure as e:
        ck.broken_proof = "correspondence index arrays: %s" % e
    try:
        many_member_families(ck, rng, V)
    except CoqFailure as e:
        ck.broken_proof = "correspondence numbered families: %s" % e
    try:
        yaml_corpus(ck, rng, V)
    except CoqFailure as e:
        ck.broken_proof = "correspondence cluster flags: %s" % e
