"""Shared machinery of the C16 / C17 checks (Taylor3D / Taylor2D of onsager/PowerExpansion.py).

* generators of random expansions with small dyadic coefficients (so that every operation of the
  implementation is EXACT in double precision and can be compared with the Coq model over Qc
  coefficient by coefficient), scalar and matrix valued, 2-D and 3-D;
* printers of Coq literals, the preamble of the cases files (glue: constructors of the model's
  values from integer numerators, comparison functions), the runner that evaluates the cases
  inside Coq (vm_compute) and returns one small code per case;
* a float reference evaluator  value(a, u) = sum_n |u|^n sum_p (u/|u|)^p c_p  written directly from
  the definition (no use of the implementation's tables).
"""
import re, math, itertools
from fractions import Fraction
import numpy as np
from .lib import CoqFailure

LMAX = 4


def classes():
    from onsager import PowerExpansion as PE
    PE.Taylor3D(); PE.Taylor2D()
    return {3: PE.Taylor3D, 2: PE.Taylor2D}


# ------------------------------------------------------------------------------------------
# independent index conventions (for the float evaluator): exponent tuples in the documented order
def exponents(dim, lmax):
    out = []
    for l in range(lmax + 1):
        if dim == 3:
            out += [(n1, n2, l - n1 - n2) for n1 in range(l + 1) for n2 in range(l + 1 - n1)]
        else:
            out += [(n1, l - n1) for n1 in range(l + 1)]
    return out


def npow_count(dim, l):
    return len(exponents(dim, l))


def value(coefflist, u, dim, per_order=False):
    """sum_n |u|^n sum_p uhat^p c_p, straight from the definition; coefflist = [(n, l, array)]"""
    u = np.asarray(u, dtype=float)
    r = math.sqrt(float(np.dot(u, u)))
    uh = u / r
    ex = exponents(dim, LMAX)
    tot = {}
    for n, l, c in coefflist:
        c = np.asarray(c)
        acc = 0
        for p in range(c.shape[0]):
            m = 1.0
            for x, k in zip(uh, ex[p]): m *= x ** k
            acc = acc + m * c[p]
        tot[n] = tot.get(n, 0) + acc
    if per_order: return tot, r
    return sum(r ** n * v for n, v in tot.items()) if tot else 0


# ------------------------------------------------------------------------------------------
# no call into the library may modify its ARGUMENTS (evaluation points, operands, matrices): every call made by the
# checks goes through `unchanged`, which compares the bytes of the arguments with a snapshot taken before the call
class _Guard:
    def __init__(self): self.calls = 0; self.events = []


GUARD = _Guard()


def _snap(v):
    if hasattr(v, "coefflist"): return tuple((int(n), int(l), _snap(c)) for n, l, c in v.coefflist)
    if isinstance(v, np.ndarray): return (v.shape, v.dtype.str, v.tobytes())
    if isinstance(v, (list, tuple)): return tuple(_snap(x) for x in v)
    if isinstance(v, dict): return tuple(sorted((repr(k), _snap(x)) for k, x in v.items()))
    return repr(v)


def _show(v):
    if hasattr(v, "coefflist"): return "expansion with %d entries" % len(v.coefflist)
    if isinstance(v, np.ndarray) and v.size <= 16: return v.tolist() if not np.iscomplexobj(v) else repr(v.tolist())
    return type(v).__name__


class unchanged:
    """with unchanged("a+b", a=ta, b=tb, u=u): ...   records an event when an argument is not bit-identical afterwards"""
    def __init__(self, label, **args):
        self.label, self.args = label, args

    def __enter__(self):
        self.snap = {k: _snap(v) for k, v in self.args.items()}
        self.before = {k: (np.array(v, copy=True) if isinstance(v, np.ndarray) and v.size <= 16 else None) for k, v in self.args.items()}
        return self

    def __exit__(self, et, ev, tb):
        GUARD.calls += 1
        for k, v in self.args.items():
            if _snap(v) != self.snap[k]:
                b = self.before[k]
                GUARD.events.append({"call": self.label, "argument": k,
                                     "before": (b.tolist() if b is not None and not np.iscomplexobj(b) else _show(v)),
                                     "after": _show(v)})
        return False


def flush_guard(ck, prefix):
    """report the recorded argument mutations (at most 3 replays per run, all counted)"""
    ev = GUARD.events
    ck.extra["library_calls_guarded"] = ck.extra.get("library_calls_guarded", 0) + GUARD.calls
    ck.extra["argument_mutations"] = ck.extra.get("argument_mutations", 0) + len(ev)
    seen = set()
    for e in ev:
        k = (e["call"].split(":")[0], e["argument"])
        if k in seen or len(seen) >= 3: continue
        seen.add(k)
        ck.violation("the library modified its argument '%s' in place during %s (before %s, after %s)"
                     % (e["argument"], e["call"], e["before"], e["after"]), dict(e, total_events=len(ev)), key=prefix + "-input-mutated")
    GUARD.calls = 0; GUARD.events = []


# ------------------------------------------------------------------------------------------
# value semantics: the model's operations return fresh values.  (i) the result of a non-in-place operation must be a new
# object that shares no memory with any operand; (ii) mutating the result in place must leave every operand bit-identical;
# (iii) histories: a query repeated on an object after an in-place modification must equal the query on a fresh copy.
def fresh_copy(T, t):
    return T([(n, l, np.array(c, copy=True)) for n, l, c in t.coefflist])


def sharing(res, operands):
    """names of the operands that the result aliases (same object, same coefflist, or overlapping coefficient memory)"""
    bad = []
    for name, o in operands.items():
        if res is o or res.coefflist is o.coefflist: bad.append(name + " (same object)"); continue
        if any(np.shares_memory(rc, oc) for _, _, rc in res.coefflist for _, _, oc in o.coefflist): bad.append(name + " (shared array memory)")
    return bad


def same_expansion(x, y, rtol=1e-12):
    xl, yl = list(x.coefflist), list(y.coefflist)
    if [(int(n), int(l)) for n, l, _ in xl] != [(int(n), int(l)) for n, l, _ in yl]: return False
    for (_, _, a), (_, _, b) in zip(xl, yl):
        if a.shape != b.shape or not np.allclose(a, b, rtol=rtol, atol=rtol * (1 + float(np.abs(b).max()) if b.size else 1)): return False
    return True


def small_like(nr, c, scale=0.2):
    return (scale * (nr.normal(size=c.shape) + 1j * nr.normal(size=c.shape))).astype(c.dtype) if np.iscomplexobj(c) else \
        (scale * nr.normal(size=c.shape)).astype(c.dtype)


def mutate_in_place(T, t, route, nr, rng):
    """modify the expansion t IN PLACE (same object) by one of the library's / numpy's in-place routes, keeping its (n,l) structure;
    t must be matrix valued (k x k, k >= 2) with distinct n for the slicing routes.  Returns a description."""
    ents = list(t.coefflist)
    k = ents[0][2].shape[1] if ents[0][2].ndim == 3 else 0
    if route == "iadd":
        t += T([(n, l, small_like(nr, c)) for n, l, c in ents])
    elif route == "isub":
        t -= T([(n, l, small_like(nr, c)) for n, l, c in ents[:max(1, len(ents) - 1)]])
    elif route == "setitem":          # T[0, 0] = S
        i, j = rng.randrange(k), rng.randrange(k)
        t[i, j] = T([(n, l, c[:, i, j] + small_like(nr, c[:, i, j])) for n, l, c in ents])
        return "T[%d,%d] = S" % (i, j)
    elif route == "sliceview-iadd":   # T[1:2, 1:2] += dV
        i = rng.randrange(k)
        v = t[i:i + 1, i:i + 1]
        v += T([(n, l, small_like(nr, c[:, i:i + 1, i:i + 1])) for n, l, c in ents])
        return "T[%d:%d,%d:%d] += dV" % (i, i + 1, i, i + 1)
    elif route == "scalarproduct-inplace":
        T.scalarproductcoeff(1.0 + 0.3 * nr.normal(), t, inplace=True)
    elif route == "array-edit":
        n, l, c = ents[rng.randrange(len(ents))]
        c += small_like(nr, c)
    elif route == "ildot":
        t.ildot(np.eye(k) + 0.2 * nr.normal(size=(k, k)))
    elif route == "irdot":
        t.irdot(np.eye(k) + 0.2 * nr.normal(size=(k, k)))
    else:
        raise KeyError(route)
    return route


ROUTES = ("iadd", "isub", "setitem", "sliceview-iadd", "scalarproduct-inplace", "array-edit", "ildot", "irdot")


def alias_case(ck, prefix, label, res, operands, T, nr, rng):
    """res = result of a NON in-place operation on the operands (dict name -> expansion object)"""
    ck.case(key=("alias", label, len(ck.keys)), nontrivial=True, kind="fresh-result:%s" % label.split("[")[0])
    bad = sharing(res, operands)
    if bad:
        ck.violation("value semantics: the result of %s aliases its operand %s -- an in-place operation on the result rewrites the operand"
                     % (label, ", ".join(bad)), {"op": label, "aliases": bad}, key=prefix + "-result-aliases-operand")
        return
    # mutate the result through in-place routes; the operands must stay bit-identical
    snap = {k: _snap(v) for k, v in operands.items()}
    try:
        if len(res.coefflist):
            c0 = res.coefflist[0][2]
            route = rng.choice(["array-edit", "iadd", "scalarproduct-inplace"] + (["ildot", "irdot"] if c0.ndim == 3 and c0.shape[1] == c0.shape[2] and c0.shape[1] >= 1 else []))
            if np.issubdtype(c0.dtype, np.integer): route = "array-edit-int"
            if route == "array-edit-int": res.coefflist[0][2][...] += 1
            else: mutate_in_place(T, res, route, nr, rng)
        res += res.copy()
    except (ArithmeticError, ValueError, TypeError, IndexError):
        pass      # the mutation is only a probe; the operations themselves are checked elsewhere
    for k, v in operands.items():
        if _snap(v) != snap[k]:
            ck.violation("value semantics: modifying the result of %s in place changed the operand %s" % (label, k),
                         {"op": label, "operand": k}, key=prefix + "-result-aliases-operand")


def history_case(ck, prefix, qname, query, t, route, T, nr, rng, extra_check=None):
    """query(t); modify t in place by `route`; query(t) again must equal query(fresh copy of the modified t)"""
    r1 = query(t)
    desc = mutate_in_place(T, t, route, nr, rng)
    r2 = query(t)
    ref = query(fresh_copy(T, t))
    ok = same_expansion(r2, ref) if hasattr(r2, "coefflist") else bool(np.allclose(r2, ref, rtol=1e-12, atol=1e-12))
    ck.case(key=("history", qname, route, len(ck.keys)), nontrivial=True, kind="history:%s:%s" % (qname, route))
    if not ok:
        stale = same_expansion(r2, r1) if hasattr(r2, "coefflist") else bool(np.allclose(r2, r1))
        ck.violation("history dependence: %s repeated on the same object after the in-place modification '%s' differs from %s of a fresh copy%s"
                     % (qname, desc, qname, " (it is the result from BEFORE the modification)" if stale else ""),
                     {"query": qname, "route": desc, "stale": stale, "nl": [(int(n), int(l)) for n, l, _ in t.coefflist]},
                     key=prefix + "-history-" + qname.split("(")[0])
    elif extra_check is not None:
        extra_check(t, r2)


class RadialPowers(dict):
    """fnu[(n,l)](r) = r^n for every (n,l): magnitude dependent, the same for every l, multiplicative in n"""
    def __missing__(self, key):
        n = key[0]
        return lambda r, n=n: r ** n


def impl_value(t, u, per_order=False, label="__call__"):
    """the implementation's evaluation with f_(n,l)(r) = r^n AT THE ARRAY OBJECT u ITSELF (no copy: the caller's
    array is what a user hands over, and it has to come back unchanged)"""
    assert isinstance(u, np.ndarray) and u.dtype == np.float64
    with unchanged(label, u=u, expansion=t):
        if per_order:
            d = t(u)
            out = {}
            for (n, l), v in d.items(): out[n] = out.get(n, 0) + v
            return out
        if len(t.coefflist) == 0: return 0
        return t(u, RadialPowers())


# ------------------------------------------------------------------------------------------
# generators
def dy(rng, bits=2, span=2):
    """small dyadic rational k / 2^bits in [-span, span]"""
    return rng.randint(-span * (1 << bits), span * (1 << bits)) / float(1 << bits)


def rand_coeff(rng, dim, l, shape, bits=2, span=2, density=0.6, parity_of=None, force=True):
    """coefficient array (powlrange[l],)+shape with dyadic entries; parity_of = n keeps only powers with
    degree = n mod 2; force: make the top-degree block non-zero so that l is the true order"""
    ex = exponents(dim, l)
    c = np.zeros((len(ex),) + tuple(shape))
    for p, e in enumerate(ex):
        if parity_of is not None and (parity_of - sum(e)) % 2 != 0: continue
        for idx in itertools.product(*[range(s) for s in shape]):
            if rng.random() < density: c[(p,) + idx] = dy(rng, bits, span)
    if force:
        top = [p for p, e in enumerate(ex) if sum(e) == l and (parity_of is None or (parity_of - l) % 2 == 0)]
        if top and not np.any(c[top]):
            idx = tuple(rng.randrange(s) for s in shape)
            c[(rng.choice(top),) + idx] = rng.choice([-1.5, -1., -.5, .5, 1., 1.5, 2.])
    return c


def rand_expansion(rng, dim, shape, nl, **kw):
    """nl: list of (n, l)"""
    return [(n, l, rand_coeff(rng, dim, l, shape, **kw)) for (n, l) in nl]


def rand_nl(rng, nmin, nmax, lcap, count, distinct_n=False, l_le_n=False):
    out, seen = [], set()
    tries = 0
    while len(out) < count and tries < 100:
        tries += 1
        n = rng.randint(nmin, nmax)
        l = rng.randint(0, min(lcap, n) if l_le_n else lcap)
        if (n, l) in seen or (distinct_n and any(n == m for m, _ in out)): continue
        seen.add((n, l)); out.append((n, l))
    return out


# ---- coefficient / operand dtypes: int, float, complex.  A complex array is compared with the (real) model through the
# standard real embedding: re and im stacked, complex matrices / scalars as real block matrices
DTYPES = ("int", "float", "complex")


def rand_typed(rng, dtype, shape, density=0.7, nonreal=True):
    """dyadic array of the given dtype (int: small integers; float: k/4; complex: k/4 + i k'/4 with a non-zero
    imaginary part somewhere when nonreal)"""
    shape = tuple(shape)
    n = int(np.prod(shape)) if shape else 1
    if dtype == "int":
        v = np.array([rng.randint(-3, 3) if rng.random() < density else 0 for _ in range(n)], dtype=np.int64)
        if not v.any(): v[rng.randrange(n)] = rng.choice([-2, -1, 1, 2, 3])
    elif dtype == "float":
        v = np.array([dy(rng) if rng.random() < density else 0.0 for _ in range(n)], dtype=np.float64)
        if not any(x != int(x) for x in v): v[rng.randrange(n)] = rng.choice([-1.25, -.5, .25, .75, 1.5])   # not integer valued
    else:
        v = np.array([(dy(rng) + 1j * dy(rng)) if rng.random() < density else 0.0 for _ in range(n)], dtype=np.complex128)
        if nonreal and not np.any(v.imag != 0): v[rng.randrange(n)] += 1j * rng.choice([-1.5, -.5, .5, 1.25])
    return v.reshape(shape) if shape else v.reshape(())[()]


def typed_expansion(rng, dim, shape, nl, dtype):
    return [(n, l, rand_typed(rng, dtype, (npow_count(dim, l),) + tuple(shape), density=0.5)) for n, l in nl]


def as3(c):
    """coefficient array (P,) / (P,r,m) -> complex (P,r,m)"""
    c = np.asarray(c)
    if c.ndim == 1: c = c.reshape((c.shape[0], 1, 1))
    return c.astype(np.complex128)


def vstackc(cl):
    """[(n,l,c)] -> real [(n,l,(P,2r,m))]: rows = re stacked over im (left multiplication acts on it by block_l)"""
    return [(int(n), int(l), np.concatenate([as3(c).real, as3(c).imag], axis=1)) for n, l, c in cl]


def hstackc(cl):
    """columns = re next to im (right multiplication acts by block_r)"""
    return [(int(n), int(l), np.concatenate([as3(c).real, as3(c).imag], axis=2)) for n, l, c in cl]


def fstackc(cl):
    """flattened: (P, 2, r*m), row 0 = re, row 1 = im (scalars and rotation act on it)"""
    out = []
    for n, l, c in cl:
        c3 = as3(c); P = c3.shape[0]
        out.append((int(n), int(l), np.stack([c3.real.reshape(P, -1), c3.imag.reshape(P, -1)], axis=1)))
    return out


def block_l(C):
    C = np.atleast_2d(np.asarray(C)).astype(np.complex128)
    return np.block([[C.real, -C.imag], [C.imag, C.real]])


def block_r(C):
    C = np.atleast_2d(np.asarray(C)).astype(np.complex128)
    return np.block([[C.real, C.imag], [-C.imag, C.real]])


def real_coefflist(t):
    """implementation result -> [(n, l, real ndarray)]; complex dtype with zero imaginary part allowed"""
    out = []
    for n, l, c in getattr(t, "coefflist", t):
        c = np.asarray(c)
        if np.iscomplexobj(c):
            if np.any(c.imag != 0): raise ValueError("non-zero imaginary part from real input")
            c = c.real
        out.append((int(n), int(l), np.array(c, dtype=float)))
    return out


def jsonable(cl):
    return [[int(n), int(l), np.asarray(c).tolist()] for n, l, c in cl]


# ------------------------------------------------------------------------------------------
# Coq literals
def zlit(n):
    n = int(n)
    return "(%d)" % n if n < 0 else "%d" % n


def zlist(v):
    return "[" + ";".join(zlit(x) for x in v) + "]"


def common_den(arrays):
    """smallest power of two D such that every entry * D is an integer (entries are doubles)"""
    e = 0
    for a in arrays:
        for x in np.asarray(a, dtype=float).ravel():
            if x == 0.0: continue
            f = Fraction(float(x))
            e = max(e, f.denominator.bit_length() - 1)
    return 1 << e


def ints(a, den):
    out = []
    for x in np.asarray(a, dtype=float).ravel():
        f = Fraction(float(x)) * den
        assert f.denominator == 1
        out.append(f.numerator)
    return out


def grid_ints(a, den):
    """round to the grid 1/den (used only for tolerance comparisons; den = 2^70)"""
    return [int(round(Fraction(float(x)) * den)) for x in np.asarray(a, dtype=float).ravel()]


def rawx(cl, den):
    """[(n,l,array)] -> Coq term of type rawx with integer numerators over den"""
    ents = []
    for n, l, c in cl:
        c = np.asarray(c, dtype=float)
        rows = [zlist(ints(c[p], den)) for p in range(c.shape[0])]
        ents.append("(%s,%d%%nat,[%s])" % (zlit(n), l, ";".join(rows)))
    return "([" + ";".join(ents) + "])%Z"


def rawx_grid(cl, den):
    ents = []
    for n, l, c in cl:
        c = np.asarray(c, dtype=float)
        rows = [zlist(grid_ints(c[p], den)) for p in range(c.shape[0])]
        ents.append("(%s,%d%%nat,[%s])" % (zlit(n), l, ";".join(rows)))
    return "([" + ";".join(ents) + "])%Z"


def mkx(nflat, cl, den=None):
    den = den or common_den([c for _, _, c in cl])
    return "(mkx %d %d%%positive %s)" % (nflat, den, rawx(cl, den))


def mkx_grid(nflat, cl):
    return "(mkx %d %d%%positive %s)" % (nflat, GRID, rawx_grid(cl, GRID))


def mkv(nflat, arr, den=None):
    den = den or common_den([arr])
    return "(mkv %d %d%%positive %s%%Z)" % (nflat, den, zlist(ints(arr, den)))


def mkv_grid(nflat, arr):
    return "(mkv %d %d%%positive %s%%Z)" % (nflat, GRID, zlist(grid_ints(arr, GRID)))


def qlit(x):
    f = x if isinstance(x, Fraction) else Fraction(float(x))
    return "(qq %s %d%%positive)" % (zlit(f.numerator) + "%Z", f.denominator)


def qlist(v):
    return "[" + ";".join(qlit(x) for x in v) + "]"


def qmat(A):
    return "[" + ";".join(qlist(r) for r in A) + "]"


GRID = 1 << 70

PREAMBLE = r"""From Coq Require Import List ZArith QArith Qcanon Bool Arith.
From Onsager Require Import Base.OrdRing Base.Instances Model.Taylor.
Import ListNotations.
Close Scope Q_scope. Close Scope Qc_scope.
Local Open Scope nat_scope.
Definition QK := Qcring.
Definition qq (z : Z) (den : positive) : QK := Q2Qc (Qmake z den).
Definition qd (den : positive) (z : Z) : QK := Q2Qc (Qmake z den).
Definition mkv (n : nat) (den : positive) (zs : list Z) : pw QK n := pw_of_list QK n (map (qd den) zs).
Definition rawx := list (Z * nat * list (list Z)).
Definition mkx (n : nat) (den : positive) (a : rawx) : expansion (pwmod QK n) :=
  map (fun t => match t with (nn, l, c) => (nn, l, map (mkv n den) c) end) a.
Fixpoint leqb {T} (f : T -> T -> bool) (a b : list T) : bool :=
  match a, b with [], [] => true | x :: a', y :: b' => f x y && leqb f a' b' | _, _ => false end.
Definition qclose (tol x y : QK) : bool := rleb QK (rsub QK x y) tol && rleb QK (rsub QK y x) tol.
Fixpoint pclose (n : nat) (tol : QK) : pw QK n -> pw QK n -> bool :=
  match n with O => fun _ _ => true | S n' => fun u v => qclose tol (fst u) (fst v) && pclose n' tol (snd u) (snd v) end.
Definition xcmp (n : nat) (veq : pw QK n -> pw QK n -> bool) (a b : expansion (pwmod QK n)) : bool :=
  leqb (fun s t => match s, t with (n1, l1, c1), (n2, l2, c2) => Z.eqb n1 n2 && Nat.eqb l1 l2 && leqb veq c1 c2 end) a b.
(* 0 = model and implementation agree; 1 = input outside the model's domain (harness bug); 2 = they differ *)
Definition code (dom same : bool) : nat := if dom then (if same then 0 else 2) else 1.
Definition qinv (r : QK) : QK := Qcinv r.
Definition radq (r : QK) (n : Z) : QK := if (0 <=? n)%Z then rpow (K:=QK) r (Z.to_nat n) else rpow (K:=QK) (qinv r) (Z.to_nat (- n)).
Definition ocmp (n : nat) (veq : pw QK n -> pw QK n -> bool) (a : option (expansion (pwmod QK n))) (b : expansion (pwmod QK n)) : bool :=
  match a with Some a' => xcmp n veq a' b | None => false end.
Definition tabeq (a b : list (list QK)) : bool := leqb (leqb (reqb QK)) a b.
Definition tabclose (tol : QK) (a b : list (list QK)) : bool := leqb (leqb (qclose tol)) a b.
Definition zmatq (den : positive) (m : list (list Z)) : list (list QK) := map (map (qd den)) m.
"""


def run_codes(ck, name, defs, terms, chunk=60):
    """defs: list of Coq vernacular lines (shared definitions); terms: list of Coq terms of type nat.
    Returns the list of codes (ints).  Raises CoqFailure if Coq fails or the output cannot be parsed."""
    codes = []
    for a in range(0, max(len(terms), 1), chunk):
        part = terms[a:a + chunk]
        if not part: break
        body = "\n".join(defs) + "\n"
        body += "\n".join("Definition case_%d : nat := %s." % (i, t) for i, t in enumerate(part))
        body += "\nEval vm_compute in [%s].\n" % "; ".join("case_%d" % i for i in range(len(part)))
        out = ck.coq_cases("%s_%d" % (name, a), body, PREAMBLE)
        m = re.search(r"=\s*\[(.*?)\]\s*:\s*list nat", out, flags=re.S)
        if not m: raise CoqFailure("could not parse model output of %s: %s" % (name, out[-400:]))
        got = [int(x) for x in re.findall(r"\d+", m.group(1).replace("%nat", ""))]
        if len(got) != len(part): raise CoqFailure("model output of %s has %d codes for %d cases" % (name, len(got), len(part)))
        codes += got
    return codes


def flat_index(shape, key):
    """flattened indices selected by a numpy key on an array of this shape, and the resulting shape"""
    n = int(np.prod(shape)) if len(shape) else 1
    idx = np.arange(n).reshape(shape)[key]
    return [int(i) for i in np.asarray(idx).ravel()], tuple(np.asarray(idx).shape)


def nflat(shape):
    return int(np.prod(shape)) if len(shape) else 1
