"""C04  Results are invariant under reference choices and scale with rates.

Theorems (Properties/C04.v): a common energy shift of a species and its transition states, and a joint prefactor
scaling, leave every conductance ratio wT/Z unchanged (for any function ex with ex(a+b)=ex a ex b); kT co-scaling
leaves beta*E unchanged; scaling all conductances by lam keeps the corrector and scales L by lam (L_scale); an
intra-cell displacement p changes displacements by p(dst)-p(src), shifts the corrector by -p and leaves L unchanged
(L_gauge) - all for every network / ring.
Tie: the model (Net.v network of the implementation's jump list, class rates) is the one validated against the
implementation in C02/C01; here (a) exact tier: the implementation's D for rates scaled by a dyadic lam is enclosed by
lam x the exact coefficient of the unscaled network (Coq checker over Z on scale_net), (b) direct evaluator: each
transformation applied to Interstitial.diffusivity and to VacancyMediated.Lij (through preene2betafree) on the pool;
displacement: sites moved along their own invariant vector basis (keeps symmetry and topology), jump vectors
recomputed, same rates."""
META = dict(
    level="proof",
    text=("Theorems for all networks/rings: shift, prefactor, kT invariances of the conductance ratios; L_scale; L_gauge. "
          "Tie: Coq checker over Z on the scaled network vs the implementation, plus a direct evaluator applying each "
          "transformation to Interstitial.diffusivity and VacancyMediated.Lij on the crystal pool."),
    note=("Trusted: Coq kernel/vm_compute; exp modelled as any additive-to-multiplicative map; harness transformations; "
          "float tolerance 1e-9 relative (1e-7 where the Green function is recomputed at scaled rates)."),
    technique="Coq proof (Thermo.v invariances, L_scale, L_gauge) + transformation evaluator + scaled-network certificate",
)

import numpy as np
from fractions import Fraction
from . import gen, vm, netcase, tcommon
from .lib import CoqFailure


def rel(a, b):
    a, b = np.asarray(a), np.asarray(b)
    return np.abs(a - b).max() / max(np.abs(b).max(), 1e-300)


def displaced(crys, chem, d, jn, nr):
    """move the sites of species chem along their invariant vector basis; returns (crys2, jn2) or None"""
    from onsager import crystal
    if d.NV == 0: return None
    coef = nr.uniform(-0.04, 0.04, d.NV)
    p = sum(c * vb for c, vb in zip(coef, d.VectorBasis))  # N x dim Cartesian
    newbasis = [[u.copy() for u in atoms] for atoms in crys.basis]
    for i in range(d.N):
        newbasis[chem][i] = newbasis[chem][i] + np.dot(crys.invlatt, p[i])
    try:
        crys2 = crystal.Crystal(crys.lattice, newbasis, chemistry=crys.chemistry, noreduce=True)
    except Exception:
        return None
    if len(crys2.G) != len(crys.G) or crys2.N != crys.N: return None
    # site correspondence: constant shift (center()) only
    sh = [crystal.inhalf(crys2.basis[chem][i] - newbasis[chem][i]) for i in range(d.N)]
    if max(np.abs(s - sh[0]).max() for s in sh) > 1e-9: return None
    if not np.allclose(crys2.lattice, crys.lattice): return None
    jn2 = [[((i, j), dx + p[j] - p[i]) for (i, j), dx in jl] for jl in jn]
    return crys2, jn2, p


def run(ck):
    from onsager import OnsagerCalc
    ck.rule = ("interstitial pool and small vacancy-mediated calculators x random data x random transformation parameters "
               "(shift, joint prefactor scale, kT co-scale, rate scale, invariant-vector displacement); distinct = (crystal, data, "
               "transformation); non-trivial = transformation parameter away from identity")
    ck.trusted += ["harness/c04.py transformation definitions (which energies/prefactors belong to a species)"]
    ck.theorems()
    rng = ck.rng
    nr = ck.nprng(1)
    enc_terms, enc_meta = [], []
    ncase = 0; ndisp = 0
    for label, crys, chem, cut, sl, jn, d in tcommon.interstitial_pool(ck, rng, ck.n(14, 60)):
        pre, bE, preT, bET = tcommon.random_interstitial_data(nr, sl, jn)
        D = d.diffusivity(pre, bE, preT, bET)
        doc = {"crystal": repr(crys), "chem": chem, "cutoff": cut, "pre": pre.tolist(), "betaene": bE.tolist(), "preT": preT.tolist(), "betaeneT": bET.tolist(), "D": D.tolist()}
        delta = nr.uniform(-3, 3); lam = float(nr.uniform(0.2, 5)); lam2 = float(2.0 ** rng.randint(-3, 3)) * 1.5
        tests = [("shift", d.diffusivity(pre, bE + delta, preT, bET + delta), D, 1e-9),
                 ("prefactor", d.diffusivity(pre * lam, bE, preT * lam, bET), D, 1e-9),
                 ("rate-scale", d.diffusivity(pre, bE, preT * lam2, bET), lam2 * D, 1e-9)]
        for nm, got, want, tol in tests:
            ncase += 1
            ck.case(key=("int", nm, label, round(cut, 5), pre.round(10).tolist(), bE.round(10).tolist(), delta, lam, lam2), nontrivial=True, kind="interstitial:" + nm,
                    sample={"crystal": label, "transformation": nm, "delta": delta, "lam": lam, "lam2": lam2, "rel_err": rel(got, want)} if ncase <= 3 else None)
            if rel(got, want) > tol:
                ck.violation("interstitial diffusivity not %s-invariant: %.3g relative" % (nm, rel(got, want)),
                             dict(doc, transformation=nm, delta=delta, lam=lam, lam2=lam2, got=np.asarray(got).tolist()), key="c04-int-" + nm)
        # displacement
        dp = displaced(crys, chem, d, jn, nr)
        if dp is not None:
            crys2, jn2, p = dp
            try:
                d2 = OnsagerCalc.Interstitial(crys2, chem, sl, jn2)
                D2 = d2.diffusivity(pre, bE, preT, bET)
            except Exception as e:
                D2 = None
            if D2 is not None:
                ndisp += 1
                ck.case(key=("int", "disp", label, round(cut, 5), p.round(10).tolist()), nontrivial=True, kind="interstitial:displacement",
                        sample={"crystal": label, "transformation": "displacement", "p": p.tolist(), "rel_err": rel(D2, D)} if ndisp <= 2 else None)
                if rel(D2, D) > 1e-9:
                    ck.violation("interstitial diffusivity changed by an intra-cell displacement that keeps topology and rates: %.3g" % rel(D2, D),
                                 dict(doc, displaced_crystal=repr(crys2), p=p.tolist(), D2=D2.tolist()), key="c04-int-displacement")
        # exact tier: scaled network
        jumps = tcommon.unitcell_network(crys, jn)
        if jumps is not None and len(jumps) <= 60:
            preTd = [gen.dyadic(rng, 0.25, 4.0, 3) for _ in jn]; pred = [gen.dyadic(rng, 0.5, 2.0, 3) for _ in sl]
            lamd = Fraction(rng.choice([3, 5, 7, 12]), rng.choice([1, 2, 4]))
            Ds = d.diffusivity(np.array(pred), np.zeros(len(sl)), np.array(preTd) * float(lamd), np.zeros(len(jn)))
            Dl = crys.invlatt @ Ds @ crys.invlatt.T
            Z = sum(Fraction(pred[d.invmap[i]]) for i in range(d.N))
            # Bform(unscaled) * lam = 2 Z D(scaled)   <=>  target/lam against the unscaled network
            term, info = netcase.integer_case(d.N, crys.dim, [Fraction(x) for x in preTd], jumps, Dl / float(lamd),
                                              1e-9 * np.abs(Dl).max() / float(lamd), 2 * Z)
            if term is not None and info["bits"] < 3000:
                enc_terms.append(term); enc_meta.append(dict(label=label, crys=repr(crys), cut=cut, pre=pred, preT=preTd, lam=str(lamd), D=Ds.tolist()))
    try:
        codes = netcase.run_cases(ck, "scaled", enc_terms)
    except CoqFailure as e:
        ck.broken_proof = "correspondence (scaled network): %s" % e
        codes = []
    for m, c in zip(enc_meta, codes):
        ck.case(key=("exact-scale", m["label"], m["cut"], m["pre"], m["preT"], m["lam"]), nontrivial=True, kind="exact:rate-scale")
        if c == 4: raise RuntimeError("harness certificate rejected")
        if c != 0:
            ck.violation("D at rates scaled by %s is not %s x the exact coefficient of the unscaled network (code %d)" % (m["lam"], m["lam"], c), m, key="c04-exact-scale")
    ck.extra["traces_validated_against_impl"] = len(codes)
    ck.extra["displacement_cases"] = ndisp
    # ---------------- vacancy mediated -------------------------------------------------------------------
    # rect-polar2d / polar / oblique2d: origin-state vector basis (extra pseudo-inverse steps in Lij); oblique1: low symmetry
    names = ["square", "rect-polar2d", "honeycomb", "sq2w", "oblique1", "tria", "sc", "b2"] + ([] if ck.quick else ["fcc", "bcc", "hcp", "re3", "polar", "oblique2d", "mono"])
    nvm = 0
    for rep in range(ck.n(6, 15)):
        nm = names[rep % len(names)]
        crys, chem = gen.named(nm)
        net = gen.percolating_network(crys, chem, rng, maxshell=1, maxjumps=30)
        if net is None: continue
        cut, sl, jn = net
        d = vm.make(crys, chem, sl, jn, 1)
        th = vm.random_thermo(d, rng, interact=True, site_energies=True)
        kT = rng.choice([0.7, 1.0, 1.4])
        base = [np.array(x) for x in d.Lij(*d.preene2betafree(kT, **th))]
        delta = rng.uniform(-2, 2); lam = rng.uniform(0.3, 3); s = rng.uniform(0.5, 2); lam2 = rng.choice([0.25, 0.5, 2.0, 3.0])
        def mod(**kw):
            t = {k: np.array(v, dtype=float) for k, v in th.items()}
            for k, f in kw.items(): t[k] = f(t[k])
            return t
        add = lambda x: x + delta
        mul = lambda x: x * lam
        variants = [
            ("shift-vacancy", mod(eneV=add, eneT0=add, eneT1=add, eneT2=add), kT, 1.0, 1e-9),
            ("shift-solute", mod(eneS=add, eneT1=add, eneT2=add), kT, 1.0, 1e-9),
            ("prefactor-vacancy", mod(preV=mul, preT0=mul, preT1=mul, preT2=mul), kT, 1.0, 1e-9),
            ("prefactor-solute", mod(preS=mul, preT1=mul, preT2=mul), kT, 1.0, 1e-9),
            ("kT-coscale", mod(**{k: (lambda x: x * s) for k in th if k.startswith("ene")}), kT * s, 1.0, 1e-9),
            ("rate-scale", mod(preT0=lambda x: x * lam2, preT1=lambda x: x * lam2, preT2=lambda x: x * lam2), kT, lam2, 1e-7),
        ]
        for vn, t2, kT2, factor, tol in variants:
            try:
                got = [np.array(x) for x in d.Lij(*d.preene2betafree(kT2, **t2))]
            except Exception as e:
                ck.violation("Lij raised %r under %s" % (e, vn), {"crystal": nm, "thermo": {k: np.asarray(v).tolist() for k, v in t2.items()}}, key="c04-raise"); continue
            nvm += 1
            scale = np.abs(base[0]).max()
            err = max(np.abs(g - factor * b).max() for g, b in zip(got, base)) / (scale * max(factor, 1.0))
            ck.case(key=("vm", vn, nm, [np.asarray(v).round(10).tolist() for v in th.values()], delta, lam, s, lam2), nontrivial=True, kind="vm:" + vn,
                    sample={"crystal": nm, "transformation": vn, "rel_err": float(err)} if nvm <= 3 else None)
            if err > tol:
                ck.violation("vacancy-mediated coefficients not %s-invariant/covariant: %.3g relative" % (vn, err),
                             {"crystal": nm, "cutoff": cut, "kT": kT, "thermo": {k: np.asarray(v).tolist() for k, v in th.items()},
                              "transformed": {k: np.asarray(v).tolist() for k, v in t2.items()}, "kT2": kT2, "factor": factor,
                              "base": [b.tolist() for b in base], "got": [g.tolist() for g in got]}, key="c04-vm-" + vn)
        # reference changes applied BEFORE the documented helper pipeline (thermodynamic data -> makeLIMBpreene -> preene2betafree
        # -> Lij; tracer data -> maketracerpreene): the helpers themselves must carry the solute / vacancy reference through
        t0 = {k: np.array(th[k], dtype=float) for k in ("preV", "eneV", "preS", "eneS", "preSV", "eneSV", "preT0", "eneT0")}
        def limb(tt):
            full = dict(tt); full.update(d.makeLIMBpreene(**tt)); return full
        try:
            Lb = [np.array(x) for x in d.Lij(*d.preene2betafree(kT, **limb(t0)))]
        except Exception as e:
            ck.violation("Lij raised %r on LIMB data" % e, {"crystal": nm}, key="c04-raise"); Lb = None
        if Lb is not None:
            tS = dict(t0, eneS=t0["eneS"] + delta, preS=t0["preS"] * lam)
            tV = dict(t0, eneV=t0["eneV"] + delta, eneT0=t0["eneT0"] + delta, preV=t0["preV"] * lam, preT0=t0["preT0"] * lam)
            for vn, tt in (("limb-solute-reference", tS), ("limb-vacancy-reference", tV)):
                try:
                    got = [np.array(x) for x in d.Lij(*d.preene2betafree(kT, **limb(tt)))]
                except Exception as e:
                    ck.violation("Lij raised %r under %s" % (e, vn), {"crystal": nm}, key="c04-raise"); continue
                nvm += 1
                scale = np.abs(Lb[0]).max()
                err = max(np.abs(g - b).max() for g, b in zip(got, Lb)) / scale
                ck.case(key=("vm", vn, nm, [np.asarray(v).round(10).tolist() for v in t0.values()], delta, lam), nontrivial=True, kind="vm:" + vn)
                if err > 1e-9:
                    ck.violation("vacancy-mediated coefficients built through makeLIMBpreene depend on the %s (energy shifted by %.3g, prefactor x %.3g): %.3g relative"
                                 % (vn[5:], delta, lam, err),
                                 {"crystal": nm, "cutoff": cut, "kT": kT, "thermo": {k: np.asarray(v).tolist() for k, v in t0.items()},
                                  "transformed": {k: np.asarray(v).tolist() for k, v in tt.items()},
                                  "base": [b.tolist() for b in Lb], "got": [g.tolist() for g in got]}, key="c04-vm-" + vn)
        # the tag-dictionary route (tags2preene -> preene2betafree -> Lij) with an INCOMPLETE dictionary: about half of the omega1 /
        # omega2 transition states are left to the documented LIMB back-fill; a change of reference applied to the supplied tags
        # only (solute: solute tags and supplied omega1/omega2 tags; vacancy: vacancy, omega0 and supplied omega1/omega2 tags)
        # must leave the results unchanged - the back-filled transition states have to follow the user's values
        ud = {}
        for typ, (plo, phi, elo, ehi) in (("vacancy", (.5, 2, 0, .4)), ("solute", (.5, 2, 0, .4)), ("solute-vacancy", (.5, 2, -.4, .4)),
                                          ("omega0", (.5, 2, .6, 1.2)), ("omega1", (.5, 2, .6, 1.4)), ("omega2", (.5, 2, .4, 1.4))):
            for tags in d.tags[typ]:
                if typ in ("omega1", "omega2") and rng.random() < 0.5: continue
                ud[(typ, rng.choice(tags))] = (rng.uniform(plo, phi), rng.uniform(elo, ehi))
        def tagL(shift_types):
            u2 = {tag: ((pre_ * lam, ene_ + delta) if typ in shift_types else (pre_, ene_)) for (typ, tag), (pre_, ene_) in ud.items()}
            return [np.array(x) for x in d.Lij(*d.preene2betafree(kT, **d.tags2preene(u2)))]
        try:
            Lt = tagL(())
        except Exception as e:
            ck.violation("tags2preene/Lij raised %r on an incomplete tag dictionary" % e, {"crystal": nm}, key="c04-raise"); Lt = None
        if Lt is not None:
            for vn, types in (("tags-solute-reference", ("solute", "omega1", "omega2")), ("tags-vacancy-reference", ("vacancy", "omega0", "omega1", "omega2"))):
                try:
                    got = tagL(types)
                except Exception as e:
                    ck.violation("tags2preene/Lij raised %r under %s" % (e, vn), {"crystal": nm}, key="c04-raise"); continue
                nvm += 1
                scale = np.abs(Lt[0]).max()
                err = max(np.abs(g - b).max() for g, b in zip(got, Lt)) / scale
                ck.case(key=("vm", vn, nm, sorted((t[1], v) for t, v in ud.items()), delta, lam), nontrivial=True, kind="vm:" + vn)
                if err > 1e-9:
                    ck.violation("coefficients built from an incomplete tag dictionary (LIMB back-fill) depend on the %s (energy + %.3g, prefactor x %.3g): %.3g relative"
                                 % (vn[5:], delta, lam, err),
                                 {"crystal": nm, "cutoff": cut, "kT": kT, "tags": {t[1]: list(v) for t, v in ud.items()}, "shifted_types": list(types),
                                  "base": [b.tolist() for b in Lt], "got": [g.tolist() for g in got]}, key="c04-vm-" + vn)
        # the tracer workflow (maketracerpreene): scaling the omega0 prefactors by lam2 must scale all tensors by lam2
        tr0 = dict(preV=np.array(th["preV"], dtype=float), eneV=np.array(th["eneV"], dtype=float),
                   preT0=np.array(th["preT0"], dtype=float), eneT0=np.array(th["eneT0"], dtype=float))
        try:
            tA = dict(tr0); tA.update(d.maketracerpreene(**tr0))
            tB = dict(tr0, preT0=tr0["preT0"] * lam2); tB.update(d.maketracerpreene(**tB))
            LA = [np.array(x) for x in d.Lij(*d.preene2betafree(kT, **tA))]; LB = [np.array(x) for x in d.Lij(*d.preene2betafree(kT, **tB))]
            nvm += 1
            errt = max(np.abs(b_ - lam2 * a_).max() for a_, b_ in zip(LA, LB)) / (np.abs(LA[0]).max() * max(lam2, 1.0))
            ck.case(key=("vm", "tracer-rate-scale", nm, [np.asarray(v).round(10).tolist() for v in tr0.values()], lam2), nontrivial=True, kind="vm:tracer-rate-scale")
            if errt > 1e-7:
                ck.violation("tracer data from maketracerpreene: scaling the omega0 prefactors by %g does not scale the coefficients (%.3g relative)" % (lam2, errt),
                             {"crystal": nm, "cutoff": cut, "kT": kT, "thermo": {k: np.asarray(v).tolist() for k, v in tr0.items()}, "lam": lam2,
                              "L": [x.tolist() for x in LA], "L_scaled": [x.tolist() for x in LB]}, key="c04-vm-tracer-rate-scale")
        except Exception as e:
            ck.violation("tracer workflow raised %r" % e, {"crystal": nm}, key="c04-raise")
        # the same invariances on the scaled free energies handed to Lij DIRECTLY (no renormalisation by preene2betafree):
        # a common shift of a species' site and transition-state values must not matter whatever the zero of the arrays is
        bFV, bFS, bFSV, bFT0, bFT1, bFT2 = [np.array(x, dtype=float) for x in d.preene2betafree(kT, **th)]
        c = rng.uniform(-1.5, 1.5); lnl = np.log(lam2)
        direct = [("direct-shift-vacancy", (bFV + c, bFS, bFSV, bFT0 + c, bFT1 + c, bFT2 + c), 1.0, 1e-9),
                  ("direct-shift-solute", (bFV, bFS + c, bFSV, bFT0, bFT1 + c, bFT2 + c), 1.0, 1e-9),
                  ("direct-rate-scale", (bFV, bFS, bFSV, bFT0 - lnl, bFT1 - lnl, bFT2 - lnl), lam2, 1e-7)]
        for vn, a2, factor, tol in direct:
            try:
                got = [np.array(x) for x in d.Lij(*a2)]
            except Exception as e:
                ck.violation("Lij raised %r under %s" % (e, vn), {"crystal": nm, "betaF": [np.asarray(x).tolist() for x in a2]}, key="c04-raise"); continue
            nvm += 1
            scale = np.abs(base[0]).max()
            err = max(np.abs(g - factor * b).max() for g, b in zip(got, base)) / (scale * max(factor, 1.0))
            ck.case(key=("vm", vn, nm, [np.asarray(v).round(10).tolist() for v in th.values()], c, lam2), nontrivial=True, kind="vm:" + vn)
            if err > tol:
                ck.violation("vacancy-mediated coefficients (Lij called directly) not %s-invariant/covariant: %.3g relative" % (vn, err),
                             {"crystal": nm, "cutoff": cut, "shift": c, "factor": factor, "betaF": [np.asarray(x).tolist() for x in (bFV, bFS, bFSV, bFT0, bFT1, bFT2)],
                              "betaF_transformed": [np.asarray(x).tolist() for x in a2], "base": [b.tolist() for b in base], "got": [g.tolist() for g in got]},
                             key="c04-vm-" + vn)
        # the time unit is arbitrary: ALL rates scaled by 1e-12 .. 1e12 at ordinary rate ratios must scale all four tensors, on
        # every crystal (origin-state vector bases, several Wyckoff sets, low symmetry included); no absolute rate threshold
        # may enter (pseudo-inverse cutoffs, zero tests)
        base = [np.array(x) for x in d.Lij(*d.preene2betafree(kT, **th))]
        for lamx in ((1e-12, 1e12) if ck.quick else (1e-15, 1e-12, 1e-9, 1e-6, 1e6, 1e12)):
            t3 = {k: np.array(v, dtype=float) for k, v in th.items()}
            for k in ("preT0", "preT1", "preT2"): t3[k] = t3[k] * lamx
            try:
                got = [np.array(x) for x in d.Lij(*d.preene2betafree(kT, **t3))]
            except Exception as e:
                ck.violation("Lij raised %r when every rate is scaled by %g" % (e, lamx), {"crystal": nm, "cutoff": cut, "lam": lamx}, key="c04-vm-raise"); continue
            nvm += 1
            scale = np.abs(base[0]).max()
            err = max(np.abs(g / lamx - b).max() for g, b in zip(got, base)) / scale
            ck.case(key=("vm", "time-unit", nm, lamx, [np.asarray(v).round(10).tolist() for v in th.values()]), nontrivial=True, kind="vm:time-unit")
            if not err <= 1e-7:
                ck.violation("scaling every rate by %g does not scale the transport coefficients by %g (relative %.3g; origin-state vector stars: %d, Wyckoff sets: %d)"
                             % (lamx, lamx, err, len(d.OSindices), len(sl)),
                             {"crystal": nm, "cutoff": cut, "kT": kT, "lam": lamx, "thermo": {k: np.asarray(v).tolist() for k, v in th.items()},
                              "L": [x.tolist() for x in base], "L_scaled_over_lam": [(x / lamx).tolist() for x in got]}, key="c04-vm-time-unit")
        # rate scaling over many decades with a very fast exchange (omega2 ~ 1e13 x bare): which omega2 algorithm Lij selects
        # must not depend on the time unit.  L0vv and Lss are accurate in this regime for crystals with one Wyckoff set and
        # no origin-state vector basis (Lsv/L1vv are the C08 known cancellation finding and are not compared)
        if not vm.exchange_mixes_stars(d):
            tf = {k: np.array(v, dtype=float) for k, v in th.items()}
            tf["preT2"] = tf["preT2"] * 1e13
            ref = [np.array(x) for x in d.Lij(*d.preene2betafree(kT, **tf))]
            for lamx in (1e-10, 1e4):
                t3 = {k: np.array(v, dtype=float) for k, v in tf.items()}
                for k in ("preT0", "preT1", "preT2"): t3[k] = t3[k] * lamx
                got = [np.array(x) for x in d.Lij(*d.preene2betafree(kT, **t3))]
                nvm += 1
                scale = np.abs(ref[0]).max()
                err = max(np.abs(got[0] / lamx - ref[0]).max(), np.abs(got[1] / lamx - ref[1]).max()) / scale
                ck.case(key=("vm", "rate-scale-decades", nm, lamx, [np.asarray(v).round(10).tolist() for v in th.values()]), nontrivial=True, kind="vm:rate-scale-decades")
                if err > 1e-6:
                    ck.violation("scaling every rate by %g does not scale L0vv/Lss by %g when the exchange is 1e13 x the bare rate (relative %.3g)" % (lamx, lamx, err),
                                 {"crystal": nm, "cutoff": cut, "kT": kT, "lam": lamx, "thermo": {k: np.asarray(v).tolist() for k, v in tf.items()},
                                  "L": [x.tolist() for x in ref], "L_scaled_over_lam": [(x / lamx).tolist() for x in got]}, key="c04-vm-rate-scale-decades")
    ck.extra["vm_cases"] = nvm
