"""C14  Vacancy-mediated results depend only on their inputs, not on call history.

Model/Cache.v: heap of array cells + cache maps; for every returned array a mode Fresh | Alias slot.
C14_history (all histories, arbitrary numerics): all returned arrays Fresh => every Lij returns what a fresh
calculator returns.  C14_refuted: with the first returned array aliasing the cached Lvvvalues entry the history
[Lij k; mutate; Lij k] returns the caller's edit.
Tie to the current source on every run: (1) the modes are DERIVED by a Python-ast alias analysis of
VacancyMediated.Lij (return statement, cache .get() loads, cache stores, GFcalc.Diffusivity/biascorrection),
fail closed; (2) validated dynamically with np.shares_memory; (3) Coq decides, for the derived modes, whether
the premise of C14_history holds or the refutation applies; (4) the witness is replayed on the implementation;
(5) random histories: implementation vs the executable model inside Coq (which Lij results are corrupted,
component by component) and vs a fresh calculator (the property itself)."""
META = dict(
    level="proof",
    text=("Coq state machine of the Lij cache (heap cells, cache maps, Fresh/Alias return modes, ops Lij/mutate/clearcache/"
          "reconfigure/save-load); theorem for ALL histories and arbitrary numerics: no returned array aliases a cached cell => "
          "every Lij equals the fresh-calculator value; refutation witness for the modes of the current source. Modes derived "
          "from the source by ast alias analysis on every run and validated with np.shares_memory; witness replayed; random "
          "histories compared with the model in Coq and with fresh calculators."),
    note=("Defects found by this check: c14-alias-L0vv and c14-regenerate-stale-vectorstars (both fixed in /repo), "
          "c14-cache-key-aliases-input (the vTK cache key keeps references to the caller's bFV/bFT0 arrays: reused input arrays + "
          "save/load give wrong results). The model also covers a callee that hands out ONE reused buffer for a cached array "
          "(store modes, derived from GFCrystalcalc.Diffusivity/biascorrection/SetRates by ast and validated with "
          "np.shares_memory between cache entries): C14_shared_buffer_refuted. The GF calculator's internal state between "
          "SetRates calls is not modelled: it is covered by the evaluator (crystals with >= 2 omega0 jump types and non-zero "
          "bias correction, A,B,A,C sequences, every result vs a fresh calculator at 1e-12). Trusted: the ast analysis recognises only the "
          "code shapes listed in harness/c14.py (anything else fails closed); numerics (pure) are outside the model by design; "
          "dict lookup by vTK is modelled as exact-key lookup (bytes hash is compared first). 'generate' means the documented "
          "sequence generate(N); generatematrices(); generatetags()."),
    technique="Coq proof (induction over histories with a heap invariant) + source-derived alias modes + history replay",
)

import ast, os, re, itertools
import numpy as np
from .lib import CoqFailure, coq_list, coq_nat, coq_bool
from .pscommon import Once, run_nat_cases, random_thermo
from . import gen

CACHES = {"GFvalues": 0, "Lvvvalues": 1, "etavvalues": 2}
TOL = 1e-12


# ------------------------------------------------------------------------------------------------
# static alias analysis (fail closed)
class Unrecognised(Exception):
    pass


def _is_self_attr(e, names):
    return isinstance(e, ast.Attribute) and isinstance(e.value, ast.Name) and e.value.id == "self" and e.attr in names


def gf_accessor_modes(gfsrc):
    """GFCrystalcalc.Diffusivity()/biascorrection():
       noarg   : 'attr' if the call without argument returns the stored attribute itself, 'fresh' if a copy;
       compute : 'fresh' if the value computed in SetRates (call WITH argument) is a newly allocated array on every call,
                 'reused' if it is (or may be) an existing buffer (self.<attr>, an argument, ...) filled in place.
       SetRates must bind self.D / self.eta to exactly these calls."""
    tree = ast.parse(gfsrc)
    out = {}
    clss = [n for n in tree.body if isinstance(n, ast.ClassDef) and n.name == "GFCrystalcalc"]
    if len(clss) != 1: raise Unrecognised("class GFCrystalcalc not found")
    fns = {n.name: n for n in clss[0].body if isinstance(n, ast.FunctionDef)}
    for name, attr in (("Diffusivity", "D"), ("biascorrection", "eta")):
        if name not in fns: raise Unrecognised("GFCrystalcalc.%s not found" % name)
        fn = fns[name]
        rets = []

        def classify(e, env):
            if isinstance(e, ast.Name): return env.get(e.id, ("unknown", e.id))
            if isinstance(e, (ast.BinOp, ast.UnaryOp)): return ("fresh",)
            if isinstance(e, ast.IfExp): return join(classify(e.body, env), classify(e.orelse, env))
            if isinstance(e, ast.Attribute) and isinstance(e.value, ast.Name) and e.value.id == "self": return ("attr", e.attr)
            if isinstance(e, ast.Call) and isinstance(e.func, ast.Attribute):
                if e.func.attr == "copy": return ("fresh",)
                if isinstance(e.func.value, ast.Name) and e.func.value.id == "np" and e.func.attr in (
                        "zeros", "ones", "empty", "array", "eye", "zeros_like", "ones_like", "dot", "tensordot", "outer", "trace"):
                    return ("fresh",)
            return ("unknown", ast.dump(e)[:60])

        def join(x, y):
            for kind in ("attr", "unknown", "arg"):
                for z in (x, y):
                    if z is not None and z[0] == kind: return z
            return x if x is not None else y

        def block(stmts, env):
            for st in stmts:
                if isinstance(st, ast.Assign) and len(st.targets) == 1 and isinstance(st.targets[0], ast.Name):
                    env[st.targets[0].id] = classify(st.value, env)
                elif isinstance(st, ast.Assign):
                    for t in st.targets:
                        for n in ast.walk(t):
                            if isinstance(n, ast.Name) and isinstance(n.ctx, ast.Store): env[n.id] = ("unknown", "complex assignment")
                elif isinstance(st, ast.If):
                    e1, e2 = dict(env), dict(env)
                    block(st.body, e1); block(st.orelse, e2)
                    for k in set(e1) | set(e2): env[k] = join(e1.get(k), e2.get(k))
                elif isinstance(st, (ast.For, ast.While)):
                    e1 = dict(env); block(st.body, e1)
                    for k in set(e1) | set(env): env[k] = join(env.get(k), e1.get(k))
                elif isinstance(st, ast.Return):
                    # `return self.<attr>` written literally is the accessor path; a NAME bound to the attribute is a reused buffer
                    rets.append(("accessor",) if _is_self_attr(st.value, (attr,)) else classify(st.value, env))
                elif isinstance(st, (ast.AugAssign, ast.Expr, ast.Pass, ast.Assert, ast.Raise)):
                    pass
                else:
                    raise Unrecognised("statement kind %s in GFCrystalcalc.%s" % (type(st).__name__, name))

        block(fn.body, {a.arg: ("arg",) for a in fn.args.args})
        noarg, compute = None, "fresh"
        for r in rets:
            if r == ("accessor",): noarg = "attr"
            elif r[0] == "fresh": pass
            else: compute = "reused"                       # a name bound to an attribute, an argument, unknown: fail closed
        # in-place writes into the stored attribute anywhere in the class (self.D[...] = ..., self.eta += ...) reuse the buffer
        for n in ast.walk(clss[0]):
            if isinstance(n, ast.Subscript) and isinstance(n.ctx, ast.Store) and _is_self_attr(n.value, (attr,)): compute = "reused"
            if isinstance(n, ast.AugAssign) and _is_self_attr(n.target, (attr,)): compute = "reused"
        if noarg is None:
            if not any(r[0] == "fresh" for r in rets): raise Unrecognised("GFCrystalcalc.%s: no recognisable return" % name)
            noarg = "fresh"
        out[name] = {"noarg": noarg, "compute": compute}
        # SetRates binds the attribute to the computed value
        ok = False
        for st in ast.walk(fns["SetRates"]):
            if isinstance(st, ast.Assign) and len(st.targets) == 1 and _is_self_attr(st.targets[0], (attr,)):
                v = st.value
                ok = isinstance(v, ast.Call) and isinstance(v.func, ast.Attribute) and v.func.attr == name and _is_self_attr_name(v.func.value)
        if not ok: raise Unrecognised("SetRates does not bind self.%s = self.%s(...)" % (attr, name))
    return out


def _is_self_attr_name(e):
    return isinstance(e, ast.Name) and e.id == "self"


def alias_analysis(src, gfsrc):
    """-> (modes, stores, facts): modes[i] in {'Fresh', 'Alias s'} for the i-th returned array of VacancyMediated.Lij"""
    gfm = gf_accessor_modes(gfsrc)
    tree = ast.parse(src)
    cls = [n for n in tree.body if isinstance(n, ast.ClassDef) and n.name == "VacancyMediated"]
    if len(cls) != 1: raise Unrecognised("class VacancyMediated not found")
    fns = [n for n in cls[0].body if isinstance(n, ast.FunctionDef) and n.name == "Lij"]
    if len(fns) != 1: raise Unrecognised("VacancyMediated.Lij not found")
    fn = fns[0]
    stores, returns = [], []

    def classify(e, env):
        if isinstance(e, ast.Name): return env.get(e.id, ("unknown", "unbound name " + e.id))
        if isinstance(e, (ast.BinOp, ast.UnaryOp)): return ("fresh",)          # numpy arithmetic allocates
        if isinstance(e, ast.Call) and isinstance(e.func, ast.Attribute):
            f = e.func
            if f.attr == "get" and _is_self_attr(f.value, CACHES): return ("alias", CACHES[f.value.attr])
            if f.attr == "copy": return ("fresh",)
            if isinstance(f.value, ast.Name) and f.value.id == "np": return ("fresh",)   # np.array / np.dot / np.zeros ...
            if f.attr in ("Diffusivity", "biascorrection") and _is_self_attr(f.value, ("GFcalc",)) and not e.args and not e.keywords:
                return ("fresh",) if gfm[f.attr]["noarg"] == "fresh" else ("gfattr", f.attr)
        return ("unknown", ast.dump(e)[:80])

    def join(a, b):
        for kind in ("alias", "gfattr", "unknown"):
            for x in (a, b):
                if x is not None and x[0] == kind: return x
        return a if a is not None else b

    def block(stmts, env):
        for st in stmts:
            if isinstance(st, ast.Assign):
                if len(st.targets) != 1: raise Unrecognised("chained assignment")
                t = st.targets[0]
                if isinstance(t, ast.Name):
                    env[t.id] = classify(st.value, env)
                elif isinstance(t, ast.Tuple) and all(isinstance(x, ast.Name) for x in t.elts):
                    if isinstance(st.value, ast.Tuple) and len(st.value.elts) == len(t.elts):
                        vals = [classify(v, env) for v in st.value.elts]
                        for x, v in zip(t.elts, vals): env[x.id] = v
                    else:
                        for x in t.elts: env[x.id] = ("unknown", "tuple unpacking of " + ast.dump(st.value)[:60])
                elif isinstance(t, ast.Subscript) and _is_self_attr(t.value, CACHES):
                    slot = CACHES[t.value.attr]
                    v = st.value
                    if isinstance(v, ast.Name):
                        stores.append((slot, "same-object", v.id, env.get(v.id, ("unknown",)))); env[v.id] = ("alias", slot)
                    elif isinstance(v, ast.Call) and isinstance(v.func, ast.Attribute) and v.func.attr == "copy":
                        stores.append((slot, "copy", ast.unparse(v), ("fresh",)))
                    else:
                        raise Unrecognised("cache store of unrecognised value: " + ast.unparse(st))
                # subscripted / attribute targets of other objects do not rebind names
            elif isinstance(st, ast.AugAssign):
                pass                                                            # in place: keeps the binding
            elif isinstance(st, ast.If):
                e1, e2 = dict(env), dict(env)
                block(st.body, e1); block(st.orelse, e2)
                for k in set(e1) | set(e2): env[k] = join(e1.get(k), e2.get(k))
            elif isinstance(st, (ast.For, ast.While)):
                e1 = dict(env); block(st.body, e1)
                for k in set(e1) | set(env): env[k] = join(env.get(k), e1.get(k))
                if isinstance(st, ast.For):
                    for n in ast.walk(st.target):
                        if isinstance(n, ast.Name): env[n.id] = ("unknown", "loop variable")
            elif isinstance(st, ast.Return):
                if not isinstance(st.value, ast.Tuple): raise Unrecognised("Lij return is not a tuple")
                returns.append([classify(e, env) for e in st.value.elts])
            elif isinstance(st, (ast.Expr, ast.Pass, ast.Assert, ast.Raise)):
                pass
            else:
                raise Unrecognised("statement kind %s in Lij" % type(st).__name__)

    env = {a.arg: ("arg",) for a in fn.args.args}
    block(fn.body, env)
    if len(returns) != 1 or len(returns[0]) != 4: raise Unrecognised("expected exactly one return of 4 arrays in Lij")
    modes = []
    for i, r in enumerate(returns[0]):
        if r[0] == "fresh": modes.append("Fresh")
        elif r[0] == "alias": modes.append("Alias %d" % r[1])
        elif r[0] == "gfattr": raise Unrecognised("returned array %d is the GF calculator's own attribute" % i)
        else: raise Unrecognised("returned array %d: %s" % (i, r))
    # clearcache must rebind the dictionaries, generate/GFcalculator must call it
    names = {n.name: n for n in cls[0].body if isinstance(n, ast.FunctionDef)}
    cc = names.get("clearcache")
    if cc is None or not any(isinstance(n, ast.Dict) for n in ast.walk(cc)): raise Unrecognised("clearcache does not rebind fresh dicts")
    for nm in ("generate", "GFcalculator"):
        if not any(isinstance(n, ast.Call) and isinstance(n.func, ast.Attribute) and n.func.attr == "clearcache" for n in ast.walk(names[nm])):
            raise Unrecognised("%s does not call clearcache" % nm)
    # what a miss stores in each slot: a newly allocated array, or the GF calculator's reused buffer
    smode = [None, None, None]
    for slot, kind, what, origin in stores:
        if kind == "copy" or origin[0] == "fresh": shared = False
        elif origin[0] == "gfattr": shared = (gfm[origin[1]]["compute"] != "fresh")
        else: raise Unrecognised("cache store of %s with unrecognised origin %s" % (what, origin))
        smode[slot] = shared if smode[slot] is None else (smode[slot] or shared)
    if any(x is None for x in smode): raise Unrecognised("not every cache slot is stored in Lij: %s" % smode)
    return modes, smode, [st[:3] for st in stores], {"GFcalc": gfm}


def key_lookup_analysis(src):
    """the model looks cached values up by EXACT key (ckeqb sound).  In the source this rests on
    vacancyThermoKinetics.__hash__ hashing the bytes of all four arrays (a dict compares stored hashes before __eq__,
    and __eq__ is the tolerant numpy.allclose).  -> list of fields whose bytes enter the hash; fail closed otherwise"""
    tree = ast.parse(src)
    cls = [n for n in tree.body if isinstance(n, ast.ClassDef) and n.name == "vacancyThermoKinetics"]
    if len(cls) != 1: raise Unrecognised("class vacancyThermoKinetics not found")
    fns = {n.name: n for n in cls[0].body if isinstance(n, ast.FunctionDef)}
    if "__hash__" not in fns: raise Unrecognised("vacancyThermoKinetics.__hash__ not found")
    rets = [n for n in ast.walk(fns["__hash__"]) if isinstance(n, ast.Return)]
    if len(rets) != 1 or not (isinstance(rets[0].value, ast.Call) and isinstance(rets[0].value.func, ast.Name) and rets[0].value.func.id == "hash"):
        raise Unrecognised("__hash__ is not `return hash(...)`")
    fields = set()
    for n in ast.walk(rets[0].value):
        if isinstance(n, ast.Call) and isinstance(n.func, ast.Attribute) and n.func.attr == "tobytes":
            v = n.func.value
            if isinstance(v, ast.Attribute) and v.attr == "data": v = v.value
            if _is_self_attr(v, ("pre", "betaene", "preT", "betaeneT")): fields.add(v.attr)
    missing = {"pre", "betaene", "preT", "betaeneT"} - fields
    if missing: raise Unrecognised("__hash__ does not hash the bytes of %s: keys that compare equal under allclose can collide" % sorted(missing))
    return sorted(fields)


def dynamic_store_modes(d, argsA, argsB):
    """run-time: do the cache entries of two different keys share memory (a reused buffer)?"""
    d.clearcache()
    d.Lij(*argsA); d.Lij(*argsB)
    sm = []
    for nm, slot in CACHES.items():
        vals = list(getattr(d, nm).values())
        sm.append(len(vals) == 2 and bool(np.shares_memory(vals[0], vals[1])))
    return sm


def dynamic_modes(d, args):
    """run-time object graph after one Lij: which returned arrays share memory with a cache entry"""
    res = d.Lij(*args)
    modes = []
    for r in res:
        m = "Fresh"
        for nm, slot in CACHES.items():
            for v in getattr(d, nm).values():
                if np.shares_memory(r, v): m = "Alias %d" % slot
        modes.append(m)
    res2 = d.Lij(*args)   # hit path
    for i, r in enumerate(res2):
        for nm, slot in CACHES.items():
            for v in getattr(d, nm).values():
                if np.shares_memory(r, v) and modes[i] == "Fresh": modes[i] = "Alias %d" % slot
    return modes


# ------------------------------------------------------------------------------------------------
# Coq side
IMPORTS = """From Coq Require Import List Arith Bool.
From Onsager Require Import Model.Cache Proofs.Cache_proofs.
Import ListNotations.
(* values are numbers; key = (vTK id, rest id); cfg = id.  Cached arrays of (cfg, vTK id) and results get distinct
   codes; a result computed from a corrupted GF/etav is a poison code. *)
(* ez: the crystal has no site vector basis, the bias correction etav is the zero array for every key *)
Definition cc (ez : bool) (cf c : nat) : list nat :=
  [1 + 10 * c + 1000 * cf; 2 + 10 * c + 1000 * cf; if ez then 3 + 1000 * cf else 3 + 10 * c + 1000 * cf].
Definition cr (ez : bool) (cf : nat) (k : nat * nat) (cont : list nat) : list nat :=
  let okg := Nat.eqb (nth 0 cont 0) (nth 0 (cc ez cf (fst k)) 0) in
  let oke := Nat.eqb (nth 2 cont 0) (nth 2 (cc ez cf (fst k)) 0) in
  let code (ok : bool) j := if ok then 3000 + j + 4 * snd k + 8 * fst k + 64 * cf else 4000 + j in
  (* Lss, Lsv use the cached GF; L1vv uses GF and etav; L0vv is the cached array handed through *)
  [nth 1 cont 0; code okg 1; code okg 2; code (okg && oke) 3].
Definition OP := op nat (nat * nat) nat.
Definition model_run (ez : bool) (rm : list mode) (sm : list bool) (c0 : nat) (ops : list OP) :=
  run nat 0 (nat * nat) nat nat fst Nat.eqb Nat.eqb (cc ez) (cr ez) rm sm (init nat nat nat c0) ops.
Definition model_pure (ez : bool) (rm : list mode) := pure nat 0 (nat * nat) nat nat fst (cc ez) (cr ez) rm.
(* per Lij: which components equal the fresh value *)
Definition verdicts (ez : bool) (rm : list mode) (sm : list bool) (c0 : nat) (ops : list OP) : list (list bool) :=
  map (fun x => map (fun p => Nat.eqb (fst p) (snd p)) (combine (snd x) (model_pure ez rm (fst (fst x)) (snd (fst x)))))
      (model_run ez rm sm c0 ops).
Fixpoint lb_eqb (a b : list bool) : bool :=
  match a, b with [] , [] => true | x :: a', y :: b' => Bool.eqb x y && lb_eqb a' b' | _, _ => false end.
Fixpoint first_diff (i : nat) (a b : list (list bool)) : nat :=
  match a, b with
  | [], [] => 0
  | x :: a', y :: b' => if lb_eqb x y then first_diff (S i) a' b' else i
  | _, _ => 9999
  end.
(* 0 = the implementation's verdicts are the model's ; i = first differing Lij call (1-based) *)
Definition run_hist (c : bool * list mode * list bool * nat * list OP * list (list bool)) : nat :=
  let '(ez, rm, sm, c0, ops, impl) := c in first_diff 1 (verdicts ez rm sm c0 ops) impl.
Definition lbool_eqb := lb_eqb.
"""


def smode_term(sm):
    return coq_list([coq_bool(b) for b in sm])


def modes_term(modes):
    return coq_list(["Fresh" if m == "Fresh" else "(Alias %s)" % m.split()[1] for m in modes])


# ------------------------------------------------------------------------------------------------
# implementation side
class Pool:
    """inputs: pool[cfgN][kid] = arrays; kid = (vtk id, rest id): the same vtk id shares (bFV, bFT0)"""
    def __init__(self, name, nr, min_types=1):
        from onsager import OnsagerCalc
        self.name = name
        self.crys, self.chem = gen.named(name)
        import random
        net = gen.percolating_network(self.crys, self.chem, random.Random(0), maxshell=1)
        self.cut, self.sl, self.jn = net
        # at least min_types symmetry-distinct omega0 jump types (so that inputs can change the RATIO of the bare rates)
        sh = [x for x in gen.shells(self.crys, self.chem) if x + 1e-4 > self.cut]
        while len(self.jn) < min_types and sh:
            self.cut = sh.pop(0) + 1e-4
            self.jn = self.crys.jumpnetwork(self.chem, self.cut)
        self.nr = nr
        self.inputs = {}
        self.ref = {}
        self.protos = {}

    def fresh(self, cfg):
        """a calculator that has never been used: a deep copy of one constructed once per configuration and never called
        (construction is deterministic; this only saves rebuilding the star sets)"""
        from onsager import OnsagerCalc
        import copy
        N, ngf = cfg
        if not hasattr(self, "_pristine"): self._pristine = {}
        if cfg not in self._pristine:
            self._pristine[cfg] = OnsagerCalc.VacancyMediated(self.crys, self.chem, self.sl, self.jn, N, ngf)
        return copy.deepcopy(self._pristine[cfg])

    # vacancy data sets 3.. are near-equal but distinct copies of data set 0: (bFV, bFT0) * (1 + delta); numpy.allclose
    # (rtol 1e-5, atol 1e-8) calls the first three equal to data set 0, the last two not
    NEAR = {3: 1e-7, 4: 1e-6, 5: 5e-6, 6: 3e-5, 7: 1e-4}

    def input(self, cfg, kid):
        """the input arrays (always handed out as copies)"""
        N = cfg[0]
        if (N, kid) not in self.inputs:
            if N not in self.protos: self.protos[N] = self.fresh((N, 4))
            d = self.protos[N]
            if kid[0] in self.NEAR:
                a = list(self.input(cfg, (0, kid[1])))          # everything else identical to data set 0
                f = 1.0 + self.NEAR[kid[0]]
                a[0], a[3] = a[0] * f, a[3] * f
                if np.array_equal(a[3], self.input(cfg, (0, kid[1]))[3]): raise RuntimeError("near-equal input is not distinct")
            else:
                base = self.inputs.get(("vtk", kid[0]))
                a = list(random_thermo(d, self.nr))
                if base is None:
                    self.inputs[("vtk", kid[0])] = (a[0].copy(), a[3].copy())
                else:
                    a[0], a[3] = base[0].copy(), base[1].copy()
            self.inputs[(N, kid)] = tuple(a)
        return tuple(x.copy() for x in self.inputs[(N, kid)])

    def reference(self, cfg, kid):
        if (cfg, kid) not in self.ref:
            f = self.fresh(cfg)
            self.ref[(cfg, kid)] = tuple(np.array(x, copy=True) for x in f.Lij(*self.input(cfg, kid)))
        return self.ref[(cfg, kid)]


def regenerate(d, N):
    """the documented re-generation sequence"""
    d.generate(N)
    d.generatematrices()
    d.tags, d.tagdict, d.tagdicttype = d.generatetags()


def saveload(d, tag):
    import h5py
    from onsager import OnsagerCalc
    f = h5py.File("c14_%s_%d.h5" % (tag, os.getpid()), "w", driver="core", backing_store=False)
    try:
        d.addhdf5(f.create_group("D"))
        return OnsagerCalc.VacancyMediated.loadhdf5(f["D"])
    finally:
        f.close()


def gen_history(rng, n, cfgs, with_regen):
    """abstract history: list of ops; cfg ids index `cfgs`"""
    ops = []
    ncalls = 0
    cur = 0
    for _ in range(n):
        r = rng.random()
        if r < 0.5 or ncalls == 0:
            ops.append(("lij", (rng.choice([0, 1, 2, 0, 4, 5, 6]), rng.randrange(2)), rng.random() < 0.25)); ncalls += 1
        elif r < 0.72:
            ops.append(("mutate", rng.randrange(ncalls), rng.randrange(4), rng.choice(["fill", "add", "scale"])))
        elif r < 0.8:
            ops.append(("clear",))
        elif r < 0.9:
            cand = [i for i, c in enumerate(cfgs) if with_regen or c[0] == cfgs[cur][0]]
            cur = rng.choice(cand); ops.append(("reconf", cur))
        else:
            ops.append(("saveload",))
    if ops[-1][0] != "lij": ops.append(("lij", (rng.choice([0, 1, 2, 4, 6]), rng.randrange(2)), False))
    return ops


CACHE_ATTRS = ("GFvalues", "Lvvvalues", "etavvalues")
SUBOBJECTS = ("kinetic", "thermo", "NNstar", "GFstarset", "vkinetic", "GFcalc", "crys")


def _digest(x, depth=0):
    """structural fingerprint of data: arrays by shape/dtype/bytes, containers element-wise"""
    import hashlib
    if isinstance(x, np.ndarray):
        return ("nd", x.shape, str(x.dtype), hashlib.sha1(np.ascontiguousarray(x).tobytes()).hexdigest())
    if isinstance(x, (list, tuple)):
        return (type(x).__name__,) + tuple(_digest(y, depth + 1) for y in x) if depth < 6 else ("deep",)
    if isinstance(x, dict):
        try:
            return ("dict",) + tuple((repr(k)[:80], _digest(v, depth + 1)) for k, v in x.items())
        except Exception:
            return ("dict?",)
    if isinstance(x, (int, float, complex, str, bytes, bool, type(None), np.number)):
        return ("v", repr(x))
    if isinstance(x, (set, frozenset)):
        return ("set", len(x))
    return None      # other objects: not data


def state_snapshot(d):
    """every data attribute of the calculator and, one level down, of its star sets / vector star set / GF calculator /
    crystal -- except the documented cache dictionaries"""
    snap = {}
    for k, v in vars(d).items():
        if k in CACHE_ATTRS: continue
        if k in SUBOBJECTS and hasattr(v, "__dict__"):
            for k2, v2 in vars(v).items():
                dg = _digest(v2)
                if dg is not None: snap["%s.%s" % (k, k2)] = dg
        else:
            dg = _digest(v)
            if dg is not None: snap[k] = dg
    return snap


_GF_WORKING = None


def gf_working_attrs():
    """attributes that GFCrystalcalc.SetRates (re)binds: the GF calculator's documented per-rate working state (from the source)"""
    global _GF_WORKING
    if _GF_WORKING is None:
        import onsager
        tree = ast.parse(open(os.path.join(os.path.dirname(onsager.__file__), "GFcalc.py")).read())
        names = set()
        for cls in [n for n in tree.body if isinstance(n, ast.ClassDef) and n.name == "GFCrystalcalc"]:
            for fn in [n for n in cls.body if isinstance(n, ast.FunctionDef) and n.name == "SetRates"]:
                for st in ast.walk(fn):
                    if isinstance(st, (ast.Assign, ast.AugAssign)):
                        for t in (st.targets if isinstance(st, ast.Assign) else [st.target]):
                            for n in ast.walk(t):
                                if isinstance(n, ast.Attribute) and isinstance(n.value, ast.Name) and n.value.id == "self": names.add(n.attr)
        _GF_WORKING = tuple(sorted("GFcalc." + n for n in names))
    return _GF_WORKING


def state_changes(d, snap):
    """attributes present in the snapshot whose data differ now (attributes created later, e.g. by SetRates, are allowed;
    the GF calculator's per-SetRates results are listed as its documented working state)"""
    now = state_snapshot(d)
    GF_WORKING = gf_working_attrs()
    return sorted(k for k, v in snap.items() if k not in GF_WORKING and now.get(k) != v)


def aliasing_violations(d, held):
    """(b) after an Lij: no two distinct cache entries share memory; at most one entry per slot is the GF calculator's
    current D / eta object; no array ever returned to the caller shares memory with a cache entry or with D / eta"""
    entries = [(nm, i, v) for nm in CACHES for i, v in enumerate(getattr(d, nm).values()) if isinstance(v, np.ndarray)]
    bad = []
    for a in range(len(entries)):
        for b in range(a + 1, len(entries)):
            if np.shares_memory(entries[a][2], entries[b][2]):
                bad.append("cache entries %s[%d] and %s[%d] share memory" % (entries[a][0], entries[a][1], entries[b][0], entries[b][1]))
    internals = [(nm, getattr(d.GFcalc, nm, None)) for nm in ("D", "eta")]
    internals = [(nm, x) for nm, x in internals if isinstance(x, np.ndarray)]
    for nm, x in internals:
        n = sum(1 for e in entries if np.shares_memory(e[2], x))
        if n > 1: bad.append("GFcalc.%s is shared by %d cache entries" % (nm, n))
    for ci, res in enumerate(held):
        for ri, r in enumerate(res):
            if not isinstance(r, np.ndarray): continue
            for e in entries:
                if np.shares_memory(r, e[2]): bad.append("array %d returned by call %d shares memory with %s[%d]" % (ri, ci, e[0], e[1]))
            for nm, x in internals:
                if np.shares_memory(r, x): bad.append("array %d returned by call %d shares memory with GFcalc.%s" % (ri, ci, nm))
    return bad


def run_history(pool, cfgs, ops, tag, alias_log=None, state_log=None):
    """-> (verdicts per Lij [4 bools], worst diff, events, exception or None)"""
    d = pool.fresh(cfgs[0])
    snap = state_snapshot(d) if state_log is not None else None
    gfset = False
    cur = 0
    held = []
    verdicts, info = [], []
    buf = {}
    worst = 0.0
    for n, o in enumerate(ops):
        try:
            if o[0] == "lij":
                cfg = cfgs[cur]
                args = pool.input(cfg, o[1])
                if o[2]:
                    # the caller reuses its own input buffers (later calls overwrite them in place)
                    key = tuple(a.shape for a in args)
                    if key not in buf: buf[key] = tuple(np.zeros_like(a) for a in args)
                    for b, a in zip(buf[key], args): b[...] = a
                    args = buf[key]
                res = d.Lij(*args)
                ref = pool.reference(cfg, o[1])
                v = []
                for x, y in zip(res, ref):
                    diff = float(np.abs(np.asarray(x) - y).max()) if np.shape(x) == np.shape(y) else float("inf")
                    ok = diff <= TOL * max(1.0, float(np.abs(y).max()))
                    if ok: worst = max(worst, diff)
                    v.append(bool(ok))
                verdicts.append(v); info.append((n, cfg, o[1]))
                held.append(res)
                if alias_log is not None:
                    for msg in aliasing_violations(d, held)[:3]: alias_log.append((n, msg))
                if state_log is not None:
                    if not gfset:
                        # the first SetRates creates the GF calculator's working arrays: take their snapshot... they are rebuilt by
                        # every SetRates, so only attributes that existed at construction are frozen
                        gfset = True
                    ch = state_changes(d, snap)
                    if ch: state_log.append((n, ch[:8])); snap = state_snapshot(d)
            elif o[0] == "mutate":
                arr = held[o[1]][o[2]]
                if o[3] == "fill": arr[...] = 7.0
                elif o[3] == "add": arr += 1.0
                else: arr *= -3.0
            elif o[0] == "clear":
                d.clearcache()
            elif o[0] == "reconf":
                N, ngf = cfgs[o[1]]
                if N != d.Nthermo: regenerate(d, N)
                if ngf != d.NGFmax: d.GFcalc = d.GFcalculator(ngf)
                cur = o[1]
                if state_log is not None: snap = state_snapshot(d)
            elif o[0] == "saveload":
                d = saveload(d, tag)
                if state_log is not None: snap = state_snapshot(d)
        except Exception as e:   # an exception of the implementation inside the property's domain
            return verdicts, worst, info, (n, o, repr(e))
    return verdicts, worst, info, None


def ops_term(ops):
    out = []
    for o in ops:
        if o[0] == "lij": out.append("Lij (%s, %s)" % (coq_nat(o[1][0]), coq_nat(o[1][1])))
        elif o[0] == "mutate": out.append("Mutate %s %s %s" % (coq_nat(o[1]), coq_nat(o[2]), coq_nat(777)))
        elif o[0] == "clear": out.append("Clearcache")
        elif o[0] == "reconf": out.append("Reconfig %s" % coq_nat(o[1]))
        else: out.append("SaveLoad")
    return coq_list(out)


def run(ck):
    import onsager
    from onsager import OnsagerCalc
    V = Once(ck)
    ck.rule = ("histories of 6-30 operations over pools of 6 inputs per configuration "
               "(Nthermo in {1,2} x NGFmax in {4,6}) on square, honeycomb and the polar 2-D cells rect-polar2d, oblique2d (non-zero bias "
               "correction eta_v): Lij over 3 vTK keys x 2 other data plus near-equal copies (relative 1e-7 .. 1e-4 in bFV/bFT0, in both orders) "
               "(25% through reused input buffers), fixed A,B,A,C,B,A,C sequences, "
               "in-place edits (fill / += / *=) of any array returned by any earlier call, clearcache, re-generation, NGFmax "
               "change, HDF5 save+load; every Lij compared with a fresh calculator; distinct = distinct histories; non-trivial "
               "= contains an edit or a reconfiguration before a later Lij")
    ck.trusted += ["harness/c14.py alias analysis (recognised code shapes only; otherwise the obligation fails)",
                   "numerical kernels are a parameter of the model (`pure`), not modelled"]
    ck.theorems()
    rng = ck.rng
    srcdir = os.path.dirname(onsager.__file__)
    ck.extra["source"] = srcdir
    # ---- 1. modes from the current source
    static, static_sm = None, None
    try:
        static, static_sm, stores, facts = alias_analysis(open(os.path.join(srcdir, "OnsagerCalc.py")).read(), open(os.path.join(srcdir, "GFcalc.py")).read())
        ck.extra["alias_analysis"] = {"modes": static, "store_shares_buffer": static_sm, "stores": stores, **facts}
        ck.note("alias analysis: returned arrays %s; a miss stores a reused buffer per slot %s; cache stores %s; GFcalc %s" % (static, static_sm, stores, facts["GFcalc"]))
    except (Unrecognised, SyntaxError, KeyError) as e:
        ck.obligations.append(("modes-derived-from-source", False, [str(e)]))
        ck.broken_proof = "alias analysis of VacancyMediated.Lij failed closed: %s" % e
    try:
        hf = key_lookup_analysis(open(os.path.join(srcdir, "OnsagerCalc.py")).read())
        ck.extra["cache_key_hash_covers_bytes_of"] = hf
        ck.obligations.append(("exact-key-lookup-from-source", True, []))
    except (Unrecognised, SyntaxError) as e:
        ck.obligations.append(("exact-key-lookup-from-source", False, [str(e)]))
        ck.broken_proof = "cache lookup is not by exact key (premise `ckeqb` sound of C14_history): %s" % e
    # ---- 2. dynamic validation
    # square / honeycomb have eta_v = 0; the polar 2-D cells have a non-empty site vector basis (eta_v != 0), so that
    # a wrong cached bias correction is visible in L1vv
    # rect, sq2w (2 shells), rect-polar2d, oblique2d have >= 2 omega0 jump types: different inputs change the RATIO of the bare
    # rates, so anything the GF calculator keeps from an earlier SetRates shows up against a fresh calculator
    pools = {nm: Pool(nm, ck.nprng(i), min_types=mt) for i, (nm, mt) in enumerate(
        [("square", 1), ("honeycomb", 1), ("rect-polar2d", 2), ("oblique2d", 2), ("rect", 2), ("sq2w", 2), ("polar3w2d", 1), ("pg4", 1)])}
    # polar3w2d, pg4: non-empty origin-state vector basis AND several Wyckoff sets; the inputs give every Wyckoff set its own
    # vacancy and solute site energy (non-uniform probV, probS)
    ck.extra["wyckoff_sets"] = {nm: len(p.sl) for nm, p in pools.items()}
    if not any(len(p.sl) >= 2 and len(p.fresh((1, 4)).OSindices) > 0 for p in pools.values()):
        raise RuntimeError("history pool lacks a crystal with origin states and several Wyckoff sets")
    ck.extra["omega0_jump_types"] = {nm: len(p.jn) for nm, p in pools.items()}
    if sum(1 for p in pools.values() if len(p.jn) >= 2) < 3: raise RuntimeError("history pool lacks crystals with several omega0 jump types")
    dyn, dyn_sm = None, None
    for nm, pool in pools.items():
        d = pool.fresh((1, 4))
        m = dynamic_modes(d, pool.input((1, 4), (0, 0)))
        dyn = m if dyn is None or dyn == m else "inconsistent"
        sm = dynamic_store_modes(d, pool.input((1, 4), (0, 0)), pool.input((1, 4), (1, 0)))
        dyn_sm = sm if dyn_sm is None or dyn_sm == sm else "inconsistent"
        ck.case(key=("dynamic-modes", nm), nontrivial=True, kind="shares_memory")
    etazero = {}
    for nm, pool in pools.items():
        d = pool.fresh((1, 4)); d.Lij(*pool.input((1, 4), (1, 1)))
        etazero[nm] = not bool(np.abs(np.asarray(d.GFcalc.eta)).max() > 1e-12)
    ck.extra["bias_correction_zero"] = etazero
    if all(etazero.values()): raise RuntimeError("no pool crystal with a non-zero bias correction: the history pool is blind to etav")
    ck.extra["dynamic_modes"] = dyn
    ck.extra["dynamic_store_shares_buffer"] = dyn_sm
    if static is not None:
        ok = (dyn == static and dyn_sm == static_sm)
        ck.obligations.append(("modes-derived-from-source", ok, [] if ok else ["static %s %s vs run-time %s %s" % (static, static_sm, dyn, dyn_sm)]))
        if not ok:
            ck.broken_proof = "alias analysis (%s, buffers %s) does not match the run-time object graph (%s, buffers %s)" % (static, static_sm, dyn, dyn_sm)
    modes = static if static is not None else (dyn if isinstance(dyn, list) else ["Fresh"] * 4)
    smode = static_sm if static_sm is not None else (dyn_sm if isinstance(dyn_sm, list) else [False] * 3)
    # ---- 3. which theorem applies to these modes (decided in Coq)
    applies = None
    try:
        out = ck.coq_cases("modes", "Eval vm_compute in (all_fresh %s && stores_fresh %s, "
                           "match %s, %s with [Alias 1; Fresh; Fresh; Fresh], [false; false; false] => true | _, _ => false end, "
                           "match %s, %s with [Fresh; Fresh; Fresh; Fresh], [false; false; true] => true | _, _ => false end)."
                           % (modes_term(modes), smode_term(smode), modes_term(modes), smode_term(smode), modes_term(modes), smode_term(smode)), IMPORTS)
        m = re.search(r"\((true|false),\s*(true|false),\s*(true|false)\)", out)
        if not m: raise CoqFailure("cannot parse " + out[:200])
        allfresh, iscurrent, isbuffer = (m.group(i) == "true" for i in (1, 2, 3))
        applies = "C14_history" if allfresh else "C14_refuted" if iscurrent else "C14_shared_buffer_refuted" if isbuffer else "none"
        ck.extra["theorem_applying_to_source_modes"] = applies
        ck.obligations.append(("premise-decided-for-source-modes", applies != "none", [applies]))
        if applies == "none":
            ck.broken_proof = "derived modes %s / store modes %s are covered by no theorem of Properties/C14.v" % (modes, smode)
    except CoqFailure as e:
        ck.broken_proof = "correspondence modes: %s" % e
    # ---- 4. witness replay  [Lij k; mutate (ret 0); Lij k]
    for nm, pool in pools.items():
        d = pool.fresh((1, 4))
        a = pool.input((1, 4), (0, 0))
        L = d.Lij(*a)
        first = np.array(L[0], copy=True)
        L[0][:] = 7
        L2 = d.Lij(*pool.input((1, 4), (0, 0)))
        ref = pool.reference((1, 4), (0, 0))
        corrupted = not np.allclose(L2[0], ref[0], rtol=0, atol=TOL)
        ck.case(key=("witness", nm), nontrivial=True, kind="witness",
                sample={"calculator": nm, "history": "L = Lij(a); L[0][:] = 7; Lij(a)[0]", "returned": np.asarray(L2[0]).tolist(), "fresh": ref[0].tolist()})
        if corrupted:
            V("Lij returns the cached L0vv array: after `L = d.Lij(*a); L[0][:] = 7` the next d.Lij(*a)[0] is %s instead of %s (model: %s)"
              % (np.asarray(L2[0]).tolist(), ref[0].tolist(), applies),
              {"calculator": nm, "crystal": repr(pool.crys), "cutoff": pool.cut, "Nthermo": 1, "input": [x.tolist() for x in a], "history": ["Lij k", "ret[0][:] = 7", "Lij k"],
               "returned_L0vv": np.asarray(L2[0]).tolist(), "fresh_L0vv": ref[0].tolist(), "shares_memory_with_cache": dyn,
               "minimal_patch": "return L0vv.copy(), D0ss + L1ss, D0sv + L1sv, D0vv + D2vv + L1vv   (and store self.Lvvvalues[vTK] = L0vv.copy() / etav.copy())"},
              key="c14-alias-L0vv")
            if applies == "C14_history":
                ck.broken_proof = "model says history independent for modes %s but the witness fails on the implementation" % modes
        elif applies == "C14_refuted":
            ck.broken_proof = "model predicts the alias witness to fail for modes %s but the implementation passes it" % modes
    # ---- 4b. witness replay  [Lij a; Lij b; Lij a]  (different vacancy data; the third call is a cache hit)
    for nm, pool in pools.items():
        for N in (1, 2):
            if ck.quick and N == 2 and nm not in ("rect-polar2d", "polar3w2d", "pg4"): continue
            d = pool.fresh((N, 4))
            alog = []
            seq = [(0, 0), (1, 0), (0, 0), (2, 1), (1, 1), (0, 1), (2, 0)]
            held = []
            snap0 = state_snapshot(d)
            for step, kid in enumerate(seq):
                res = d.Lij(*pool.input((N, 4), kid)); held.append(res)
                ch = state_changes(d, snap0)
                if ch:
                    V("Lij changes the calculator's own data: attribute(s) %s differ from their value after construction (call %d)" % (ch[:6], step),
                      {"calculator": nm, "crystal": repr(pool.crys), "cutoff": pool.cut, "Nthermo": N, "sequence(vTK id, other id)": seq[:step + 1],
                       "changed_attributes": ch, "input": [x.tolist() for x in pool.input((N, 4), kid)]}, key="c14-lij-mutates-calculator-state")
                    snap0 = state_snapshot(d)
                ref = pool.reference((N, 4), kid)
                diffs = [float(np.abs(np.asarray(x) - y).max()) for x, y in zip(res, ref)]
                for msg in aliasing_violations(d, held)[:2]: alog.append((step, msg))
                ck.case(key=("aba", nm, N, step), nontrivial=step >= 2, kind="ABA:" + nm)
                if max(diffs) > TOL * max(1.0, max(float(np.abs(y).max()) for y in ref)):
                    V("Lij returns different coefficients than a fresh calculator after OTHER vacancy data were evaluated on the same calculator "
                      "(call %d of the sequence %s; max |diff| per array %s)" % (step, seq[:step + 1], diffs),
                      {"calculator": nm, "crystal": repr(pool.crys), "cutoff": pool.cut, "Nthermo": N, "sequence(vTK id, other id)": seq[:step + 1],
                       "inputs": {str(k): [x.tolist() for x in pool.input((N, 4), k)] for k in set(seq[:step + 1])}, "diffs": diffs,
                       "aliasing": alog[:4], "store_shares_buffer": {"static": static_sm, "run-time": dyn_sm}, "model": applies},
                      key="c14-depends-on-earlier-inputs")
                    if applies == "C14_history":
                        ck.broken_proof = "model says history independent but the A,B,A witness fails on the implementation"
                    break
            if alog:
                V("cache entries alias each other / the GF calculator's buffers / returned arrays: %s" % alog[0][1],
                  {"calculator": nm, "Nthermo": N, "events": alog[:6]}, key="c14-cache-aliasing")
    # ---- 4d. near-equal but distinct vacancy data (a fine temperature scan, a finite-difference step) in both orders
    blind = 0
    for nm, pool in pools.items():
        if ck.quick and nm not in ("square", "rect-polar2d", "rect", "pg4"): continue
        for v in sorted(Pool.NEAR):
            if ck.quick and v == 7: continue
            A, Ap = (0, 0), (v, 0)
            refA, refAp = pool.reference((1, 4), A), pool.reference((1, 4), Ap)
            phys = max(float(np.abs(x - y).max()) for x, y in zip(refA, refAp))     # what the two inputs differ by physically
            if phys < 1e3 * TOL: blind += 1
            for order in ((A, Ap), (Ap, A)):
                d = pool.fresh((1, 4))
                out = [d.Lij(*pool.input((1, 4), k)) for k in order]
                ck.case(key=("near", nm, v, order == (A, Ap)), nontrivial=phys >= 1e3 * TOL, kind="near-equal:%g" % Pool.NEAR[v])
                bad = None
                for k, res in zip(order, out):
                    ref = pool.reference((1, 4), k)
                    diffs = [float(np.abs(np.asarray(x) - y).max()) for x, y in zip(res, ref)]
                    if max(diffs) > TOL: bad = (k, diffs)
                if len(d.GFvalues) != 2: bad = bad or (order[1], "only %d cache entries for 2 distinct inputs" % len(d.GFvalues))
                if bad is not None:
                    V("near-equal but distinct inputs collide in the cache: after evaluating %s the result for %s (relative difference %g in "
                      "bFV/bFT0) is not that of a fresh calculator (%s; the two inputs differ physically by %.3g)"
                      % (order[0], order[1], Pool.NEAR[v], bad[1], phys),
                      {"calculator": nm, "crystal": repr(pool.crys), "cutoff": pool.cut, "delta": Pool.NEAR[v], "order": [list(order[0]), list(order[1])],
                       "A": [x.tolist() for x in pool.input((1, 4), A)], "A_prime": [x.tolist() for x in pool.input((1, 4), Ap)], "problem": str(bad),
                       "physical_difference": phys, "cache_entries": len(d.GFvalues)}, key="c14-near-equal-inputs-collide")
    ck.extra["near_equal_pairs_physically_indistinguishable"] = blind
    # ---- 4c. the caller reuses its INPUT arrays, then save/load  (the vTK cache key must not keep references to the inputs)
    keyalias = None
    for nm in ("square", "rect-polar2d"):
        pool = pools[nm]
        d = pool.fresh((1, 4))
        A, B = pool.input((1, 4), (0, 0)), pool.input((1, 4), (1, 0))
        buf = tuple(np.zeros_like(x) for x in A)
        def put(X):
            for b, a in zip(buf, X): b[...] = a
        put(A); d.Lij(*buf)
        keyalias = any(np.shares_memory(getattr(k, f), b) for k in d.GFvalues for f in ("pre", "betaene", "preT", "betaeneT") for b in buf)
        put(B); d.Lij(*buf); put(A); d.Lij(*buf)
        ck.case(key=("input-reuse", nm), nontrivial=True, kind="input-buffer-reuse")
        try:
            d2 = saveload(d, "k" + nm)
            r = d2.Lij(*[x.copy() for x in A]); ref = pool.reference((1, 4), (0, 0))
            diffs = [float(np.abs(np.asarray(x) - y).max()) for x, y in zip(r, ref)]
        except Exception as e:
            diffs = [float("inf")]; r = repr(e)
        if max(diffs) > TOL:
            V("after the caller reused its input arrays (A, B, A) a saved+reloaded calculator returns wrong coefficients for A (max |diff| %s): "
              "the vTK cache keys hold references to the caller's bFV/bFT0 arrays, so two cache entries are written with the same key" % diffs,
              {"calculator": nm, "crystal": repr(pool.crys), "cutoff": pool.cut, "A": [x.tolist() for x in A], "B": [x.tolist() for x in B],
               "history": ["buf[:] = A; Lij(*buf)", "buf[:] = B; Lij(*buf)", "buf[:] = A; Lij(*buf)", "addhdf5; loadhdf5", "Lij(*A)"], "diffs_vs_fresh": diffs,
               "cache_key_shares_memory_with_input": keyalias,
               "minimal_patch": "Lij: vTK = vacancyThermoKinetics(pre=np.ones_like(bFV), betaene=np.array(bFV), preT=np.ones_like(bFT0), betaeneT=np.array(bFT0))"},
              key="c14-cache-key-aliases-input")
    ck.extra["cache_key_shares_memory_with_input"] = keyalias
    # ---- 4f. inputs whose overall rate scale differs by 1e-3 .. 1e-12 (both directions) from the first input on the object:
    #          all transition-state free energies shifted by Delta scale every rate by exp(-Delta), hence L by exp(-Delta) exactly
    RT = 1e-9
    for nm in (("square", "rect", "pg4") if ck.quick else tuple(pools)):
        pool = pools[nm]
        base_in = pool.input((1, 4), (0, 0))
        refb = pool.reference((1, 4), (0, 0))
        for k10 in (3, 6, 9, 12):
            for sign in (1, -1):
                Delta = sign * k10 * np.log(10.0)
                shifted = tuple(x.copy() for x in base_in[:3]) + tuple(x + Delta for x in base_in[3:])
                refs = tuple(np.array(x, copy=True) for x in pool.fresh((1, 4)).Lij(*[x.copy() for x in shifted]))
                lam = np.exp(-Delta)
                # the oracle itself: fresh calculators obey the scaling law
                law = max(float(np.abs(x - lam * y).max()) / max(float(np.abs(lam * y).max()), 1e-300) for x, y in zip(refs, refb))
                for order in (("base", "shifted"), ("shifted", "base")):
                    d = pool.fresh((1, 4))
                    ck.case(key=("scale", nm, k10, sign, order[0]), nontrivial=True, kind="rate-scale:1e%+d" % (-sign * k10))
                    try:
                        for which in order:
                            res = d.Lij(*[x.copy() for x in (base_in if which == "base" else shifted)])
                            ref = refb if which == "base" else refs
                            rel = [float(np.abs(np.asarray(x) - y).max()) / max(float(np.abs(y).max()), 1e-300) for x, y in zip(res, ref)]
                            if max(rel) > RT:
                                V("after an input whose vacancy rates are 10^%d times those of this one, Lij on the same calculator differs from a fresh "
                                  "calculator by %.3g (relative; per array %s)" % (sign * k10 if which == "base" else -sign * k10, max(rel), ["%.2g" % r for r in rel]),
                                  {"calculator": nm, "crystal": repr(pool.crys), "cutoff": pool.cut, "order": list(order), "failing": which, "Delta_bFT": float(Delta),
                                   "base_input": [x.tolist() for x in base_in], "relative_differences": rel, "scaling_law_on_fresh_calculators": law},
                                  key="c14-rate-scale-history")
                    except Exception as e:
                        V("Lij raises %r for an input whose rate scale is 10^%d times that of the first input on the calculator" % (e, -sign * k10),
                          {"calculator": nm, "order": list(order), "Delta_bFT": float(Delta), "base_input": [x.tolist() for x in base_in]}, key="c14-rate-scale-history")
                if law > 1e-8:
                    V("fresh calculators violate the scaling law L(lambda*rates) = lambda*L by %.3g for lambda = 10^%d" % (law, -sign * k10),
                      {"calculator": nm, "Delta_bFT": float(Delta), "base_input": [x.tolist() for x in base_in]}, key="c14-scaling-law")
    # ---- 4e. several cache entries created in NON-sorted key order, save/load, then every cached input again
    for nm in ("rect", "rect-polar2d", "pg4"):
        pool = pools[nm]
        d = pool.fresh((1, 4))
        kids = [(v, 0) for v in (0, 1, 2, 5, 6)]
        kids.sort(key=lambda k: tuple(np.hstack([pool.input((1, 4), k)[0], pool.input((1, 4), k)[3]]).tolist()), reverse=True)
        for k in kids: d.Lij(*pool.input((1, 4), k))
        try:
            d2 = saveload(d, "o" + nm)
            nent = (len(d.GFvalues), len(d2.GFvalues))
            for k in kids:
                res = d2.Lij(*pool.input((1, 4), k)); ref = pool.reference((1, 4), k)
                diffs = [float(np.abs(np.asarray(x) - y).max()) for x, y in zip(res, ref)]
                ck.case(key=("cache-order", nm, k), nontrivial=True, kind="saveload-cached:" + nm)
                if max(diffs) > TOL or nent[0] != nent[1]:
                    V("a calculator saved with %d cache entries (created in descending key order) and reloaded (%d entries) returns, at a CACHED input, "
                      "coefficients different from a fresh calculator (max |diff| per array %s)" % (nent[0], nent[1], diffs),
                      {"calculator": nm, "crystal": repr(pool.crys), "cutoff": pool.cut, "order_of_evaluation(vTK id, other id)": [list(x) for x in kids], "failing_input": list(k),
                       "input": [x.tolist() for x in pool.input((1, 4), k)], "diffs": diffs}, key="c14-saveload-cache-pairing")
                    break
        except Exception as e:
            V("save/load of a calculator with several cache entries raises %r" % (e,), {"calculator": nm}, key="c14-history-exception")
    # ---- 5. re-generation probe
    regen_broken = False
    for nm, pool in pools.items():
        d = pool.fresh((1, 4))
        d.Lij(*pool.input((1, 4), (0, 0)))
        try:
            regenerate(d, 2)
            res = d.Lij(*pool.input((2, 4), (0, 0)))
            ref = pool.reference((2, 4), (0, 0))
            diffs = [float(np.abs(x - y).max()) for x, y in zip(res, ref)]
            bad = max(diffs[1:]) > TOL
            detail = {"diffs_vs_fresh": diffs, "Nvstars_regenerated": int(d.vkinetic.Nvstars), "Nvstars_fresh": int(pool.fresh((2, 4)).vkinetic.Nvstars)}
        except Exception as e:
            bad, detail = True, {"exception": repr(e)}
        ck.case(key=("regen", nm), nontrivial=True, kind="regenerate")
        if bad:
            regen_broken = True
            V("generate(2); generatematrices(); generatetags() on an Nthermo=1 calculator gives results different from a fresh Nthermo=2 "
              "calculator: the vector-star set is not regenerated (VectorStarSet.generate returns early on `starset == self.starset`)",
              {"calculator": nm, "crystal": repr(pool.crys), "cutoff": pool.cut, "input": [x.tolist() for x in pool.input((2, 4), (0, 0))], **detail,
               "minimal_patch": "crystalStars.VectorStarSet.generate: delete the line `if starset == self.starset: return`"},
              key="c14-regenerate-stale-vectorstars")
    ck.extra["regenerate_defect_present"] = regen_broken
    # ---- 6. random histories: implementation vs model (in Coq) vs fresh calculators
    cfgs = [(1, 4), (2, 4), (1, 6), (2, 6)]
    nh = ck.n(24, 160)
    hist = []
    worst = 0.0
    for h in range(nh):
        nm = rng.choice(list(pools))
        with_regen = (h % 2 == 0)
        ops = gen_history(rng, rng.randint(6, ck.n(16, 30)), cfgs, with_regen)
        alog, slog = [], []
        verd, w, info, exc = run_history(pools[nm], cfgs, ops, "%s%d" % (nm, h), alias_log=alog, state_log=slog)
        if slog:
            V("Lij changes the calculator's own data: attribute(s) %s differ from their value before the call (operation %d of a history)" % (slog[0][1], slog[0][0]),
              {"calculator": nm, "ops": [" ".join(map(str, o)) for o in ops], "events": slog[:6]}, key="c14-lij-mutates-calculator-state")
        worst = max(worst, w)
        if alog and applies == "C14_history":
            V("cache entries alias each other / the GF calculator's buffers / returned arrays: %s" % alog[0][1],
              {"calculator": nm, "ops": [" ".join(map(str, o)) for o in ops], "events": alog[:6]}, key="c14-cache-aliasing")
        hist.append((nm, ops, verd, info, exc, with_regen))
        nontriv = any(o[0] in ("mutate", "reconf", "saveload") for o in ops[:-1])
        ck.case(key=("hist", nm, [list(map(str, o)) for o in ops]), nontrivial=nontriv,
                kind="hist:%s%s" % (nm, "+regen" if with_regen else ""),
                sample={"calculator": nm, "ops": [" ".join(map(str, o)) for o in ops], "verdicts": verd} if h < 2 else None)
    ck.extra["worst_accepted_diff"] = worst
    terms, idx = [], []
    for i, (nm, ops, verd, info, exc, wr) in enumerate(hist):
        if exc is None:
            terms.append("(%s, %s, %s, 0%%nat, %s, %s)" % (coq_bool(etazero[nm]), modes_term(modes), smode_term(smode), ops_term(ops), coq_list([coq_list([coq_bool(b) for b in v]) for v in verd])))
            idx.append(i)
    try:
        codes = run_nat_cases(ck, "hist", IMPORTS, "run_hist", terms, chunk=40)
    except CoqFailure as e:
        ck.broken_proof = "correspondence histories: %s" % e
        codes = [0] * len(terms)
    code_of = dict(zip(idx, codes))
    ck.extra["traces_validated_against_impl"] = len(terms)
    for i, (nm, ops, verd, info, exc, wr) in enumerate(hist):
        pool = pools[nm]
        rep = {"calculator": nm, "crystal": repr(pool.crys), "cutoff": pool.cut, "configurations(Nthermo,NGFmax)": cfgs,
               "ops": [" ".join(map(str, o)) for o in ops], "verdicts(component equals fresh)": verd}
        regen_seen = regen_broken and any(o[0] == "reconf" and cfgs[o[1]][0] != 1 for o in ops)
        keyalias_seen = bool(keyalias) and any(o[0] == "saveload" for o in ops) and any(o[0] == "lij" and o[2] for o in ops)
        # has the calculator been re-generated to another Nthermo before? (cfg 0 has Nthermo 1)
        if exc is not None:
            n, o, msg = exc
            seen = regen_broken and any(p[0] == "reconf" and cfgs[p[1]][0] != 1 for p in ops[:n + 1])
            V("implementation raises %s at operation %d (%s) of a history" % (msg, n, " ".join(map(str, o))), {**rep, "exception": msg, "at": n},
              key="c14-regenerate-stale-vectorstars" if seen else "c14-history-exception")
            continue
        allok = all(all(v) for v in verd)
        cde = code_of.get(i, 0)
        if cde == 0:
            # implementation == model; a corrupted result that the model (with the source's modes) also predicts
            if not allok:
                V("history changes Lij results exactly as the cache model with the source's alias modes %s / store modes %s predicts (first bad call: %s)"
                  % (modes, smode, next(j for j, v in enumerate(verd) if not all(v))), rep,
                  key="c14-alias-L0vv" if applies == "C14_refuted" else "c14-depends-on-earlier-inputs")
        else:
            if regen_seen:
                V("after re-generation the results of a history differ from a fresh calculator (call %d)" % cde, {**rep, "first_differing_call": cde},
                  key="c14-regenerate-stale-vectorstars")
            elif keyalias_seen:
                V("history with reused input arrays and save/load differs from a fresh calculator (call %d)" % cde, {**rep, "first_differing_call": cde},
                  key="c14-cache-key-aliases-input")
            else:
                V("Lij results of a history differ from the cache model / a fresh calculator at call %d" % cde, {**rep, "first_differing_call": cde,
                  "model_modes": modes}, key="c14-history-mismatch")
