"""C36  Value types obey equality, hashing and arithmetic laws.

Model/ValueTypes.v models PairState, ClusterSite, Cluster, GroupOp and vacancyThermoKinetics; the laws are
proved for ALL values (Properties/C36.v).  Tie: (a) correspondence -- random instances of every type are run
through the implementation and through the Gallina model INSIDE Coq (eq, ne, iszero, +, -, ^, unary -, the
group action, Cluster.__init__'s canonical form and equality map, numpy.allclose on near-equal doubles as exact
rationals); (b) direct evaluation of every law on the implementation; (c) replay of the Coq witnesses
(allclose not symmetric / transitive, near-equal vTK keys with different hashes) on the implementation."""
META = dict(
    level="proof",
    text=("Gallina models of PairState/ClusterSite/Cluster/GroupOp/vacancyThermoKinetics; theorems for all values: eq is an "
          "equivalence, ne = not eq, eq => equal hash (hash = arbitrary function), (a-b)+b=a, b+(a^b)=a, a+(-a)=0, -(-a)=a, "
          "exact raise conditions, commutation with every group operation, Cluster canonical form/translation invariance; "
          "tolerant types: reflexive for all values, equivalence+hash law on separated values, Coq witnesses that "
          "numpy.allclose equality is not symmetric/transitive and near-equal vTK keys hash differently. Correspondence "
          "implementation vs model inside Coq on random instances incl. near-equal doubles, plus a direct evaluator of every law."),
    note=("Known finding c36-allclose-not-equivalence: tolerant __eq__ of GroupOp/vacancyThermoKinetics is not an equivalence "
          "and vTK hashes the exact bytes (design of tolerant equality). Genuine defect c36-vtk-ne: vacancyThermoKinetics.__ne__ "
          "raises NameError. Cluster hash law needs 'no repeated site' (a cluster is a set of sites). Not modelled: float "
          "rounding inside allclose (inputs are kept 5% away from the tolerance boundary), numpy broadcasting on shape "
          "mismatch, Python's hash() itself (arbitrary function), dx of PairState in floating point (eq ignores it)."),
    technique="Coq proof (lists/Z/ordered ring, Qc witnesses) + in-Coq correspondence + law evaluator",
)

import itertools, re
import numpy as np
from fractions import Fraction
from . import gen
from .lib import CoqFailure, coq_Z, coq_list, coq_bool, coq_nat
from .pscommon import Once, run_nat_cases, encode, Unencodable

ATOL, RTOL = 1e-8, 1e-5


# ------------------------------------------------------------------------------------------------
# Coq printing
def zl(v): return coq_list([coq_Z(int(x)) for x in v])


def qc(x):
    f = Fraction(float(x))
    return "(qc %s %d)" % (coq_Z(f.numerator), f.denominator)


def ql(v): return coq_list([qc(x) for x in v])


def dx8(dx):
    """dx is generated as multiples of 1/8: exact integer image (harness bug otherwise)"""
    out = []
    for x in np.asarray(dx, dtype=float):
        y = x * 8
        if not abs(y - round(y)) <= 1e-6: raise Unencodable("dx not on the 1/8 grid: %r" % (dx,))
        out.append(int(round(y)))
    return out


def ps_term(ps, with_dx=True):
    return "(mkPS (K:=Zring) %s %s %s %s)" % (coq_Z(ps.i), coq_Z(ps.j), zl(ps.R), zl(dx8(ps.dx)) if with_dx else "[]")


def ops_term(ps, with_dx=True):
    return "None" if ps is None else "(Some %s)" % ps_term(ps, with_dx)


def cs_term(cs): return "(mkCS %s %s %s)" % (coq_Z(cs.ci[0]), coq_Z(cs.ci[1]), zl(cs.R))


IMPORTS = """From Coq Require Import List ZArith Bool.
From Onsager Require Import Base.OrdRing Base.Instances Model.ValueTypes Proofs.ValueTypes_proofs.
Import ListNotations.
Local Open Scope Z_scope.
Definition PS := pstate Zring.
Definition ps_same (x y : PS) : bool := ps_eqb x y && list_eqb Z.eqb (ps_dx x) (ps_dx y).
Definition ops_same (x y : option PS) : bool :=
  match x, y with None, None => true | Some u, Some v => ps_same u v | _, _ => false end.
Definition bne (x y : bool) : bool := negb (Bool.eqb x y).
Definition run_ps (c : PS * PS * bool * bool * bool * option PS * option PS * option PS * PS * PS) : nat :=
  let '(a, b, e, n, z, ad, su, xo, ng, zero) := c in
  if bne (ps_eqb a b) e then 1%nat else if bne (ps_neb a b) n then 2%nat else if bne (ps_iszero a) z then 3%nat
  else if negb (ops_same (ps_add a b) ad) then 4%nat else if negb (ops_same (ps_sub a b) su) then 5%nat
  else if negb (ops_same (ps_xor a b) xo) then 6%nat else if negb (ps_same (ps_neg a) ng) then 7%nat
  else if negb (ps_same (ps_zero (ps_i a) (length (ps_R a))) zero) then 8%nat else 0%nat.
Definition run_g (c : lop Zring * PS * PS) : nat :=
  let '(g, a, ga) := c in if ps_same (ps_g g a) ga then 0%nat else 1%nat.
Definition ocs_same (x y : option csite) : bool :=
  match x, y with None, None => true | Some u, Some v => cs_eqb u v | _, _ => false end.
Definition run_cs (c : csite * csite * vec * bool * bool * option csite * option csite * csite * lop Zring * csite) : nat :=
  let '(a, b, v, e, n, ad, su, ng, g, ga) := c in
  if bne (cs_eqb a b) e then 1%nat else if bne (cs_neb a b) n then 2%nat
  else if negb (ocs_same (cs_add a v) ad) then 3%nat else if negb (ocs_same (cs_sub a v) su) then 4%nat
  else if negb (cs_eqb (cs_neg a) ng) then 5%nat else if negb (cs_eqb (cs_g g a) ga) then 6%nat else 0%nat.
Definition sites_same (x y : list csite) : bool := list_eqb cs_eqb x y.
(* (sites1, sites2, transition, vacancy, impl sites of 1, impl equality-map entries of 1, impl Norder of 1, impl ==, impl !=) *)
Definition run_cl (c : list csite * list csite * bool * bool * list csite * list (list Z * vec) * Z * bool * bool) : nat :=
  let '(l1, l2, t, v, s1, e1, no1, e, n) := c in
  match cl_make l1 t v false, cl_make l2 t v false with
  | Some c1, Some c2 =>
    if negb (sites_same (cl_sites c1) s1) then 1%nat
    else if negb (inclb (cl_entries c1) e1 && inclb e1 (cl_entries c1)) then 2%nat
    else if negb (Z.eqb (cl_norder c1) no1) then 3%nat
    else if bne (cl_eqb c1 c2) e then 4%nat else if bne (cl_neb c1 c2) n then 5%nat else 0%nat
  | _, _ => 9%nat
  end.
Definition run_go (c : groupop Qcring * groupop Qcring * bool * bool) : nat :=
  let '(a, b, e, n) := c in
  if bne (go_eqb np_atol np_rtol a b) e then 1%nat else if bne (go_neb np_atol np_rtol a b) n then 2%nat else 0%nat.
Definition run_vtk (c : vtk Qcring * vtk Qcring * bool) : nat :=
  let '(a, b, e) := c in if bne (vtk_eqb np_atol np_rtol a b) e then 1%nat else 0%nat.
"""


def run_cases(ck, name, fn, terms, chunk=150):
    return run_nat_cases(ck, name, IMPORTS, fn, terms, chunk)


# ------------------------------------------------------------------------------------------------
# generators
def rand_ps(rng, PairState, N, dim, allow_special=True):
    r = rng.random()
    if allow_special and r < 0.06:
        return PairState.zero(-1, dim)
    if r < 0.15:
        n = rng.randrange(N)
        ps = PairState.zero(n, dim)
        return ps._replace(dx=np.array([rng.randint(-16, 16) / 8 for _ in range(dim)])) if rng.random() < 0.3 else ps
    return PairState(i=rng.randrange(N), j=rng.randrange(N),
                     R=np.array([rng.choice([0, 0, 1, -1, 2, -3]) for _ in range(dim)], dtype=int),
                     dx=np.array([rng.randint(-24, 24) / 8 for _ in range(dim)]))


def related_ps(rng, PairState, a, N, dim):
    """a partner for a: random / same final site / same initial site / chained / equal copy / negative"""
    b = rand_ps(rng, PairState, N, dim)
    k = rng.randrange(7)
    if k == 0: return b
    if k == 1: return b._replace(j=a.j)
    if k == 2: return b._replace(i=a.i)
    if k == 3: return b._replace(i=a.j)
    if k == 4: return PairState(i=a.i, j=a.j, R=a.R.copy(), dx=np.array([rng.randint(-8, 8) / 8 for _ in range(dim)]))
    if k == 5: return -a
    return b._replace(i=a.i, j=a.j)


def tryop(f):
    try:
        return f()
    except ArithmeticError:
        return None


def lop_of(crys, chem, g, with_cart):
    """(rot, perm, delu list, cartrot) of a group operation restricted to the sublattice chem"""
    N = len(crys.basis[chem])
    perm = [int(g.indexmap[chem][i]) for i in range(N)]
    t = [np.round(np.dot(g.rot, crys.basis[chem][i]) + g.trans - crys.basis[chem][perm[i]]).astype(int) for i in range(N)]
    cart = np.round(g.cartrot).astype(int) if with_cart else None
    return perm, t, cart


def lop_term(g, perm, t, cart):
    return "(mkLop (K:=Zring) %s %s %s %s)" % (coq_list([zl(r) for r in g.rot]), zl(perm), coq_list([zl(x) for x in t]),
                                              coq_list([zl(r) for r in cart]) if cart is not None else "[]")


def crystal_pool(ck, rng, n):
    names = ["square", "honeycomb", "sq2w", "tria", "rect-polar2d", "sc", "fcc", "bcc", "hcp", "b2", "diamond", "polar2w", "re3"]
    out = []
    for nm in names:
        crys, chem = gen.named(nm)
        out.append((nm, crys, chem))
    tries = 0
    while len(out) < n and tries < 10 * n:
        tries += 1
        r = gen.random_crystal(rng, rng.choice([2, 3]), maxatoms=3, nchem=rng.randint(1, 2))
        if r is None: continue
        out.append(("rand-" + r[0], r[1], rng.randrange(r[1].Nchem)))
    return out


def nearvals(rng):
    """a value and a near-equal partner: |delta| = f * (atol + rtol |v|), f never within 5% of 1"""
    v = rng.choice([0.0, 1.0, -0.5, 1e5, 1e-8, 3.75, 0.25, -2.0, 1e-3])
    f = rng.choice([0.0, 0.0, 0.3, 0.7, 0.95, 1.05, 1.5, 3.0, 1000.0])
    return v, v + rng.choice([-1, 1]) * f * (ATOL + RTOL * abs(v)), f


# ------------------------------------------------------------------------------------------------
def check_pairstate(ck, rng, pool):
    from onsager.crystalStars import PairState
    terms, meta = [], []
    npairs = ck.n(260, 1500)
    for k in range(npairs):
        dim = rng.choice([2, 3]); N = rng.randint(1, 4)
        a = rand_ps(rng, PairState, N, dim); b = related_ps(rng, PairState, a, N, dim); c = related_ps(rng, PairState, b, N, dim)
        e, n, z = bool(a == b), bool(a != b), bool(a.iszero())
        ad, su, xo, ng = tryop(lambda: a + b), tryop(lambda: a - b), tryop(lambda: a ^ b), -a
        zero = PairState.zero(a.i, dim)
        term = encode(V(ck), "c36-unencodable-output", {"a": str(a), "b": str(b), "a+b": str(ad), "a-b": str(su), "a^b": str(xo), "-a": str(ng)},
                      lambda: "(%s, %s, %s, %s, %s, %s, %s, %s, %s, %s)" % (ps_term(a), ps_term(b), coq_bool(e), coq_bool(n), coq_bool(z),
                                                                        ops_term(ad), ops_term(su), ops_term(xo), ps_term(ng), ps_term(zero)))
        if term is not None: terms.append(term); meta.append((a, b))
        kind = "ps:" + ("special" if (a.i == -1 or b.i == -1) else "eq" if e else "sub-ok" if su is not None else "xor-ok" if xo is not None else "other")
        ck.case(key=("ps", str(a), str(b)), nontrivial=not (a.iszero() and b.iszero()), kind=kind,
                sample={"type": "PairState", "a": str(a), "b": str(b), "a==b": e, "a-b": str(su), "a^b": str(xo)} if k < 2 else None)
        # ---- laws on the implementation
        def viol(law, extra=None):
            V(ck)("PairState law fails: " + law, {"a": str(a), "b": str(b), "c": str(c), **(extra or {})}, key="c36-pairstate-" + law.split()[0])
        if not (a == a): viol("refl")
        if bool(a == b) != bool(b == a): viol("sym")
        if a == b and b == c and not (a == c): viol("trans")
        if n != (not e): viol("ne")
        if e and hash(a) != hash(b): viol("hash")
        if hash(a) != hash((int(a.i), int(a.j)) + tuple(int(x) for x in a.R)): viol("hashkey")
        if z != (a == PairState.zero(a.i, dim)): viol("iszero")
        if not (-(-a) == a and np.array_equal((-(-a)).dx, a.dx)): viol("negneg")
        s1, s2 = tryop(lambda: a + (-a)), tryop(lambda: (-a) + a)
        if s1 is None or s2 is None or not s1.iszero() or not s2.iszero(): viol("addneg")
        if a.j == b.j:
            r = tryop(lambda: (a - b) + b)
            if r is None or not (r == a): viol("subadd", {"got": str(r)})
            elif min(a.i, a.j, b.i, b.j) >= 0 and not np.array_equal(r.dx, a.dx): viol("subadd-dx", {"got": str(r)})
        if a.i == b.i:
            r = tryop(lambda: b + (a ^ b))
            if r is None or not (r == a): viol("addxor", {"got": str(r)})
            elif min(a.i, a.j, b.i, b.j) >= 0 and not np.array_equal(r.dx, a.dx): viol("addxor-dx", {"got": str(r)})
        # documented raise conditions
        special = (a.iszero() and a.j == -1) or (b.iszero() and b.i == -1)
        if (ad is None) != (a.j != b.i and not special): viol("add-raises")
        if (xo is None) != (a.i != b.i): viol("xor-raises")
    codes = run_cases(ck, "ps", "run_ps", terms)
    what = {1: "__eq__", 2: "__ne__", 3: "iszero", 4: "__add__", 5: "__sub__", 6: "__xor__", 7: "__neg__", 8: "zero()"}
    for (a, b), cde in zip(meta, codes):
        if cde:
            V(ck)("PairState.%s differs from the model" % what[cde], {"a": str(a), "b": str(b)}, key="c36-corr-pairstate-%d" % cde)
    # ---- group action
    terms, meta = [], []
    ng = ck.n(160, 900)
    for k in range(ng):
        nm, crys, chem = rng.choice(pool)
        N, dim = len(crys.basis[chem]), crys.dim
        g = rng.choice(list(crys.G))
        intcart = bool(np.allclose(g.cartrot, np.round(g.cartrot), atol=1e-9))
        perm, t, cart = lop_of(crys, chem, g, intcart)
        a = rand_ps(rng, PairState, N, dim, allow_special=False); b = related_ps(rng, PairState, a, N, dim)
        if min(b.i, b.j) < 0: b = -a
        ga = a.g(crys, chem, g)
        ga_m = ga._replace(dx=np.round(ga.dx * 8) / 8) if intcart else ga
        if intcart and not np.allclose(ga.dx, ga_m.dx, atol=1e-9):
            V(ck)("PairState.g: dx is not cartrot.dx", {"crystal": nm, "a": str(a), "ga": str(ga)}, key="c36-pairstate-g-dx")
        term = encode(V(ck), "c36-unencodable-output", {"crystal": nm, "a": str(a), "g": str(g), "g(a)": str(ga)},
                      lambda: "(%s, %s, %s)" % (lop_term(g, perm, t, cart), ps_term(a, intcart), ps_term(ga_m, intcart)))
        if term is not None: terms.append(term); meta.append((nm, a, g))
        ck.case(key=("psg", nm, str(a), g.rot.tolist(), [float(x) for x in g.trans]), nontrivial=not np.array_equal(g.rot, np.eye(dim)),
                kind="psg:%s-%s" % (nm.split("-")[0], "intcart" if intcart else "latt"),
                sample={"type": "PairState.g", "crystal": nm, "a": str(a), "rot": g.rot.tolist(), "ga": str(ga)} if k < 1 else None)
        def viol(law, extra=None):
            V(ck)("PairState group action: " + law, {"crystal": repr(crys), "chem": chem, "a": str(a), "b": str(b), "g": str(g), **(extra or {})},
                         key="c36-pairstate-g-" + law.split()[0])
        gb = b.g(crys, chem, g)
        if not ((-a).g(crys, chem, g) == -ga): viol("neg")
        for opn, op in (("add", lambda x, y: x + y), ("sub", lambda x, y: x - y), ("xor", lambda x, y: x ^ y)):
            r = tryop(lambda: op(a, b)); rg = tryop(lambda: op(ga, gb))
            if (r is None) != (rg is None): viol(opn + " definedness")
            elif r is not None:
                rr = r.g(crys, chem, g)
                if not (rr == rg) or not np.allclose(rr.dx, rg.dx, atol=1e-9): viol(opn, {"g(a.b)": str(rr), "ga.gb": str(rg)})
        if a.iszero() != ga.iszero(): viol("iszero")
        if (a == b) != (ga == gb): viol("eq")
    codes = run_cases(ck, "psg", "run_g", terms)
    for (nm, a, g), cde in zip(meta, codes):
        if cde:
            V(ck)("PairState.g differs from the model (rot.R + delu_j - delu_i, indexmap, cartrot.dx)",
                         {"crystal": nm, "a": str(a), "g": str(g)}, key="c36-corr-pairstate-g")


def check_clustersite(ck, rng, pool):
    from onsager.cluster import ClusterSite
    terms, meta = [], []
    for k in range(ck.n(150, 800)):
        nm, crys, chem = rng.choice(pool)
        dim = crys.dim
        c0 = rng.randrange(crys.Nchem)
        def rs(c=None):
            c = rng.randrange(crys.Nchem) if c is None else c
            return ClusterSite(ci=(c, rng.randrange(len(crys.basis[c]))), R=np.array([rng.randint(-2, 2) for _ in range(dim)], dtype=int))
        a = rs(c0)
        r = rng.random()
        b = ClusterSite(ci=a.ci, R=a.R.copy()) if r < 0.3 else ClusterSite(ci=a.ci, R=rs().R) if r < 0.5 else rs()
        c = ClusterSite(ci=b.ci, R=b.R.copy()) if rng.random() < 0.5 else rs()
        v = [rng.randint(-3, 3) for _ in range(dim if rng.random() < 0.85 else dim + rng.choice([-1, 1]))]
        g = rng.choice(list(crys.G))
        perm, t, _ = lop_of(crys, a.ci[0], g, False)
        e, n = bool(a == b), bool(a != b)
        ad, su, ng, ga = tryop(lambda: a + v), tryop(lambda: a - v), -a, a.g(crys, g)
        term = encode(V(ck), "c36-unencodable-output", {"crystal": nm, "a": str(a), "b": str(b), "v": v, "a+v": str(ad), "a-v": str(su), "-a": str(ng), "g(a)": str(ga)},
                      lambda: "(%s, %s, %s, %s, %s, %s, %s, %s, %s, %s)" % (
            cs_term(a), cs_term(b), zl(v), coq_bool(e), coq_bool(n), "None" if ad is None else "(Some %s)" % cs_term(ad),
            "None" if su is None else "(Some %s)" % cs_term(su), cs_term(ng), lop_term(g, perm, t, None), cs_term(ga)))
        if term is not None: terms.append(term); meta.append((nm, a, b, v))
        ck.case(key=("cs", nm, str(a), str(b), v), nontrivial=True, kind="cs:" + ("eq" if e else "ne") + ("" if len(v) == dim else "-baddim"),
                sample={"type": "ClusterSite", "a": str(a), "b": str(b), "v": v} if k < 1 else None)
        def viol(law):
            V(ck)("ClusterSite law fails: " + law, {"a": str(a), "b": str(b), "c": str(c), "v": v, "crystal": nm}, key="c36-clustersite-" + law.split()[0])
        if not (a == a): viol("refl")
        if bool(a == b) != bool(b == a): viol("sym")
        if a == b and b == c and not (a == c): viol("trans")
        if n != (not e): viol("ne")
        if e and hash(a) != hash(b): viol("hash")
        if hash(a) != hash((int(a.ci[0]), int(a.ci[1])) + tuple(int(x) for x in a.R)): viol("hashkey")
        if not (-(-a) == a): viol("negneg")
        if (ad is None) != (len(v) != dim): viol("add-raises")
        if ad is not None and not ((ad - v) == a): viol("addsub")
        if ad is not None and not (ad.g(crys, g) == ga + np.dot(g.rot, np.array(v))): viol("g-add")
    codes = run_cases(ck, "cs", "run_cs", terms)
    what = {1: "__eq__", 2: "__ne__", 3: "__add__", 4: "__sub__", 5: "__neg__", 6: "g"}
    for (nm, a, b, v), cde in zip(meta, codes):
        if cde:
            V(ck)("ClusterSite.%s differs from the model" % what[cde], {"crystal": nm, "a": str(a), "b": str(b), "v": v}, key="c36-corr-clustersite-%d" % cde)


def check_cluster(ck, rng, pool):
    from onsager.cluster import ClusterSite, Cluster
    terms, meta = [], []
    for k in range(ck.n(140, 800)):
        nm, crys, chem = rng.choice(pool)
        dim = crys.dim
        def rs():
            c = rng.randrange(crys.Nchem)
            return ClusterSite(ci=(c, rng.randrange(len(crys.basis[c]))), R=np.array([rng.randint(-1, 2) for _ in range(dim)], dtype=int))
        mode = rng.choice(["plain", "plain", "ts", "vac", "tsvac"])
        t, v = mode in ("ts", "tsvac"), mode in ("vac", "tsvac")
        nmin = 2 if t else 1
        sites = []
        while len(sites) < rng.randint(nmin, nmin + 3):
            s = rs()
            if all(not (s == x) for x in sites): sites.append(s)
        # partner: permuted tail / translated / TS reversed / one site changed / unrelated
        var = rng.choice(["perm", "shift", "tsrev", "change", "other", "same"])
        l2 = list(sites)
        fixed = 2 if t else 1 if v else 0
        if var == "perm":
            tail = l2[fixed:]; rng.shuffle(tail); l2 = l2[:fixed] + tail
        elif var == "shift":
            T = np.array([rng.randint(-2, 2) for _ in range(dim)]); l2 = [s + T for s in l2]
            tail = l2[fixed:]; rng.shuffle(tail); l2 = l2[:fixed] + tail
        elif var == "tsrev" and t:
            l2 = [l2[1], l2[0]] + l2[2:]
        elif var == "change":
            i = rng.randrange(len(l2)); s = rs()
            if all(not (s == x) for x in l2): l2[i] = s
        elif var == "other":
            l2 = []
            while len(l2) < len(sites):
                s = rs()
                if all(not (s == x) for x in l2): l2.append(s)
        c1, c2, c3 = Cluster(sites, transition=t, vacancy=v), Cluster(l2, transition=t, vacancy=v), None
        e, n = bool(c1 == c2), bool(c1 != c2)
        entries = [(list(r), list(sp)) for r, sps in c1.__equalitymap__.items() for sp in sps]
        term = encode(V(ck), "c36-unencodable-output", {"mode": mode, "variant": var, "sites": [str(x) for x in sites], "cluster_sites": [str(x) for x in c1.sites]},
                      lambda: "(%s, %s, %s, %s, %s, %s, %s, %s, %s)" % (
            coq_list([cs_term(s) for s in sites]), coq_list([cs_term(s) for s in l2]), coq_bool(t), coq_bool(v),
            coq_list([cs_term(s) for s in c1.sites]), coq_list(["(%s, %s)" % (zl(r), zl(sp)) for r, sp in entries]),
            coq_Z(c1.Norder), coq_bool(e), coq_bool(n)))
        if term is not None: terms.append(term); meta.append((nm, mode, var, sites, l2))
        ck.case(key=("cl", nm, mode, [str(s) for s in sites], [str(s) for s in l2]), nontrivial=len(sites) > 1,
                kind="cl:%s-%s-%s" % (mode, var, "eq" if e else "ne"),
                sample={"type": "Cluster", "mode": mode, "variant": var, "sites": [str(s) for s in sites], "sites2": [str(s) for s in l2], "==": e} if k < 1 else None)
        def viol(law, extra=None):
            V(ck)("Cluster law fails: " + law, {"mode": mode, "variant": var, "sites": [str(s) for s in sites], "sites2": [str(s) for s in l2], **(extra or {})},
                         key="c36-cluster-" + law.split()[0])
        if not (c1 == c1): viol("refl")
        if bool(c1 == c2) != bool(c2 == c1): viol("sym")
        if n != (not e): viol("ne")
        if e and hash(c1) != hash(c2): viol("hash")
        # hash is the XOR over the (r + shiftpos) entries (one per site: the sites are distinct)
        if len(entries) != len(sites): viol("entries", {"entries": entries})
        hx = 0
        for r, sp in entries: hx ^= hash(tuple(r) + tuple(sp))
        if hx != hash(c1): viol("hashkey")
        # canonical form: permutation (of the free part) and translation give an equal cluster
        if var in ("perm", "shift", "same") and not e: viol("canonical " + var)
        if var == "tsrev" and t and (e != (not v)): viol("tsrev")
        # transitivity through a third, translated and permuted copy of c2
        T = np.array([rng.randint(-2, 2) for _ in range(dim)]); l3 = [s + T for s in l2]
        tail = l3[fixed:]; rng.shuffle(tail); c3 = Cluster(l3[:fixed] + tail, transition=t, vacancy=v)
        if not (c2 == c3): viol("canonical shift")
        if e and not (c1 == c3): viol("trans")
    codes = run_cases(ck, "cl", "run_cl", terms, chunk=100)
    what = {1: "__init__ site order/shift", 2: "__equalitymap__", 3: "Norder", 4: "__eq__", 5: "__ne__", 9: "__init__ (model raises)"}
    for (nm, mode, var, sites, l2), cde in zip(meta, codes):
        if cde:
            V(ck)("Cluster.%s differs from the model" % what[cde], {"crystal": nm, "mode": mode, "variant": var, "sites": [str(s) for s in sites],
                                                                         "sites2": [str(s) for s in l2]}, key="c36-corr-cluster-%d" % cde)


def go_term(g):
    return "(mkGop (K:=Qcring) %s %s %s %s)" % (coq_list([zl(r) for r in g.rot]), ql(g.trans), coq_list([ql(r) for r in g.cartrot]),
                                             coq_list([zl(r) for r in g.indexmap]))


def check_groupop(ck, rng, pool, finding):
    from onsager.crystal import GroupOp
    terms, meta = [], []
    for k in range(ck.n(150, 800)):
        nm, crys, chem = rng.choice(pool)
        g = rng.choice(list(crys.G))
        # snap the float fields to a coarse grid so that distinct values are far apart, then perturb one entry
        a = GroupOp(g.rot.copy(), np.round(g.trans * 12) / 12, np.round(g.cartrot * 8) / 8, g.indexmap)
        var = rng.choice(["near-trans", "near-trans", "near-cart", "rot", "imap", "other", "same"])
        b, c = a, a
        f = 0.0
        if var.startswith("near"):
            v, w, f = nearvals(rng)
            v2 = v + (w - v) * 2 if f else v
            if var == "near-trans":
                i = rng.randrange(crys.dim)
                ta, tb, tc = a.trans.copy(), a.trans.copy(), a.trans.copy(); ta[i], tb[i], tc[i] = v, w, v2
                a, b, c = a._replace(trans=ta), a._replace(trans=tb), a._replace(trans=tc)
            else:
                i, j = rng.randrange(crys.dim), rng.randrange(crys.dim)
                ca, cb, cc = a.cartrot.copy(), a.cartrot.copy(), a.cartrot.copy(); ca[i, j], cb[i, j], cc[i, j] = v, w, v2
                a, b, c = a._replace(cartrot=ca), a._replace(cartrot=cb), a._replace(cartrot=cc)
        elif var == "rot":
            r = a.rot.copy(); r[rng.randrange(crys.dim), rng.randrange(crys.dim)] += rng.choice([-1, 1]); b = a._replace(rot=r)
        elif var == "imap":
            im = [list(x) for x in a.indexmap]; cidx = rng.randrange(len(im)); rng.shuffle(im[cidx]); b = a._replace(indexmap=tuple(tuple(x) for x in im))
        elif var == "other":
            g2 = rng.choice(list(crys.G)); b = GroupOp(g2.rot.copy(), np.round(g2.trans * 12) / 12, np.round(g2.cartrot * 8) / 8, g2.indexmap)
        e, n = bool(a == b), bool(a != b)
        terms.append("(%s, %s, %s, %s)" % (go_term(a), go_term(b), coq_bool(e), coq_bool(n)))
        meta.append((nm, var, a, b))
        near = var.startswith("near") and 0 < f < 100
        ck.case(key=("go", nm, var, a.rot.tolist(), a.trans.tolist(), b.trans.tolist(), b.cartrot.tolist()), nontrivial=True,
                kind="go:%s%s-%s" % (var, "(f=%g)" % f if var.startswith("near") else "", "eq" if e else "ne"),
                sample={"type": "GroupOp", "variant": var, "trans_a": a.trans.tolist(), "trans_b": b.trans.tolist(), "==": e} if k < 1 else None)
        rep = {"crystal": nm, "variant": var, "f": f, "a": str(a), "b": str(b), "c": str(c), "trans_a": a.trans.tolist(), "trans_b": b.trans.tolist(),
               "cart_a": a.cartrot.tolist(), "cart_b": b.cartrot.tolist()}
        def viol(law):
            if near and law in ("sym", "trans"):
                finding.append(("GroupOp " + law, rep))
            else:
                V(ck)("GroupOp law fails: " + law, rep, key="c36-groupop-" + law)
        if not (a == a): viol("refl")
        if bool(a == b) != bool(b == a): viol("sym")
        if a == b and b == c and not (a == c): viol("trans")
        if n != (not e): viol("ne")
        if e and hash(a) != hash(b): viol("hash")
    codes = run_cases(ck, "go", "run_go", terms, chunk=100)
    for (nm, var, a, b), cde in zip(meta, codes):
        if cde:
            V(ck)("GroupOp.%s differs from the model" % {1: "__eq__", 2: "__ne__"}[cde],
                         {"crystal": nm, "variant": var, "a": str(a), "b": str(b)}, key="c36-corr-groupop-%d" % cde)


def check_vtk(ck, rng, finding):
    from onsager.OnsagerCalc import vacancyThermoKinetics as VTK
    terms, meta = [], []
    ne_broken = None
    for k in range(ck.n(150, 800)):
        nw, nt = rng.randint(1, 3), rng.randint(1, 3)
        def grid(n, lo, hi): return np.array([rng.randint(lo * 4, hi * 4) / 4 for _ in range(n)])
        a = VTK(pre=np.ones(nw), betaene=grid(nw, 0, 3), preT=np.ones(nt), betaeneT=grid(nt, 1, 5))
        var = rng.choice(["near", "near", "near", "other", "same", "copy"])
        b, c, f = a, a, 0.0
        if var == "near":
            fld = rng.choice(["pre", "betaene", "preT", "betaeneT"])
            v, w, f = nearvals(rng)
            v2 = v + (w - v) * 2 if f else v
            i = rng.randrange(len(getattr(a, fld)))
            xa, xb, xc = (getattr(a, fld).copy() for _ in range(3)); xa[i], xb[i], xc[i] = v, w, v2
            a, b, c = a._replace(**{fld: xa}), a._replace(**{fld: xb}), a._replace(**{fld: xc})
        elif var == "other":
            b = VTK(pre=np.ones(nw), betaene=grid(nw, 0, 3), preT=np.ones(nt), betaeneT=grid(nt, 1, 5))
        elif var == "copy":
            b = VTK(*(x.copy() for x in a))
        e = bool(a == b)
        terms.append("(mkVTK (K:=Qcring) %s %s %s %s, mkVTK (K:=Qcring) %s %s %s %s, %s)" % (*[ql(x) for x in a], *[ql(x) for x in b], coq_bool(e)))
        meta.append((var, a, b))
        near = var == "near" and 0 < f < 100
        ck.case(key=("vtk", var, [x.tolist() for x in a], [x.tolist() for x in b]), nontrivial=True,
                kind="vtk:%s%s-%s" % (var, "(f=%g)" % f if var == "near" else "", "eq" if e else "ne"),
                sample={"type": "vacancyThermoKinetics", "variant": var, "a": [x.tolist() for x in a], "b": [x.tolist() for x in b], "==": e} if k < 1 else None)
        rep = {"variant": var, "f": f, "a": [x.tolist() for x in a], "b": [x.tolist() for x in b], "c": [x.tolist() for x in c]}
        def viol(law):
            if near and law in ("sym", "trans", "hash"):
                finding.append(("vacancyThermoKinetics " + law, rep))
            else:
                V(ck)("vacancyThermoKinetics law fails: " + law, rep, key="c36-vtk-" + law)
        if not (a == a): viol("refl")
        if bool(a == b) != bool(b == a): viol("sym")
        if a == b and b == c and not (a == c): viol("trans")
        if e and hash(a) != hash(b): viol("hash")
        if hash(a) != hash(b"".join(x.tobytes() for x in a)): viol("hashkey")
        try:
            n = bool(a != b)
            if n != (not e): viol("ne")
        except NameError as ex:
            if ne_broken is None: ne_broken = (repr(ex), rep)
    if ne_broken is not None:
        V(ck)("vacancyThermoKinetics.__ne__ raises %s (source: `return not __eq__(other)`); minimal patch: `return not self.__eq__(other)`"
                     % ne_broken[0], {"call": "a != b", **ne_broken[1]}, key="c36-vtk-ne")
    codes = run_cases(ck, "vtk", "run_vtk", terms, chunk=100)
    for (var, a, b), cde in zip(meta, codes):
        if cde:
            V(ck)("vacancyThermoKinetics.__eq__ differs from the model (allclose on the four arrays)",
                         {"variant": var, "a": [x.tolist() for x in a], "b": [x.tolist() for x in b]}, key="c36-corr-vtk")


def replay_witnesses(ck, finding):
    """the witnesses of C36_*_refuted, on the implementation"""
    from onsager.crystal import GroupOp
    from onsager.OnsagerCalc import vacancyThermoKinetics as VTK
    def go(t): return GroupOp(np.eye(2, dtype=int), np.array([t, 0.]), np.eye(2), ((0,),))
    def vt(e): return VTK(pre=np.ones(1), betaene=np.array([e]), preT=np.ones(1), betaeneT=np.ones(1))
    got = {}
    a, b = go(100000.), go(100001.000005)
    got["groupop_sym"] = (bool(a == b), bool(b == a))
    a, b, c = go(0.), go(9e-9), go(18e-9)
    got["groupop_trans"] = (bool(a == b), bool(b == c), bool(a == c))
    a, b = vt(100000.), vt(100001.000005)
    got["vtk_sym"] = (bool(a == b), bool(b == a))
    a, b, c = vt(0.), vt(9e-9), vt(18e-9)
    got["vtk_trans"] = (bool(a == b), bool(b == c), bool(a == c))
    got["vtk_hash"] = (bool(a == b), hash(a) == hash(b))
    expect = {"groupop_sym": (True, False), "groupop_trans": (True, True, False), "vtk_sym": (True, False), "vtk_trans": (True, True, False),
              "vtk_hash": (True, False)}
    ck.extra["witness_replay"] = {k: list(v) for k, v in got.items()}
    for k in expect:
        ck.case(key=("witness", k), nontrivial=True, kind="witness")
        if got[k] == expect[k]:
            finding.append(("witness " + k, {"witness": k, "implementation": list(got[k])}))
        else:
            # the model's witness does not reproduce: the model of allclose / hash is not the implementation's
            V(ck)("Coq witness %s does not reproduce on the implementation: got %s, model says %s" % (k, got[k], expect[k]),
                         {"witness": k, "got": list(got[k]), "expected": list(expect[k])}, key="c36-witness-mismatch")


_once = {}


def V(ck):
    if id(ck) not in _once: _once[id(ck)] = Once(ck)
    return _once[id(ck)]


def run(ck):
    ck.rule = ("random instances of PairState (dim 2/3, 1-4 sites, incl. zero(-1), equal copies, matching/mismatching end points), "
               "ClusterSite, Cluster (plain/transition/vacancy; permuted, translated, TS-reversed, changed partners), GroupOp of pool "
               "crystals with float fields perturbed by f*(atol+rtol|v|), f in {0,.3,.7,.95,1.05,1.5,3,1000}, vacancyThermoKinetics "
               "likewise; distinct = distinct value tuples; non-trivial = not all-zero / more than one site")
    ck.trusted += ["harness/c36.py (printing of values as Coq literals; doubles as exact rationals)",
                   "Python's hash() and numpy's float rounding inside allclose are outside the model"]
    ck.theorems()
    rng = ck.rng
    pool = crystal_pool(ck, rng, ck.n(18, 40))
    finding = []
    for fn, args in ((check_pairstate, (pool,)), (check_clustersite, (pool,)), (check_cluster, (pool,)),
                     (check_groupop, (pool, finding)), (check_vtk, (finding,))):
        try:
            fn(ck, rng, *args)
        except CoqFailure as e:
            ck.broken_proof = "correspondence %s: %s" % (fn.__name__, e)
    replay_witnesses(ck, finding)
    ck.extra["near_equal_law_failures"] = len(finding)
    if finding:
        what, rep = finding[0]
        V(ck)("tolerant __eq__ (numpy.allclose) is not an equivalence / vTK hashes exact bytes: %d failing near-equal cases, first: %s"
                     % (len(finding), what), {"first": rep, "all": [f[0] for f in finding][:40]}, key="c36-allclose-not-equivalence")
