"""Structured generators shared by the checks: a pool of crystals (named lattices of the
suite plus random members of every crystal system, 2-D and 3-D, one or several sites and
Wyckoff sets, polar and non-polar), jump-network cutoffs that percolate, dyadic random
thermodynamic data.  Every random choice comes from the rng passed in."""
import itertools, math, fractions
import numpy as np
from onsager import crystal


def _a(*x): return np.array(x, dtype=float)


def named(name):
    """-> (crystal, chem) for a named lattice"""
    s3 = math.sqrt(3.)
    if name == "sc": return crystal.Crystal(np.eye(3), [_a(0, 0, 0)]), 0
    if name == "fcc": return crystal.Crystal.FCC(1.), 0
    if name == "bcc": return crystal.Crystal.BCC(1.), 0
    if name == "hcp": return crystal.Crystal.HCP(1.), 0
    if name == "hcp-nonideal": return crystal.Crystal.HCP(1., 1.5), 0
    if name == "diamond":
        return crystal.Crystal(0.5 * _a([0, 1, 1], [1, 0, 1], [1, 1, 0]).T * 1.0,
                               [_a(0, 0, 0), _a(.25, .25, .25)]), 0
    if name == "b2": return crystal.Crystal(np.eye(3), [[_a(0, 0, 0)], [_a(.5, .5, .5)]]), 0
    if name == "b2-1": return crystal.Crystal(np.eye(3), [[_a(0, 0, 0)], [_a(.5, .5, .5)]]), 1
    if name == "tet": return crystal.Crystal(np.diag([1., 1., 1.2]), [_a(0, 0, 0)]), 0
    if name == "ortho": return crystal.Crystal(np.diag([1., 1.1, 1.25]), [_a(0, 0, 0)]), 0
    if name == "polar":  # 2-site cell with a non-zero site vector basis (no inversion)
        return crystal.Crystal(np.diag([1., 1., 1.3]), [_a(0, 0, 0), _a(.5, .5, .4)]), 0
    if name == "polar2w":  # spectator + 3 mobile sites in two Wyckoff sets, polar
        return crystal.Crystal(np.diag([1., 1., 1.3]),
                               [[_a(0, 0, 0)], [_a(.5, .5, .4), _a(0, .5, .17), _a(.5, 0, .17)]]), 1
    if name == "pmm2-3w":  # orthorhombic polar cell, three Wyckoff sets of mobile sites on mirror planes (>= 3 vector-basis functions)
        return crystal.Crystal(np.diag([1., 1.15, 1.3]),
                               [[_a(0, 0, 0)], [_a(.5, .5, .37), _a(0, .5, .12), _a(.5, 0, .21)]]), 1
    if name == "wurtzite-int":  # hexagonal polar host with two inequivalent interstitial sets
        c = crystal.Crystal.HCP(1., 1.63)
        hostb = [c.basis[0][0], c.basis[0][1]]
        return crystal.Crystal(c.lattice, [hostb, [_a(1. / 3, 2. / 3, 0.63), _a(2. / 3, 1. / 3, 0.13), _a(0, 0, 0.30), _a(0, 0, 0.80)]]), 1
    if name == "re3":  # 4 sites, 2 Wyckoff sets (corner + face centres of a cube edge lattice)
        return crystal.Crystal(np.eye(3), [_a(0, 0, 0), _a(.5, 0, 0), _a(0, .5, 0), _a(0, 0, .5)]), 0
    if name == "hcp-oct-tet":  # HCP host with octahedral and tetrahedral interstitials
        c = crystal.Crystal.HCP(1.)
        c = c.addbasis(c.Wyckoffpos(_a(0, 0, .5)) + c.Wyckoffpos(_a(1. / 3, 2. / 3, 0.625)))
        return c, 1
    if name == "fcc-oct-tet":
        c = crystal.Crystal.FCC(1.)
        c = c.addbasis(c.Wyckoffpos(_a(.5, .5, .5)) + c.Wyckoffpos(_a(.25, .25, .25)))
        return c, 1
    if name == "bcc-tet":
        c = crystal.Crystal.BCC(1.)
        c = c.addbasis(c.Wyckoffpos(np.dot(c.invlatt, _a(.5, .25, 0))))
        return c, 1
    # 2-D
    if name == "square": return crystal.Crystal(np.eye(2), [_a(0, 0)]), 0
    if name == "rect": return crystal.Crystal(np.diag([1., 1.25]), [_a(0, 0)]), 0
    if name == "tria": return crystal.Crystal(_a([1, 0], [-.5, s3 / 2]).T, [_a(0, 0)]), 0
    if name == "honeycomb":
        return crystal.Crystal(_a([1, 0], [-.5, s3 / 2]).T, [_a(1. / 3, 2. / 3), _a(2. / 3, 1. / 3)]), 0
    if name == "sq2w":  # 2-D, 3 sites in two Wyckoff sets (Lieb lattice)
        return crystal.Crystal(np.eye(2), [_a(0, 0), _a(.5, 0), _a(0, .5)]), 0
    if name == "rect-polar2d":  # 2-D polar: no inversion, 2 sites
        return crystal.Crystal(np.diag([1., 1.3]), [_a(0, 0), _a(.5, .37)]), 0
    if name == "oblique2d":
        return crystal.Crystal(_a([1, 0], [.3, 1.1]).T, [_a(0, 0), _a(.4, .3)]), 0
    # one-site crystals whose point group leaves an antisymmetric tensor invariant (rational lattices)
    if name == "oblique1": return crystal.Crystal(_a([1, 0], [.25, 1.125]).T, [_a(0, 0)]), 0            # 2-D, group 2
    if name == "mono": return crystal.Crystal(_a([1, 0, 0], [0, 1.125, 0], [.25, 0, 1.25]).T, [_a(0, 0, 0)]), 0   # 2/m
    if name == "tric": return crystal.Crystal(_a([1, 0, 0], [.25, 1.125, 0], [.25, .125, 1.25]).T, [_a(0, 0, 0)]), 0  # -1
    # crystals whose sites carry a non-empty site vector basis (origin-state corrections of Lij; fix b4a4433)
    if name == "polar3w2d":   # truly polar 2-D cell (a vector invariant under the whole point group), three Wyckoff sets on mirror lines
        return crystal.Crystal(np.diag([1., 1.3]), [_a(0, 0), _a(.5, .37), _a(0, .6)]), 0
    if name == "tria-disp":   # displaced (rumpled) triangular 2-site cell
        return crystal.Crystal(_a([1., 0.5], [0., s3 / 2]), [_a(0, 0), _a(1. / 3 + 0.04, 1. / 3 + 0.04)]), 0
    if name == "pg4":         # truly polar 2-D cell (glide only): two Wyckoff sets of two general positions
        return crystal.Crystal(np.diag([1., 1.3]), [_a(.2, .1), _a(-.2, .6), _a(.37, .33), _a(-.37, .83)]), 0
    if name == "p1-2d":       # no symmetry at all, spectator + two mobile sites
        return crystal.Crystal(_a([1., .3], [0., 1.1]), [[_a(0, 0)], [_a(.1, .2), _a(.45, .63)]]), 1
    # interstitial sites with a site vector NOT along the rotation axis that relates them (3-, 4-, 6-fold related site vectors)
    if name == "sq-x4":    # 2-D square host, four (x,0)-type interstitials (site symmetry m, related by the 4-fold axis)
        return crystal.Crystal(np.eye(2), [[_a(0, 0)], [_a(.3, 0), _a(-.3, 0), _a(0, .3), _a(0, -.3)]], chemistry=["M", "I"]), 1
    if name == "cub-x6":   # cubic host, six (x,0,0)-type interstitials (site symmetry 4mm, related by the <111> three-fold axes)
        return crystal.Crystal(np.eye(3), [[_a(0, 0, 0)], [_a(.3, 0, 0), _a(-.3, 0, 0), _a(0, .3, 0), _a(0, -.3, 0), _a(0, 0, .3), _a(0, 0, -.3)]],
                               chemistry=["M", "I"]), 1
    if name == "hex-x6":   # hexagonal host, six basal (x,0,0)-type interstitials related by the 6-fold axis
        return crystal.Crystal(_a([1, 0, 0], [-.5, s3 / 2, 0], [0, 0, 1.2]).T,
                               [[_a(0, 0, 0)], [_a(.3, 0, 0), _a(0, .3, 0), _a(-.3, -.3, 0), _a(-.3, 0, 0), _a(0, -.3, 0), _a(.3, .3, 0)]],
                               chemistry=["M", "I"]), 1
    if name == "mono-m":   # monoclinic 2/m (unique axis z) host + interstitials ON the mirror planes z=0, z=1/2 (site symmetry m:
        # 2-D site vector basis), two Wyckoff sets
        return crystal.Crystal(_a([1, 0, 0], [.25, 1.125, 0], [0, 0, 1.25]).T,
                               [[_a(0, 0, 0)], [_a(.2, .3, 0), _a(-.2, -.3, 0), _a(.6, .1, .5), _a(-.6, -.1, .5)]], chemistry=["M", "I"]), 1
    raise KeyError(name)


def rotation(axis, deg):
    """proper rotation matrix about a Cartesian axis direction"""
    axis = np.asarray(axis, dtype=float); axis = axis / np.linalg.norm(axis)
    t = math.radians(deg); c, s_ = math.cos(t), math.sin(t)
    Kx = np.array([[0, -axis[2], axis[1]], [axis[2], 0, -axis[0]], [-axis[1], axis[0], 0]])
    return np.eye(3) * c + s_ * Kx + (1 - c) * np.outer(axis, axis)


def rotated(crys, Q):
    """the same crystal in a rotated Cartesian frame (lattice vectors Q a_i, same direct coordinates)"""
    if crys.dim == 2: Q = np.asarray(Q)[:2, :2]
    return crystal.Crystal(np.dot(Q, crys.lattice), crys.basis, chemistry=crys.chemistry)


def random_rotation(rng, dim=3):
    if dim == 2: return rotation([0, 0, 1], rng.uniform(0, 360))
    v = np.array([rng.gauss(0, 1) for _ in range(3)])
    return rotation(v, rng.uniform(0, 360))


NAMES3 = ["sc", "fcc", "bcc", "hcp", "hcp-nonideal", "diamond", "b2", "tet", "ortho", "polar", "polar2w", "re3",
          "hcp-oct-tet", "fcc-oct-tet", "bcc-tet", "pmm2-3w", "wurtzite-int"]
NAMES2 = ["square", "rect", "tria", "honeycomb", "sq2w", "rect-polar2d", "oblique2d"]
SMALL = ["square", "rect", "tria", "honeycomb", "sq2w", "rect-polar2d", "sc", "tet", "polar", "b2"]


def random_lattice(rng, dim):
    """random lattice (column vectors) from a random crystal system, parameters on a coarse grid"""
    def p(): return rng.choice([1.0, 1.1, 1.2, 1.25, 1.3, 1.5, 0.8])
    if dim == 2:
        sysm = rng.choice(["square", "rect", "hex", "oblique", "crect"])
        a, b = 1.0, p()
        if sysm == "square": return sysm, np.eye(2)
        if sysm == "rect": return sysm, np.diag([a, b if b != 1 else 1.2])
        if sysm == "hex": return sysm, _a([1, 0], [-.5, math.sqrt(3) / 2]).T
        if sysm == "crect":
            b = b if b != 1 else 1.2
            return sysm, _a([a / 2, b / 2], [-a / 2, b / 2]).T
        return sysm, _a([1, 0], [rng.choice([.2, .3, .35]), b]).T
    sysm = rng.choice(["cubic", "fcc", "bcc", "tet", "bct", "ortho", "hex", "mono", "tri", "rhomb"])
    a, b, c = 1.0, p(), p()
    if b == 1.0: b = 1.15
    if c == 1.0 or c == b: c = b + 0.17
    if sysm == "cubic": return sysm, np.eye(3)
    if sysm == "fcc": return sysm, 0.5 * _a([0, 1, 1], [1, 0, 1], [1, 1, 0]).T
    if sysm == "bcc": return sysm, 0.5 * _a([-1, 1, 1], [1, -1, 1], [1, 1, -1]).T
    if sysm == "tet": return sysm, np.diag([a, a, c])
    if sysm == "bct": return sysm, 0.5 * _a([-a, a, c], [a, -a, c], [a, a, -c]).T
    if sysm == "ortho": return sysm, np.diag([a, b, c])
    if sysm == "hex": return sysm, _a([.5, -math.sqrt(3) / 2, 0], [.5, math.sqrt(3) / 2, 0], [0, 0, c]).T
    if sysm == "mono": return sysm, _a([a, 0, 0], [0, b, 0], [rng.choice([.2, .3]), 0, c]).T
    if sysm == "rhomb":
        t = rng.choice([.1, .2, -.1])
        return sysm, _a([1, t, t], [t, 1, t], [t, t, 1]).T
    return sysm, _a([a, 0, 0], [.2, b, 0], [.3, .15, c]).T


def random_crystal(rng, dim=None, maxatoms=3, nchem=1):
    """random crystal: random system, 1..maxatoms atoms of the mobile species at positions on a
    1/12 grid (special and general positions), optional spectator species"""
    dim = dim or rng.choice([2, 3])
    sysm, latt = random_lattice(rng, dim)
    grid = [0, 1 / 2, 1 / 3, 2 / 3, 1 / 4, 3 / 4, 1 / 6, 5 / 12, 0.37, 0.4]
    def pos(): return np.array([rng.choice(grid) for _ in range(dim)])
    basis = []
    for c in range(nchem):
        n = rng.randint(1, maxatoms)
        ul = []
        for _ in range(n):
            for _try in range(20):
                u = pos()
                if all(np.linalg.norm(np.dot(latt, crystal.inhalf(u - v))) > 0.3 for l in basis + [ul] for v in l):
                    ul.append(u); break
        if not ul: ul = [pos()]
        basis.append(ul)
    try:
        crys = crystal.Crystal(latt, basis)
    except Exception:
        return None
    return sysm, crys


def shells(crys, chem, nmax=2):
    """sorted distinct jump distances of species chem (up to ~2.5 lattice units)"""
    ds = set()
    for i, ui in enumerate(crys.basis[chem]):
        for j, uj in enumerate(crys.basis[chem]):
            for R in itertools.product(range(-nmax, nmax + 1), repeat=crys.dim):
                d = np.linalg.norm(np.dot(crys.lattice, np.array(R) + uj - ui))
                if d > 1e-6: ds.add(round(d, 6))
    return sorted(ds)


def exact_unitcell_D(N, jn, rho, rates, dim):
    """float reference: corrector formula on the unit-cell network (any least-squares solution)"""
    W = np.zeros((N, N)); b = np.zeros((N, dim)); D0 = np.zeros((dim, dim))
    for jl, rl in zip(jn, rates):
        for ((i, j), dx), r in zip(jl, rl):
            W[i, j] += r; W[i, i] -= r; b[i] += r * dx; D0 += 0.5 * rho[i] * r * np.outer(dx, dx)
    gam = np.linalg.lstsq(W, -b, rcond=None)[0]
    rb = rho[:, None] * b
    return D0 - 0.5 * (rb.T @ gam + gam.T @ rb)


def percolating_network(crys, chem, rng, maxshell=3, maxjumps=60):
    """choose a cutoff just above one of the first neighbour shells such that the network
    percolates in every direction (unit-rate diffusivity positive definite); None if none does"""
    sh = shells(crys, chem)
    sl = crys.sitelist(chem)
    N = len(crys.basis[chem])
    opts = []
    for k in range(min(maxshell + 2, len(sh))):
        cut = sh[k] + 1e-4
        jn = crys.jumpnetwork(chem, cut)
        nj = sum(len(t) for t in jn)
        if nj == 0: continue
        if nj > maxjumps: break
        # the sites must form ONE connected network (otherwise the chain is not ergodic and the calculators' assumption of a
        # single equilibrium mode fails: GFcalc raises "Problem isotropizing D?"), and it must percolate in every direction
        comp = list(range(N))
        def find(a):
            while comp[a] != a: a = comp[a]
            return a
        for t in jn:
            for (i, j), dx in t: comp[find(i)] = find(j)
        if len({find(a) for a in range(N)}) != 1: continue
        rho = np.ones(N) / N
        D = exact_unitcell_D(N, jn, rho, [[1.0] * len(t) for t in jn], crys.dim)
        if np.linalg.eigvalsh(0.5 * (D + D.T)).min() > 1e-6:
            opts.append((cut, jn))
            if len(opts) >= maxshell: break
    if not opts: return None
    cut, jn = opts[0] if rng.random() < 0.6 else rng.choice(opts)
    return cut, sl, jn


def dyadic(rng, lo, hi, bits=6):
    """random multiple of 2^-bits in [lo, hi] (exactly representable, small as a rational)"""
    s = 1 << bits
    return rng.randint(int(math.ceil(lo * s)), int(math.floor(hi * s))) / s


def shuffled(crys, rng):
    """the same crystal with the atoms of every species listed in a random order (Wyckoff sets then interleave:
    sitelist() is no longer made of contiguous ascending index blocks)"""
    basis = []
    for atoms in crys.basis:
        ul = [u.copy() for u in atoms]
        rng.shuffle(ul)
        basis.append(ul)
    try:
        c2 = crystal.Crystal(crys.lattice, basis, chemistry=crys.chemistry)
    except Exception:
        return crys
    return c2 if (c2.N == crys.N and len(c2.G) == len(crys.G)) else crys


def pool(rng, n, dims=(2, 3), names=None, random_frac=0.5, nchem_max=2, maxatoms=3, shuffle_frac=0.5):
    """yield n (label, crys, chem) drawn from named lattices and random crystals; with probability shuffle_frac the
    atoms of each species are listed in a random order"""
    names = names or ([x for x in NAMES2 if 2 in dims] + [x for x in NAMES3 if 3 in dims])
    out = 0
    tries = 0
    while out < n and tries < 20 * n:
        tries += 1
        if rng.random() >= random_frac:
            nm = rng.choice(names)
            crys, chem = named(nm)
            if crys.N > 1 and rng.random() < shuffle_frac:
                crys = shuffled(crys, rng); nm = nm + "~perm"
            yield nm, crys, chem; out += 1
        else:
            r = random_crystal(rng, rng.choice(list(dims)), maxatoms=maxatoms, nchem=rng.randint(1, nchem_max))
            if r is None: continue
            sysm, crys = r
            chem = rng.randrange(crys.Nchem)
            if crys.N > 1 and rng.random() < shuffle_frac: crys = shuffled(crys, rng)
            yield "rand-" + sysm, crys, chem; out += 1


def rationalize(x, maxden=5040, tol=1e-9):
    f = fractions.Fraction(float(x)).limit_denominator(maxden)
    if abs(float(f) - float(x)) > tol: return None
    return f
