"""C17  Taylor-expansion change of variables and inversion are exact (onsager/PowerExpansion.py, used by GFcalc).

Proof: coq/Properties/C17.v -- for the class constant Lmax = 4, Taylor3D and Taylor2D: for EVERY square matrix A
over every ordered ring (no invertibility / orthogonality needed), every coefficient space and every
parity-consistent expansion, rotatecoeff(rotatedirections(A)) read at p equals the original read at A p
(46 + 22 polynomial identities in the entries of A and p, by ring, lifted by linearity); the homogeneous reading
equals Taylor.__call__ with f_n = r^n; the Neumann-series identities behind inversecoeff in any unital (non
commutative) ring, left and right (`_partial`: the link between the model's inversecoeff with its interleaved
truncations and the truncated series is tested, not proved).

Tie to /repo on every run:
 (X) exact: rotatedirections(A) for random dyadic non-orthogonal A compared entry by entry with the model's table
     (inside Coq, over Qc); rotate / irotate of random parity-consistent dyadic expansions (scalar / matrix, 2-D / 3-D)
     compared coefficientwise; inv(Nmax) compared with the model's inversecoeff (exact rational inverse of the
     leading matrix supplied and checked inside Coq; tolerance 1e-11 * scale for numpy.linalg.inv);
 (F) direct evaluator, 1e-10 * scale: random invertible non-orthogonal A (also GFcalc's own qptrans), random
     float/complex parity-consistent expansions: rotated(p) = original(A p) with an evaluator written from the
     definition; inv(a) * a and a * inv(a) = identity through the requested order, order by order.  One
     evaluation point array (|p| != 1) is handed to all expansions of a case; every library call must leave its
     arguments (points, operands, A, npowtrans) bit-identical (key c17-input-mutated).
 (V) value semantics / histories: inv and rotate return fresh objects; inv / rotate / reduce repeated on one object after
     every kind of in-place modification equal the query on a fresh copy, and inv(T)*T = 1 for the modified T."""
META = dict(
    level="proof",
    text=("Coq theorems: rotatedirections/rotatecoeff is the exact change of variables for every matrix A, every ordered ring, "
          "every module, every parity-consistent expansion (Lmax=4, 3-D and 2-D); homogeneous reading = evaluation; Neumann identities "
          "(left and right) in any unital ring. Tie: exact comparison of rotation tables and rotated / inverted expansions with the "
          "model inside Coq, float evaluator for rotation and for inv(a)*a = 1 through the requested order."),
    note=("Rotation: full for the class constant Lmax=4 (closed under the global context). Inversion: `_partial` -- the ring identity "
          "is proved in any ring, the model's inversecoeff (Neumann loop with interleaved truncation, clamped l) is compared with the "
          "implementation on every run, but 'model inversecoeff = truncated series' is not proved in Coq. numpy.linalg.inv is outside "
          "the model (the exact inverse is an input, checked Ainv*A = 1 inside Coq). Inputs whose inverse needs products beyond "
          "l = Lmax are outside the domain (documented 'caveat emptor' of inversecoeff; reported as a note). Finding c17-inv-real-dtype "
          "(inv raised on real-dtype input; fixed in /repo 38bef61) is re-tested by a deterministic probe on every run."),
    technique="Coq proof (finite ring identities lifted by linearity; non-commutative ring identity) + exact correspondence over Qc",
)

import numpy as np
from fractions import Fraction
from . import taylorcase as tc
from .lib import CoqFailure
from .c16 import Batch, xtype, rand_float_expansion, absscale

FTOL = 1e-10


def rand_dyadic_matrix(rng, d, bits=1, span=2):
    while True:
        A = np.array([[tc.dy(rng, bits, span) for _ in range(d)] for _ in range(d)])
        if abs(np.linalg.det(A)) > 0.2 and not np.allclose(A @ A.T, np.eye(d) * (A @ A.T)[0, 0]):
            return A


def parity_nl(rng, count, distinct=True):
    out = []
    for _ in range(20):
        if len(out) >= count: break
        n = rng.randint(0, 4)
        l = rng.choice([x for x in range(n + 1)])
        if distinct and any(n == m for m, _ in out): continue
        out.append((n, l))
    return out


def parity_expansion(rng, d, shape, nl, density=0.5):
    return [(n, l, tc.rand_coeff(rng, d, l, shape, density=density, parity_of=n, force=False)) for n, l in nl]


def frac_inverse(M):
    """exact inverse of a small matrix of doubles (Fractions), Gauss-Jordan"""
    k = len(M)
    A = [[Fraction(float(x)) for x in row] + [Fraction(int(i == j)) for j in range(k)] for i, row in enumerate(M)]
    for c in range(k):
        piv = next(r for r in range(c, k) if A[r][c] != 0)
        A[c], A[piv] = A[piv], A[c]
        pv = A[c][c]; A[c] = [x / pv for x in A[c]]
        for r in range(k):
            if r != c and A[r][c] != 0:
                f = A[r][c]; A[r] = [x - f * y for x, y in zip(A[r], A[c])]
    return [row[k:] for row in A]


# ============================================================================================
def typed_parity_expansion(rng, d, shape, nl, dtype):
    ex = tc.exponents(d, tc.LMAX)
    out = []
    for n, l in nl:
        c = tc.rand_typed(rng, dtype, (tc.npow_count(d, l),) + tuple(shape), density=0.5, nonreal=False)
        for p in range(c.shape[0]):
            if (n - sum(ex[p])) % 2 != 0: c[p] = 0
        out.append((n, l, c))
    return out


def scenario_rotation(rng, Ts, d, B, ncoef, Adtype="float"):
    """coefficient dtypes int / float / complex (cycled), matrix dtype float (dyadic) or int; complex coefficients reach the
    (real) model through the real embedding (re, im stacked: rotation acts on both alike)"""
    T = Ts[d]
    if Adtype == "int":
        while True:
            A = np.array([[rng.randint(-2, 2) for _ in range(d)] for _ in range(d)], dtype=np.int64)
            if abs(np.linalg.det(A)) > 0.5 and np.count_nonzero(A) > d: break
    else:
        A = rand_dyadic_matrix(rng, d)
    with tc.unchanged("exact tier: rotatedirections", A=A): npt = T.rotatedirections(A)
    N = int(T.Npower)
    tab = B.define("(rotatedirections QK %d 4 %s)" % (d, tc.qmat(A)), "list (list (list QK))")
    den = tc.common_den([npt])
    lit = "[" + ";".join("(zmatq %d%%positive [%s]%%Z)" % (den, ";".join(tc.zlist(tc.ints(row, den)) for row in npt[n])) for n in range(tc.LMAX + 1)) + "]"
    B.add("code true (leqb tabeq %s %s)" % (tab, lit), op="rotatedirections[%s matrix]" % Adtype, inp={"dim": d, "A": A.tolist()},
          impl="table %dx%dx%d" % (tc.LMAX + 1, N, N), dim=d, shape=(), size=1, nontrivial=True)
    # history independence: a second, NEARBY matrix (one entry moved by 2^-21, inside np.allclose of the first) right after the
    # first call must get its own table (compared with the model's exact table for the second matrix, 1e-12)
    A2 = np.array(A, dtype=float); i2, j2 = rng.randrange(d), rng.randrange(d); A2[i2, j2] += 2.0 ** -21
    with tc.unchanged("exact tier: rotatedirections (nearby matrix)", A=A2): npt2 = T.rotatedirections(A2)
    lit2 = "[" + ";".join("(zmatq %d%%positive [%s]%%Z)" % (tc.GRID, ";".join(tc.zlist(tc.grid_ints(row, tc.GRID)) for row in npt2[n])) for n in range(tc.LMAX + 1)) + "]"
    B.add("code true (leqb (tabclose (qq 1 1000000000000)) (rotatedirections QK %d 4 %s) %s)" % (d, tc.qmat(A2), lit2),
          op="rotatedirections-after-nearby-matrix", inp={"dim": d, "A_first": np.asarray(A).tolist(), "A_second": A2.tolist()},
          impl="table %dx%dx%d" % (tc.LMAX + 1, N, N), dim=d, shape=(), size=1, nontrivial=True)
    with tc.unchanged("exact tier: rotatedirections (first matrix again)", A=A): npt = T.rotatedirections(A)
    for k in range(ncoef):
        cdt = tc.DTYPES[k % 3]
        shape = rng.choice([(), (), (2, 2), (1, 2)]); n = tc.nflat(shape)
        a = typed_parity_expansion(rng, d, shape, parity_nl(rng, rng.choice([1, 2, 3]), distinct=rng.random() < .7), cdt)
        if not a: continue
        V = "(pwmod QK %d)" % (2 * n)
        An = B.define(tc.mkx(2 * n, tc.fstackc(a)), xtype(2 * n))
        dom = "(wfb QK %d 4 %s %s && forallb (parity_okb_entry QK %d 4 %s) %s)" % (d, V, An, d, V, An)
        ta = T(a)
        ajs = [[nn, l, repr(np.asarray(c).tolist())] for nn, l, c in a]
        with tc.unchanged("exact tier: rotate", a=ta, npowtrans=npt): res = tc.fstackc(ta.rotate(npt).coefflist)
        t2 = T(a)
        with tc.unchanged("exact tier: irotate", npowtrans=npt): t2.irotate(npt)
        res2 = tc.fstackc(t2.coefflist)
        for op, r in (("rotate", res), ("irotate", res2)):
            B.add("code %s (ocmp %d (peqb QK %d) (rotatecoeff QK %d 4 %s %s %s) %s)" % (dom, 2 * n, 2 * n, d, V, tab, An, tc.mkx(2 * n, r)),
                  op="%s[%s coeff, %s matrix]" % (op, cdt, Adtype), inp={"dim": d, "A": A.tolist(), "shape": list(shape), "coef_dtype": cdt, "a": ajs},
                  impl=tc.jsonable(r), dim=d, shape=shape, size=len(a), nontrivial=any(np.any(c != 0) for _, _, c in a))


def gen_invertible(rng, d, k, scalar):
    """expansion with isotropic invertible leading term and tail whose Neumann powers stay within Lmax"""
    n0 = rng.choice([-1, 0, 0, 2, 2])
    rel = rng.choice([0, 1, 2])                 # requested order relative to the leading order of the inverse
    shape = () if scalar else (k, k)
    while True:
        lead = np.array([[tc.dy(rng, 1, 2) for _ in range(k)] for _ in range(k)])
        if abs(np.linalg.det(lead)) >= 0.5: break
    # tail orders n0 + delta; Nseries = rel // min(delta); every product tail^i (i <= Nseries) must keep l <= 4,
    # and (inverse) * a as well for the evaluator
    deltas = sorted(set(rng.choice([1, 1, 2, 3]) for _ in range(rng.choice([1, 2]))))
    nser = max(rel // deltas[0], 1)
    lcap = min(4 // (nser + 1), 2)
    tail = []
    for dl in deltas:
        l = rng.randint(0, lcap)
        c = tc.rand_coeff(rng, d, l, (k, k), density=0.5)
        tail.append((n0 + dl, l, c))
    leadc = lead.reshape((1, k, k))
    a = [(n0, 0, leadc)] + tail
    if scalar: a = [(n, l, c.reshape(c.shape[0])) for n, l, c in a]
    return a, lead, -n0 + rel, shape


def gen_unsorted(rng, d, k, scalar):
    """[(n0,0,A), (n0+2,l2,B2), (n0+1,l1,B1)] in every order but the sorted one, requested order 2 relative to the leading one:
    the Neumann series needs Nseries = 2 terms, which an implementation that does not sort its input gets wrong"""
    n0 = rng.choice([-1, 0, 2])
    while True:
        lead = np.array([[tc.dy(rng, 1, 2) for _ in range(k)] for _ in range(k)])
        if abs(np.linalg.det(lead)) >= 0.5: break
    a = [(n0, 0, lead.reshape((1, k, k))), (n0 + 1, rng.randint(0, 1), None), (n0 + 2, rng.randint(0, 1), None)]
    a = [(n, l, c if c is not None else tc.rand_coeff(rng, d, l, (k, k), density=0.7)) for n, l, c in a]
    if scalar: a = [(n, l, c.reshape(c.shape[0])) for n, l, c in a]
    order = rng.choice([(0, 2, 1), (2, 1, 0), (1, 0, 2), (2, 0, 1), (1, 2, 0)])
    return [a[i] for i in order], lead, -n0 + 2, (() if scalar else (k, k))


def scenario_inverse(rng, Ts, d, B, unsorted=False):
    T = Ts[d]
    scalar = rng.random() < .35
    k = 1 if scalar else rng.choice([1, 2, 2])
    if unsorted:
        a, lead, Nmax, shape = gen_unsorted(rng, d, k, scalar)
    else:
        a, lead, Nmax, shape = gen_invertible(rng, d, k, scalar)
        rng.shuffle(a)                               # inversecoeff sorts its input itself
    n = k * k
    ta = T([(nn, l, c.astype(complex)) for nn, l, c in a])
    with tc.unchanged("exact tier: inv", a=ta): res = tc.real_coefflist(ta.inv(Nmax))
    Ainv = frac_inverse(lead)
    V = "(pwmod QK %d)" % n
    An = B.define(tc.mkx(n, a), xtype(n))
    Ai = B.define("(pw_of_list QK %d %s)" % (n, tc.qlist([x for row in Ainv for x in row])), "pw QK %d" % n)
    Al = tc.mkv(n, lead)
    scale = 1.0 + max(float(np.abs(c).max()) for _, _, c in res)
    tol = tc.qlit(Fraction(1e-11 * scale))
    dom = ("(wfb QK %d 4 %s %s && peqb QK %d (matmul QK %d %d %d %s %s) (pw_of_list QK %d %s))" %
           (d, V, An, n, k, k, k, Ai, Al, n, tc.qlist([Fraction(int(i == j)) for i in range(k) for j in range(k)])))
    B.add("code %s (ocmp %d (pclose %d %s) (inversecoeff QK %d 4 %s (matmul QK %d %d %d) %s %s %s%%Z) %s)" %
          (dom, n, n, tol, d, V, k, k, k, An, Ai, tc.zlit(Nmax), tc.mkx_grid(n, res)),
          op="inv[unsorted list]" if unsorted else "inv", inp={"dim": d, "shape": list(shape), "a": tc.jsonable(a), "Nmax": Nmax}, impl=tc.jsonable(res),
          dim=d, shape=shape, size=len(a), nontrivial=len(res) > 1, tol=1e-11 * scale)


def exact_tier(ck, Ts):
    rng = ck.rng
    B = Batch()
    for g in range(ck.n(6, 60)):
        d = 3 if g % 2 == 0 else 2
        try:
            scenario_rotation(rng, Ts, d, B, ck.n(3, 6), Adtype=("int" if g % 3 == 2 else "float"))
        except (ArithmeticError, ValueError, TypeError, IndexError) as e:
            ck.violation("implementation raised %s: %s in rotation" % (type(e).__name__, e), {"dim": d, "group": g}, key="c17-exception-rotate")
    for g in range(ck.n(24, 500)):
        d = rng.choice([3, 2])
        try:
            scenario_inverse(rng, Ts, d, B, unsorted=(g % 3 == 0))
        except (ArithmeticError, ValueError, TypeError, IndexError) as e:
            ck.violation("implementation raised %s: %s in inv" % (type(e).__name__, e), {"dim": d, "group": g}, key="c17-exception-inv")
    import re as _re
    try:
        codes = []
        per = 40
        for a in range(0, len(B.terms), per):
            used = set()
            for t in B.terms[a:a + per]: used.update(_re.findall(r"\bv\d+\b", t))
            defs = [dl for dl in B.defs if dl.split()[1] in used]
            codes += tc.run_codes(ck, "rot%d" % a, defs, B.terms[a:a + per], chunk=per)
    except CoqFailure as e:
        ck.broken_proof = "correspondence Model/Taylor (rotation / inversion): %s" % e
        codes = []
    nsamp = {}
    for meta, c in zip(B.meta, codes):
        samp = None
        if nsamp.get(meta["op"].split("[")[0], 0) < 1 and meta["nontrivial"] and meta["op"].split("[")[0] in ("rotate", "inv"):
            samp = {"tier": "exact", "op": meta["op"], "input": meta["inp"], "impl_result": meta["impl"]}; nsamp[meta["op"].split("[")[0]] = 1
        ck.case(key=(meta["op"], meta["inp"]), nontrivial=bool(meta["nontrivial"]),
                kind="exact:%s:%dD:%s" % (meta["op"], meta["dim"], "scalar" if meta["shape"] == () else "matrix"), sample=samp)
        if c == 1:
            raise RuntimeError("harness generated an input outside the model's domain: %r %r" % (meta["op"], meta["inp"]))
        if c != 0:
            ck.violation("exact correspondence: %s of Taylor%dD differs from the model" % (meta["op"], meta["dim"]),
                         {"op": meta["op"], "input": meta["inp"], "impl_result": meta["impl"], "model_code": c,
                          "tolerance": meta.get("tol", 0)}, key="c17-exact-%s" % meta["op"].split("[")[0])
    ck.extra["exact_cases"] = len(codes)
    ck.extra["traces_validated_against_impl"] = len(codes)


# ============================================================================================
def rand_float_parity(nr, rng, d, shape, nl, cplx):
    out = []
    ex = tc.exponents(d, tc.LMAX)
    for n, l in nl:
        sh = (tc.npow_count(d, l),) + tuple(shape)
        if cplx == "int": c = nr.integers(-3, 4, size=sh)
        else:
            c = nr.normal(size=sh)
            if cplx is True or cplx == "complex": c = c + 1j * nr.normal(size=sh)
        for p in range(sh[0]):
            if (n - sum(ex[p])) % 2 != 0: c[p] = 0
        out.append((n, l, c))
    return out


def gf_matrices(ck):
    """the change-of-variables matrices GFcalc itself builds (qptrans of a few crystals)"""
    mats = []
    try:
        from onsager import crystal, GFcalc
        for crys in (crystal.Crystal.HCP(1., 1.7), crystal.Crystal(np.array([[1., .3], [0., 1.2]]), [np.zeros(2)])):
            sl = crys.sitelist(0)
            jn = crys.jumpnetwork(0, 1.01 * max(np.linalg.norm(crys.lattice, axis=0)))
            g = GFcalc.GFCrystalcalc(crys, 0, sl, jn, Nmax=2)
            g.SetRates(np.ones(len(sl)), np.zeros(len(sl)), np.ones(len(jn)), np.linspace(0.3, 0.9, len(jn)))
            mats.append((crys.dim, np.array(g.qptrans)))
    except Exception as e:   # building a GF is not what this property is about; only its matrices are borrowed
        ck.note("GFcalc matrices not available (%s: %s)" % (type(e).__name__, e))
    return mats


def float_tier(ck, Ts):
    rng = ck.rng; nr = ck.nprng(17)
    worst = 0.0
    gfm = gf_matrices(ck)
    ck.extra["gfcalc_qptrans_used"] = len(gfm)
    nrot = ck.n(60, 3000)
    for it in range(nrot):
        if it < len(gfm): d, A = gfm[it]; src = "GFcalc.qptrans"
        else:
            d = rng.choice([3, 2]); src = "random"
            while True:
                A = nr.integers(-2, 3, size=(d, d)) if rng.random() < .15 else nr.normal(size=(d, d))     # int matrices as well
                if np.linalg.cond(A) < 20: break
        T = Ts[d]
        cplx = rng.choice(["int", "float", "float", "complex"])
        src += ":%s-coeff:%s-A" % (cplx, "int" if A.dtype.kind == "i" else "float")
        shape = rng.choice([(), (2, 2), (1, 3)])
        nl = parity_nl(rng, rng.randint(1, 4), distinct=rng.random() < .6)
        a = rand_float_parity(nr, rng, d, shape, nl, cplx)
        p = nr.normal(size=d); p *= rng.choice([rng.uniform(0.4, 0.8), rng.uniform(1.25, 2.5)]) / np.linalg.norm(p)
        q = A @ p; porig = p.copy()
        try:
            ta = T(a)
            with tc.unchanged("rotatedirections", A=A): npt = T.rotatedirections(A)
            with tc.unchanged("rotate", a=ta, npowtrans=npt): rot = ta.rotate(npt)
            irot = T(a)
            with tc.unchanged("irotate", npowtrans=npt): irot.irotate(npt)
            # one evaluation point p (|p| != 1), handed to every expansion as the same array object
            lhs1, lhs2 = tc.impl_value(rot, p), tc.impl_value(irot, p)
            # the rotated expansion must also survive reduce() (GFcalc reduces right after rotating)
            lhs3 = tc.impl_value(ta.rotate(npt).reduce(), p)
        except (ArithmeticError, ValueError, TypeError, IndexError) as e:
            ck.violation("implementation raised %s: %s in rotate" % (type(e).__name__, e),
                         {"dim": d, "A": A.tolist(), "nl": nl, "iteration": it}, key="c17-float-exception-rotate")
            continue
        if it % 4 == 0:
            # history: a matrix within np.allclose of the previous one must not be served the previous table
            A2 = np.array(A, dtype=float) * (1 + 6e-6 * nr.uniform(-1, 1, size=(d, d)))
            try:
                with tc.unchanged("rotatedirections (nearby matrix)", A=A2): npt2 = T.rotatedirections(A2)
                l4 = tc.impl_value(T(a).rotate(npt2), p)
                r4 = tc.value(a, A2 @ porig, d)
                e4 = float(np.max(np.abs(np.asarray(l4) - np.asarray(r4)))) / (1 + absscale(a, float(np.linalg.norm(A2 @ porig))))
                worst = max(worst, e4)
                ck.case(key=("float", "rotate-nearby", it), nontrivial=True, kind="float:rotate-after-nearby-matrix:%dD" % d)
                if not (e4 <= FTOL):
                    ck.violation("history dependence: rotatedirections(A2) called right after rotatedirections(A) with |A2-A| ~ 6e-6|A| gives a rotation "
                                 "that differs from the original at A2 p by %.3g (relative to scale)" % e4,
                                 {"dim": d, "A": np.asarray(A).tolist(), "A2": A2.tolist(), "nl": nl, "p": porig.tolist(), "iteration": it, "seed": ck.seed},
                                 key="c17-rotatedirections-history")
            except (ArithmeticError, ValueError, TypeError, IndexError) as e:
                ck.violation("implementation raised %s: %s in rotatedirections (nearby matrix)" % (type(e).__name__, e),
                             {"dim": d, "A2": A2.tolist()}, key="c17-float-exception-rotate")
        rhs = tc.value(a, A @ porig, d)              # definition-level evaluation of the original at A p (original point)
        rhs_impl = tc.impl_value(T(a), q)
        sc = 1 + absscale(a, float(np.linalg.norm(q))) * max(1.0, np.linalg.norm(A, 2)) ** 0
        for label, lhs in (("rotate", lhs1), ("irotate", lhs2), ("rotate.reduce", lhs3)):
            err = max(float(np.max(np.abs(np.asarray(lhs) - np.asarray(rhs)))), float(np.max(np.abs(np.asarray(lhs) - np.asarray(rhs_impl))))) / sc
            worst = max(worst, err)
            ck.case(key=("float", label, it), nontrivial=True, kind="float:%s:%dD:%s" % (label, d, src),
                    sample={"tier": "float", "op": label, "dim": d, "A": A.tolist(), "nl": nl, "p": p.tolist(), "rel_err": err} if it == len(gfm) and label == "rotate" else None)
            if not (err <= FTOL):
                ck.violation("float evaluator: %s evaluated at p differs from the original at A p by %.3g (relative to scale)" % (label, err),
                             {"op": label, "dim": d, "A": A.tolist(), "a": [[n, l, np.asarray(c).tolist()] for n, l, c in a] if cplx != "complex" else "complex",
                              "nl": nl, "p": p.tolist(), "lhs": np.asarray(lhs).tolist(), "rhs": np.asarray(rhs).tolist(),
                              "iteration": it, "seed": ck.seed}, key="c17-float-%s" % label.split(".")[0])
    # inversion: inv(a) * a = 1 through the requested order, order by order
    ninv = ck.n(60, 3000)
    outside = 0
    for it in range(ninv):
        d = rng.choice([3, 2]); T = Ts[d]
        scalar = rng.random() < .3
        k = 1 if scalar else rng.choice([1, 2, 3])
        if it % 3 == 0: a, lead, Nmax, shape = gen_unsorted(rng, d, k, scalar)
        else:
            a, lead, Nmax, shape = gen_invertible(rng, d, k, scalar); rng.shuffle(a)
        # float perturbation of every coefficient (keeps the leading term invertible and isotropic)
        a = [(n, l, (c + 0.05 * nr.normal(size=c.shape)).astype(complex)) for n, l, c in a]
        if rng.random() < .3: a = [(n, l, c + 0.05j * nr.normal(size=c.shape)) for n, l, c in a]
        n0 = min(n for n, _, _ in a)
        u = nr.normal(size=d); u *= rng.uniform(0.7, 1.5) / np.linalg.norm(u)
        try:
            ta = T(a)
            with tc.unchanged("inv", a=ta): inv = ta.inv(Nmax)
            inv_sorted = T(sorted(a, key=lambda e: (e[0], e[1]))).inv(Nmax)
            if not tc.same_expansion(inv, inv_sorted, 1e-11):
                ck.violation("order dependence: inv(Nmax=%d) of a coefficient list given in the order n = %s differs from inv of the same list sorted"
                             % (Nmax, [n for n, _, _ in a]), {"dim": d, "a": [[n, l, np.asarray(c).tolist()] for n, l, c in a], "Nmax": Nmax},
                             key="c17-unsorted-inv")
            with tc.unchanged("inv(a)*a", a=ta, inv=inv): pl = inv * ta; pr = ta * inv
            left = tc.impl_value(pl, u, per_order=True)
            right = tc.impl_value(pr, u, per_order=True)
        except (ArithmeticError, ValueError, TypeError, IndexError) as e:
            ck.violation("implementation raised %s: %s in inv" % (type(e).__name__, e),
                         {"dim": d, "a": [[n, l, np.asarray(c).tolist()] for n, l, c in a], "Nmax": Nmax}, key="c17-float-exception-inv")
            continue
        ident = 1.0 if scalar else np.eye(k)
        sc = (1 + sum(float(np.abs(c).sum()) for _, _, c in a)) * (1 + sum(float(np.abs(c).sum()) for _, _, c in inv.coefflist))
        err = 0.0
        for prod in (left, right):
            for n, v in prod.items():
                if n > Nmax + n0: continue              # beyond the requested order
                target = ident if n == 0 else 0 * ident
                err = max(err, float(np.max(np.abs(np.asarray(v) - target))) / sc)
            if 0 not in prod: err = max(err, 1.0)
        worst = max(worst, err)
        ck.case(key=("float", "inv", it), nontrivial=len(inv.coefflist) > 1, kind="float:inv:%dD:%s:order%d" % (d, "scalar" if scalar else "matrix%d" % k, Nmax + n0),
                sample={"tier": "float", "op": "inv", "dim": d, "nl": [(n, l) for n, l, _ in a], "Nmax": Nmax, "rel_err": err} if it == 0 else None)
        if not (err <= FTOL):
            ck.violation("float evaluator: inv(a)*a (or a*inv(a)) differs from the identity through order %d by %.3g" % (Nmax + n0, err),
                         {"dim": d, "a": [[n, l, np.asarray(c).tolist()] for n, l, c in a], "Nmax": Nmax, "u": u.tolist(),
                          "left": {str(n): np.asarray(v).tolist() for n, v in left.items()}, "iteration": it, "seed": ck.seed}, key="c17-float-inv")
    ck.extra["float_worst_rel_err"] = worst
    # documented caveat: a tail of order l = 3 squared needs l = 6 > Lmax
    T = Ts[3]
    c1 = np.zeros(20, dtype=complex); c1[19] = 1.0
    a = T([(0, 0, np.array([1.0 + 0j])), (1, 3, c1)])
    u = np.array([0.6, 0.0, 0.8])
    got = tc.impl_value(a.inv(2), u, per_order=True).get(2, 0)
    ck.extra["outside_domain_demo"] = {"a": "1 + r x^3", "Nmax": 2, "order2_of_inv(a)": float(np.real(got)), "exact": 0.6 ** 6}
    ck.note("outside the domain (Neumann power needs l=6>Lmax, 'caveat emptor' in the docstring of inversecoeff): order-2 part of "
            "inv(1 + r x^3) at x=0.6 is %.6g, exact x^6 = %.6g" % (float(np.real(got)), 0.6 ** 6))


def semantics_tier(ck, Ts):
    """value semantics / history independence of the memoisable queries inv() and rotate() (and the class-level rotation table):
    the result is a fresh object (no memory shared with the expansion, mutating it leaves the expansion unchanged); and on ONE
    object: query, in-place modification by every route (+=, -=, T[i,j] = S, T[i:j,i:j] += dV through a slice view, in-place
    scalar product, direct array edit, ildot, irdot), query again == query of a fresh copy of the modified object, and for inv
    additionally inv(T) * T = 1 through the requested order for the MODIFIED T."""
    rng = ck.rng; nr = ck.nprng(19)
    for it in range(ck.n(16, 240)):
        d = 3 if it % 2 == 0 else 2; T = Ts[d]
        k = 2
        a, lead, Nmax, shape = gen_invertible(rng, d, k, False)
        a = [(n, l, (c + 0.05 * nr.normal(size=c.shape)).astype(complex)) for n, l, c in a]
        n0 = min(n for n, _, _ in a)
        route = tc.ROUTES[it % len(tc.ROUTES)]
        u = nr.normal(size=d); u *= 1.3 / np.linalg.norm(u)

        def inverse_ok(t, inv, _Nmax=Nmax, _n0=n0, _d=d, _route=route):
            prod = tc.impl_value(inv * t, u, per_order=True)
            sc = (1 + sum(float(np.abs(c).sum()) for _, _, c in t.coefflist)) * (1 + sum(float(np.abs(c).sum()) for _, _, c in inv.coefflist))
            err = max([float(np.max(np.abs(np.asarray(v) - (np.eye(k) if n == 0 else 0)))) / sc for n, v in prod.items() if n <= _Nmax + _n0] + [0.0 if 0 in prod else 1.0])
            if not err <= FTOL:
                ck.violation("history: after the in-place modification '%s' inv(T)*T differs from 1 through the requested order by %.3g" % (_route, err),
                             {"dim": _d, "route": _route, "Nmax": _Nmax}, key="c17-history-inv")
        try:
            t = T(a)
            tc.alias_case(ck, "c17", "inv[%dD]" % d, t.inv(Nmax), {"a": t}, T, nr, rng)
            tc.alias_case(ck, "c17", "inv twice[%dD]" % d, t.inv(Nmax), {"a": t, "first inverse": t.inv(Nmax)}, T, nr, rng)
            t = T(a)
            tc.history_case(ck, "c17", "inv(Nmax)", lambda x: x.inv(Nmax), t, route, T, nr, rng, extra_check=inverse_ok)
            # two modifications in a row, and a different Nmax in between
            t = T(a); t.inv(Nmax); t.inv(Nmax + 1)
            tc.history_case(ck, "c17", "inv(Nmax)", lambda x: x.inv(Nmax), t, tc.ROUTES[(it + 3) % len(tc.ROUTES)], T, nr, rng, extra_check=inverse_ok)
            # rotation of one object before / after an in-place modification, same table
            A = nr.normal(size=(d, d))
            npt = T.rotatedirections(A)
            b = rand_float_parity(nr, rng, d, (k, k), [(n, n) for n in sorted(set(rng.randint(0, 4) for _ in range(3)))], "complex")
            t = T(b)
            tc.alias_case(ck, "c17", "rotate[%dD]" % d, t.rotate(npt), {"a": t}, T, nr, rng)
            tc.history_case(ck, "c17", "rotate(npowtrans)", lambda x: x.rotate(npt), t, route, T, nr, rng)
            t = T(b)
            tc.history_case(ck, "c17", "reduce", lambda x: x.copy().reduce(), t, route, T, nr, rng)
            # the table itself must not be handed out twice as the same array (a caller may scale it)
            n1 = T.rotatedirections(A); n2 = T.rotatedirections(A)
            ck.case(key=("table-alias", it), nontrivial=True, kind="fresh-result:rotatedirections")
            if np.shares_memory(n1, n2):
                ck.violation("rotatedirections(A) called twice returns arrays sharing memory", {"dim": d, "A": A.tolist()}, key="c17-result-aliases-operand")
        except (ArithmeticError, ValueError, TypeError, IndexError) as e:
            ck.violation("implementation raised %s: %s in the history / value-semantics tier (route %s)" % (type(e).__name__, e, route),
                         {"dim": d, "route": route, "Nmax": Nmax}, key="c17-exception-semantics")


def real_dtype_probe(ck, Ts):
    """inv() of an expansion given with REAL coefficient arrays (deterministic inputs): the Neumann loop adds complex
    products in place into the real leading term"""
    for d in (3, 2):
        T = Ts[d]
        for label, a, Nmax in (("scalar", [(0, 0, np.array([2.0])), (1, 0, np.array([1.0])), (2, 0, np.array([-1.0]))], 2),
                               ("int-scalar", [(0, 0, np.array([2])), (1, 0, np.array([1])), (2, 0, np.array([-1]))], 2),
                               ("matrix", [(0, 0, np.array([[[2.0, 0.5], [0.0, 1.0]]])), (1, 0, np.array([[[1.0, 0.0], [0.5, 1.0]]])),
                                           (2, 0, np.array([[[0.0, 1.0], [1.0, 0.5]]]))], 2)):
            ck.case(key=("real-dtype", d, label), nontrivial=True, kind="probe:inv-real-dtype:%dD" % d)
            try:
                inv = T(a).inv(Nmax)
                prod = tc.impl_value(inv * T(a), np.array([0.3, 0.4, 0.5][:d]), per_order=True)
                ident = 1.0 if label.endswith("scalar") else np.eye(2)
                err = max(float(np.max(np.abs(np.asarray(v) - (ident if n == 0 else 0 * ident)))) for n, v in prod.items() if n <= Nmax)
                if not err <= FTOL:
                    ck.violation("inv() of a real-dtype expansion: inv(a)*a differs from 1 by %.3g" % err,
                                 {"dim": d, "a": [[n, l, c.tolist()] for n, l, c in a], "Nmax": Nmax}, key="c17-inv-real-dtype")
            except (ArithmeticError, ValueError, TypeError, IndexError) as e:
                ck.violation("Taylor%dD.inv(Nmax=%d) raises %s on an expansion with real (float64) coefficient arrays: %s"
                             % (d, Nmax, type(e).__name__, str(e)[:160]),
                             {"dim": d, "a": [[n, l, c.tolist()] for n, l, c in a], "Nmax": Nmax,
                              "call": "Taylor%dD(a).inv(%d)" % (d, Nmax)}, key="c17-inv-real-dtype")
                break


def run(ck):
    ck.rule = ("(X) random dyadic non-orthogonal matrices A (entries k/2, |det|>0.2) in 2-D/3-D: whole rotatedirections table and "
               "rotate/irotate of random parity-consistent expansions (n in 0..4, l<=n, scalar / matrix coefficients), inv(Nmax) of "
               "random expansions with invertible isotropic leading matrix (k=1,2, leading order -1/0/2, requested relative order "
               "0..2, tail powers within Lmax) compared with the Coq model over Qc; (F) random float (real/complex) expansions and "
               "well-conditioned random A plus GFcalc's own qptrans, rotation and inversion checked by a definition-level evaluator; "
               "distinct = distinct (operation, inputs); non-trivial = non-zero input / inverse with more than the leading term")
    ck.trusted += ["harness/taylorcase.py + c17.py: Coq literal printing, comparison glue, exact Fraction inverse supplied to the model "
                   "(checked Ainv*A = 1 inside Coq)", "numpy.linalg.inv (outside the model)"]
    ck.theorems()
    Ts = tc.classes()
    exact_tier(ck, Ts)
    float_tier(ck, Ts)
    semantics_tier(ck, Ts)
    real_dtype_probe(ck, Ts)
    tc.flush_guard(ck, "c17")
