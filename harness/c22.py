"""C22  k-point mesh reduction integrates symmetric functions exactly.

Tie (every run): `fullkptmesh(Nmesh)` and `reducekptmesh` of crystals with rational metric are
mapped EXACTLY to integer reciprocal-lattice coordinates (k = B n / L, verified rounding), the
weights to integer counts (|w - c/N| <= 1e-12), the point group to integer matrices S^-T, and
the Coq decision `Model/KMesh.check_mesh` (soundness: C22_check_mesh_sound) re-derives every
orbit multiplicity and decides Brillouin-zone membership of every point for ALL reciprocal
lattice vectors.  Code 0 means: every point in the closed first BZ, counts positive and adding up
to N, and the weighted sum equal to the full-mesh mean for EVERY orbit-invariant function.
Direct evaluator: random invariant functions sum_{R in G-shell} cos(k.R) in floats (1e-10)."""
META = dict(
    level="proof",
    text=("Theorems (every mesh = list over any type, every class function, every ordered ring, EVERY class-invariant "
          "function): greedy representative selection and any reduction accepted by the checker valid_reductionb have "
          "positive counts adding up to the mesh size and integrate exactly (partition argument over lists); weights c/N "
          "give the full-mesh mean; the finite Brillouin-zone test inBZb is sound for all reciprocal lattice vectors "
          "(Cauchy-Schwarz range certificate); the decision check_mesh is sound. Tie: check_mesh evaluated by vm_compute on "
          "the implementation's fullkptmesh/reducekptmesh output in exact reciprocal-lattice coordinates for random "
          "crystals (2-D/3-D, all systems, lattice scales 0.5-5, even/odd/anisotropic meshes), plus float evaluation of "
          "random shell functions."),
    note=("Trusted: Coq kernel/vm_compute; harness conversion k -> n (rounding verified to 1e-7), weights -> counts (1e-12); "
          "the point group is read from crys.G (validated as isometries of the reciprocal metric by the checker; its "
          "completeness is C18). Orbit-invariant = constant on orbits of the listed operations acting on k without "
          "reciprocal-lattice translations (the implementation's notion). Float thresholds of reducekptmesh (1e-8) are not "
          "modelled; mesh points are rational so distinct points differ by far more."),
    technique="Coq proof (KMesh: partition theorem + verified BZ checker) + exact correspondence on fullkptmesh/reducekptmesh output",
)

import itertools, math
from fractions import Fraction
import numpy as np
from . import sitegen as sg
from .lib import CoqFailure, coq_Z, coq_list, coq_nat

# A user cell (noreduce) can be sheared so strongly that a zone facet needs a reciprocal coefficient beyond 3 (genBZG's
# historical candidate range, finding in design_notes/C22.md).  Such cells are judged like every other cell (violation keys
# c22-*-candidate-range-3); setting this flag to False would count and skip them instead.
JUDGE_BEYOND_RANGE3 = True

IMPORTS = """From Coq Require Import List ZArith.
From Onsager Require Import Model.Geom3 Model.KMesh.
Import ListNotations.
Local Open Scope Z_scope.
"""

MEANING = {1: "certificate rejected (harness/group inconsistency)", 2: "a point of the full mesh lies outside the first Brillouin zone",
           3: "a point of the reduced mesh lies outside the first Brillouin zone",
           4: "the reduced mesh is not a valid reduction (representatives equivalent, a weight differs from the orbit multiplicity, or a class is missing)"}


def recip_metric(ex):
    """integer matrix proportional to the reciprocal metric g^-1 (adjugate of the scaled metric)"""
    G = ex.Gs
    if ex.dim == 2:
        return [[G[1][1], -G[0][1]], [-G[0][1], G[0][0]]]
    adj, det = sg.adjdet6((G[0][0], G[1][1], G[2][2], G[1][2], G[0][2], G[0][1]))
    a11, a22, a33, a23, a13, a12 = adj
    return [[a11, a12, a13], [a12, a22, a23], [a13, a23, a33]]


def lexmin_class(Ts, n, dim):
    best = n
    for T in Ts:
        m = tuple([sum(T[i][j] * n[j] for j in range(dim)) for i in range(dim)] + [0] * (3 - dim))
        if m < best: best = m
    return best


def exact_facets(m6, dim):
    """Voronoi-relevant reciprocal lattice vectors (h/2 strictly closer to 0 than to any other lattice point), exact.
    A relevant h has |h| <= 2 * covering radius <= sum_i |b_i|, and (sum_i |b_i|)^2 <= dim * sum_i Q_ii =: c; all h with
    Q(h) <= c lie in the box certified by the Cauchy-Schwarz range certificate (Geom3.range_okb), any coefficients."""
    c = dim * sum(m6[:dim]) + 1
    m = list(m6)
    if dim == 2: m[2] = max(m[2], c + 1)
    m = tuple(m)
    hb = sg.min_box6(m, 1, c + 1, (0, 0, 0), dim)
    cand = [h for h in itertools.product(*[range(-a, a + 1) for a in hb]) if any(h) and sg.bil6(m, h, h) <= c]
    H = np.array(cand, dtype=object)
    g11, g22, g33, g23, g13, g12 = m
    QM = np.array([[g11, g12, g13], [g12, g22, g23], [g13, g23, g33]], dtype=object)
    M = H.dot(QM).dot(H.T)
    q = np.array([M[i, i] for i in range(len(cand))], dtype=object)
    out = set()
    for i, h in enumerate(cand):
        row = M[i]
        if all(row[j] < q[j] for j in range(len(cand)) if j != i): out.add(h)
    return out


def sheared_noreduce(crys, rng, via_dict):
    """the same crystal described in a NON-reduced cell (unimodular shear of the lattice vectors, positions transformed
    accordingly), constructed with noreduce=True (the default of Crystal.fromdict / YAML input)"""
    from onsager import crystal
    dim = crys.dim
    M = np.eye(dim, dtype=int)
    nsh = rng.choice([1, 2])
    for _ in range(nsh):
        i, j = rng.sample(range(dim), 2)
        E = np.eye(dim, dtype=int); E[i, j] = rng.choice([1, -1, 2, -2, 3] if nsh == 1 else [1, -1, 2, -2])
        M = M @ E
    A2 = crys.lattice @ M
    Mi = np.array(sg.int_inverse(M.tolist()))
    basis = [[crystal.incell(Mi @ u) for u in lst] for lst in crys.basis]
    if via_dict:
        return crystal.Crystal.fromdict({"lattice": A2.T, "basis": basis}), M
    return crystal.Crystal(A2, basis, noreduce=True), M


def mesh_case(ck, rng, label, crys, ex, Nmesh, history=None):
    dim = crys.dim
    res = dict(label=label, crys=repr(crys), Nmesh=list(Nmesh), nG=len(ex.ops), _crys=crys,
               orthogonal=bool(np.abs(crys.metric - np.diag(np.diag(crys.metric))).max() < 1e-12 * np.abs(crys.metric).max()))
    snap0 = sg.state_snapshot(crys)
    try:
        if history is not None:
            # an EARLIER call on the same object: a coarse mesh reduced with an explicit, loose tolerance
            kc = crys.fullkptmesh(history["Nmesh"])
            crys.reducekptmesh(kc, threshold=history["threshold"])
            res["history"] = "reducekptmesh(fullkptmesh(%s), threshold=%.6g) called before" % (history["Nmesh"], history["threshold"])
        kfull = crys.fullkptmesh(Nmesh)
        kfull0 = np.array(kfull, copy=True)
        kred, w = crys.reducekptmesh(kfull)
        for k in kfull0[:3]: crys.inBZ(k)
    except Exception as e:
        res["error"] = "%s: %s" % (type(e).__name__, e); return res
    res["state_diff"] = sg.state_diff(snap0, sg.state_snapshot(crys))
    Nk = int(np.prod(Nmesh))
    res.update(Nk=Nk, Nred=len(kred))
    L = 1                                   # the code's mesh is  f = 1/2 - j/N :  multiples of 1/(2N)
    for N in Nmesh: L = sg.lcm(L, 2 * int(N))
    def coords(k):
        f = np.dot(crys.lattice.T, k) / (2 * np.pi) * L
        n = np.round(f)
        if np.abs(f - n).max() > 1e-7: return None
        return tuple([int(x) for x in n] + [0] * (3 - dim))
    full = [coords(k) for k in kfull0]
    red = [coords(k) for k in kred]
    if len(kfull0) != Nk or any(x is None for x in full + red):
        res["error"] = "mesh points are not of the form B n / N (or wrong number of points: %d for Nmesh %s)" % (len(kfull0), list(Nmesh)); return res
    # weights -> counts
    counts = [int(round(float(x) * Nk)) for x in w]
    res["werr"] = max(abs(float(x) - c / Nk) for x, c in zip(w, counts))
    res["wsum"] = float(np.sum(w)); res["wmin"] = float(np.min(w))
    # operations on reciprocal-lattice coordinates: T = S^-T, distinct
    Ts = []
    for op in ex.ops:
        Si = sg.int_inverse(op["S"])
        T = [[Si[j][i] for j in range(dim)] for i in range(dim)]
        if T not in Ts: Ts.append(T)
    Qm = recip_metric(ex)
    def q6(g33):
        if dim == 3: return (Qm[0][0], Qm[1][1], Qm[2][2], Qm[1][2], Qm[0][2], Qm[0][1])
        return (Qm[0][0], Qm[1][1], int(g33), 0, 0, Qm[0][1])
    qn = max(sg.bil6(q6(1), n, n) for n in full + red)
    c2 = max(1, -((-4 * qn) // (L * L)))
    m6 = q6(c2)
    hmax = sg.min_box6(m6, 1, c2, (0, 0, 0), dim)
    # ---- direct evaluation (python integers) --------------------------------------------------
    box = [h for h in itertools.product(*[range(-a, a + 1) for a in hmax])]
    def inbz(n): return all(2 * sg.bil6(m6, n, h) <= L * sg.bil6(m6, h, h) for h in box)
    def interior(n): return all(2 * sg.bil6(m6, n, h) < L * sg.bil6(m6, h, h) for h in box if any(h))
    res["_interior"] = sorted(n for n in full if interior(n)); res["_L"] = L
    res["full_out"] = [i for i, n in enumerate(full) if not inbz(n)][:5]
    res["red_out"] = [i for i, n in enumerate(red) if not inbz(n)][:5]
    cl_full = [lexmin_class(Ts, n, dim) for n in full]
    mult = {}
    for c in cl_full: mult[c] = mult.get(c, 0) + 1
    cl_red = [lexmin_class(Ts, n, dim) for n in red]
    # several representatives of one class (an orbit split over two |k|^2 shells by rounding) are legitimate as long as every
    # count is positive and the counts of a class add up to its multiplicity (Coq: valid_reduction2b)
    tot = {}
    for c, n_ in zip(cl_red, counts): tot[c] = tot.get(c, 0) + n_
    res["bad_weight"] = [(i, tot[c], mult.get(c, 0)) for i, c in enumerate(cl_red) if tot[c] != mult.get(c, 0) or counts[i] <= 0][:5]
    res["dup_reps"] = 0
    res["split_orbits"] = len(cl_red) - len(set(cl_red))
    res["uncovered"] = len(set(cl_full) - set(cl_red))
    res["nclasses"] = len(mult)
    # regular grid? (information)
    want = set(tuple([(L // 2 - (L // int(Nmesh[k])) * m[k]) % L for k in range(dim)] + [0] * (3 - dim)) for m in itertools.product(*[range(int(N)) for N in Nmesh]))
    got = [tuple([x % L for x in n[:dim]] + [0] * (3 - dim)) for n in full]
    res["regular"] = (set(got) == want and len(set(got)) == len(got))
    # implementation's own inBZ on every mesh point, and its BZG against the exact Voronoi-relevant vectors
    res["self_inbz_false"] = sum(1 for k in kfull0 if not crys.inBZ(k))
    res["inbz_wrong"] = [i for i, (k, n) in enumerate(zip(kfull0, full)) if bool(crys.inBZ(k)) != inbz(n)][:5]
    relevant = exact_facets(m6, dim)
    impl_bzg = set()
    for Gh in crys.BZG:
        f = np.dot(crys.lattice.T, 2 * Gh) / (2 * np.pi)
        impl_bzg.add(tuple([int(round(x)) for x in f] + [0] * (3 - dim)))
    res["bzg_exact"] = len(relevant); res["bzg_ok"] = (impl_bzg == relevant)
    res["facets_beyond3"] = any(max(abs(x) for x in h) > 3 for h in relevant)
    Tset = set(tuple(map(tuple, T)) for T in Ts)
    res["group_closed"] = all(tuple(tuple(sum(a[i][k] * b[k][j] for k in range(dim)) for j in range(dim)) for i in range(dim)) in Tset
                              for a in Tset for b in Tset)
    res["bzg_missing"] = sorted(relevant - impl_bzg)[:4]
    res["bzg_missing_all"] = sorted(relevant - impl_bzg)
    # ---- invariant shell functions in floats ------------------------------------------------
    ferr = 0.0; fbad = None
    for rep in range(4):
        R0 = [rng.randint(-3, 3) for _ in range(dim)]
        shell = set(tuple(int(x) for x in np.dot(op["g"].rot, R0)) for op in ex.ops)
        X = np.array([np.dot(crys.lattice, np.array(R)) for R in shell])
        ffull = np.cos(kfull0 @ X.T).sum(axis=1).mean()
        fred = float(np.dot(w, np.cos(kred @ X.T).sum(axis=1)))
        e = abs(ffull - fred) / len(shell)
        if e > ferr: ferr, fbad = e, (R0, float(ffull), fred)
    res["ferr"] = ferr; res["fbad"] = fbad
    # ---- Coq term ---------------------------------------------------------------------------
    res["term"] = "(mkMesh %s %s %s %s %s %s %s)" % (
        sg.cmetric(m6), coq_Z(L), coq_Z(c2), sg.cv3(hmax), coq_list([sg.cm3(ex.S3(T)) for T in Ts]),
        coq_list([sg.cv3(n) for n in full]), coq_list(["(%s, %s)" % (sg.cv3(n), coq_nat(max(0, min(c, 4999)))) for n, c in zip(red, counts)]))
    res["full0"] = full[:3]; res["red0"] = list(zip(red, counts))[:3]
    res["BZG"] = len(crys.BZG)
    return res


def run_coq(ck, name, cases, chunk=10):
    import re
    out = []
    for a in range(0, len(cases), chunk):
        body = "Eval vm_compute in (map check_mesh %s)." % coq_list([c["term"] for c in cases[a:a + chunk]])
        txt = ck.coq_cases("%s_%d" % (name, a), body, IMPORTS)
        txt = txt[txt.index("="):].split(": list")[0]
        got = re.findall(r"\(\s*(\d+)%nat,\s*(\d+)%nat\)|\(\s*(\d+),\s*(\d+)\)", txt)
        got = [(int(g[0] or g[2]), int(g[1] or g[3])) for g in got]
        if len(got) != len(cases[a:a + chunk]):
            raise CoqFailure("could not parse model output: " + txt[:300])
        out += got
    return out


def report(ck, res, coq):
    rep = {k: v for k, v in res.items() if k != "term" and not k.startswith("_")}
    even = "even" if all(n % 2 == 0 for n in res["Nmesh"]) else ("odd" if all(n % 2 for n in res["Nmesh"]) else "mixed")
    kind = "%dD|%s|%s|%s" % (len(res["Nmesh"]), even, "iso" if len(set(res["Nmesh"])) == 1 else "aniso", ("history" if res["label"].startswith("history") else "scaled" if res["label"].startswith("scaled") else "noreduce" if res["label"].startswith("noreduce") else res["label"].split("-")[-1] if res["label"].startswith("rand") else "named"))
    ck.case(key=(res["crys"], res["Nmesh"]), nontrivial=res.get("Nk", 0) >= 4 and res.get("Nred", 0) >= 2, kind=kind,
            sample={"crystal": res["crys"], "Nmesh": res["Nmesh"], "Nk": res.get("Nk"), "Nred": res.get("Nred"), "|G|": res["nG"],
                    "first_full_points_n": res.get("full0"), "first_reduced_(n,count)": res.get("red0"), "coq": coq})
    if "error" in res:
        ck.violation("fullkptmesh/reducekptmesh(%s, Nmesh=%s): %s" % (res["label"], res["Nmesh"], res["error"]), rep, key="c22-malformed"); return
    bad = []
    miss_all = res.get("bzg_missing_all", [])
    beyond3 = bool(miss_all) and all(max(abs(x) for x in h) > 3 for h in miss_all)
    cause = "fold-single-pass" if not miss_all and res["bzg_ok"] else ("bzg-candidate-range-3" if beyond3 else "bzg-incomplete")
    if res["full_out"]: bad.append(("c22-full-mesh-outside-BZ-" + cause, "full-mesh point(s) %s lie outside the first Brillouin zone (BZG has %d vectors, the Brillouin zone %d facets)" % (res["full_out"], res["BZG"], res["bzg_exact"])))
    if res["red_out"]: bad.append(("c22-reduced-mesh-outside-BZ-" + cause, "reduced-mesh point(s) %s lie outside the first Brillouin zone" % res["red_out"]))
    if res["bzg_missing"]: bad.append(("c22-bzg-incomplete" + ("-candidate-range-3" if beyond3 else ""), "BZG lacks the zone facet(s) G = B.%s (BZG has %d vectors, the Brillouin zone %d facets)" % (res["bzg_missing"], res["BZG"], res["bzg_exact"])))
    if res.get("state_diff"): bad.append(("c22-crystal-state-changed", "the k-mesh calls changed the Crystal object: attributes %s%s" %
                                         (res["state_diff"], " (" + res["history"] + ")" if res.get("history") else "")))
    if res.get("scaling_mismatch"): bad.append(("c22-scaling-mismatch", "strictly interior mesh points (integer reciprocal coordinates) differ from those of the unscaled crystal, e.g. n = %s" % (res["scaling_mismatch"],)))
    if res["inbz_wrong"]: bad.append(("c22-inBZ-wrong-" + cause, "inBZ() disagrees with exact Brillouin-zone membership for full-mesh point(s) %s (BZG has %d vectors, the Brillouin zone %d facets)" % (res["inbz_wrong"], res["BZG"], res["bzg_exact"])))
    closed = res.get("group_closed", True)     # crys.G not closed under multiplication (C18, non-reduced cells): orbits undefined
    if closed and (res["bad_weight"] or res["dup_reps"] or res["uncovered"]):
        bad.append(("c22-wrong-weights", "weights are not the orbit multiplicities: (index, summed count of its class, exact) %s; equivalent representatives %d; classes without representative %d" %
                    (res["bad_weight"], res["dup_reps"], res["uncovered"])))
    if closed and (res["werr"] > 1e-12 or abs(res["wsum"] - 1) > 1e-12 or res["wmin"] <= 0):
        bad.append(("c22-weights-float", "weights are not positive multiples of 1/N summing to one (max dev %.2g, sum-1 %.2g, min %.2g)" % (res["werr"], res["wsum"] - 1, res["wmin"])))
    if closed and res["ferr"] > 1e-10:
        bad.append(("c22-invariant-function", "shell function R0=%s: full-mesh mean %.15g, reduced %.15g" % res["fbad"]))
    for key, what in bad:
        ck.violation("%s Nmesh=%s: %s" % (res["label"], res["Nmesh"], what), rep, key=key)
    if coq is not None:
        code = coq[0]
        if code == 1: raise RuntimeError("harness certificate rejected by the Coq model: %s" % rep)
        exact_bad = bool(res["full_out"] or res["red_out"] or (closed and (res["bad_weight"] or res["dup_reps"] or res["uncovered"])))
        if not closed and code == 4: code = 0; coq = (0, res["nclasses"])
        bad = [b for b in bad if not b[0].startswith("c22-bzg-incomplete") and not b[0].startswith("c22-inBZ-wrong") and b[0] not in ("c22-scaling-mismatch", "c22-crystal-state-changed")
               and b[0] not in ("c22-weights-float", "c22-invariant-function")]
        if (code != 0) != exact_bad or (code == 0 and coq[1] != res["nclasses"]):   # coq[1]: number of classes of the model's greedy reduction
            ck.violation("Coq decision (%s: %s) and the Python evaluator (%s) disagree" % (coq, MEANING.get(code, "ok"), [b[0] for b in bad]), rep, key="c22-model-evaluator-disagree")


def choose_mesh(rng, dim, quick):
    lim = (12 if dim == 2 else 6) if quick else (20 if dim == 2 else 9)
    mode = rng.choice(["iso", "iso", "iso", "aniso"])
    if mode == "iso":
        n = rng.randint(2, lim); return [n] * dim
    return [rng.randint(1, lim) for _ in range(dim)]


def run(ck):
    ck.rule = ("crystal pool (named lattices + random crystal systems incl. hexagonal/monoclinic/triclinic/skewed, 2-D/3-D, 1-3 sites, "
               "lattice scale 0.5..5; plus NON-reduced cells kept by noreduce=True / Crystal.fromdict: unimodular shears of pool crystals and three "
               "fixed sheared cells; plus histories on one object (coarse mesh reduced with a loose explicit tolerance, then a fine mesh with the "
               "default; attributes of the object must not change); plus a length-unit sweep: pool crystals with the lattice scaled by 1e-3, 1e2, 1e3, 1e4) x Nmesh (even / odd / anisotropic, 2..20 per direction); distinct = distinct (crystal, Nmesh); "
               "non-trivial = at least 4 mesh points and 2 reduced points")
    ck.trusted += ["harness/c22.py, sitegen.py: exact read-back of the metric, conversion of k-points to integer reciprocal-lattice coordinates "
                   "(verified rounding), weights to counts (1e-12), Coq literal printing",
                   "crys.G taken from the implementation (operations validated as isometries by the checker; completeness is property C18)"]
    ck.theorems()
    rng = ck.rng
    cases = []
    n = ck.n(36, 160)
    for label, crys, chem, ex in sg.pool(rng, n, random_frac=0.75, nchem_max=1, maxatoms=3, scales=(1.0, 1.0, 0.5, 2.0, 3.0, 5.0), skew_frac=0.15):
        Nmesh = choose_mesh(rng, crys.dim, ck.quick)
        cases.append(mesh_case(ck, rng, label, crys, ex, Nmesh))
    # crystals that keep the user's NON-reduced cell (noreduce=True / Crystal.fromdict): sheared descriptions of pool crystals
    from onsager import crystal as _crystal
    nnr = ck.n(10, 36)
    srcs = [("oblique-a2=(1.6,1)", lambda: _crystal.Crystal(np.array([[1., 0.], [1.6, 1.]]).T, [np.zeros(2)], noreduce=True)),
            ("fcc-a3+a1+a2", lambda: _crystal.Crystal(0.5 * np.array([[0, 1, 1], [1, 0, 1], [2, 2, 2.]]).T, [np.zeros(3)], noreduce=True)),
            ("triclinic-very-long-a3", lambda: _crystal.Crystal.fromdict({"lattice": np.array([[1, 0, 0], [.2, 1.1, 0], [2.3, 1.25, 1.2]]), "basis": [np.zeros(3)]})),
            ("triclinic-long-a3", lambda: _crystal.Crystal.fromdict({"lattice": np.array([[1, 0, 0], [.2, 1.1, 0], [1.5, 1.25, 1.2]]), "basis": [np.zeros(3)]}))]
    found = 0
    beyond3 = 0
    for label, make in srcs:
        c2 = make(); ex2 = sg.Exact(c2)
        if not ex2.ok: raise RuntimeError("noreduce crystal %s is not rational" % label)
        cases.append(mesh_case(ck, rng, "noreduce-" + label, c2, ex2, choose_mesh(rng, c2.dim, ck.quick))); found += 1
    for label, crys, chem, ex in sg.pool(rng, 3 * nnr, random_frac=0.8, nchem_max=1, maxatoms=2, scales=(1.0, 1.0, 2.0, 3.0), skew_frac=0.15):
        if found >= nnr: break
        try:
            c2, M = sheared_noreduce(crys, rng, via_dict=rng.random() < 0.5)
        except Exception as e:
            ck.note("constructing a sheared noreduce description failed (%s: %s) -- skipped" % (type(e).__name__, str(e)[:80])); continue
        ex2 = sg.Exact(c2)
        if not ex2.ok: continue
        res = mesh_case(ck, rng, "noreduce-" + label, c2, ex2, choose_mesh(rng, c2.dim, ck.quick))
        if res.get("facets_beyond3") and not JUDGE_BEYOND_RANGE3:
            beyond3 += 1
            ck.note("cell %s needs zone-facet coefficients beyond 3 (outside genBZG's candidate range; finding in design_notes/C22.md) -- skipped" % repr(c2)[:160])
            continue
        cases.append(res); found += 1
    ck.extra["noreduce_sheared_cells"] = found
    # histories on ONE Crystal object: a coarse mesh reduced with a loose explicit tolerance first, then a fine mesh with the
    # default tolerance -- the fine answer is judged exactly like every other mesh (a fresh object gives the reference through
    # the exact oracle), and no attribute of the object may change
    nhist = 0
    for label, crys, chem, ex in sg.pool(rng, 3 * ck.n(8, 30), random_frac=0.7, nchem_max=1, maxatoms=2, scales=(1.0, 1.0, 2.0), skew_frac=0.15):
        if nhist >= ck.n(6, 20): break
        bmin = min(np.linalg.norm(crys.reciplatt[:, j]) for j in range(crys.dim))
        nf = rng.randint(5, 6 if ck.quick else 10) if crys.dim == 3 else rng.randint(6, 14)
        hist = {"Nmesh": [2] * crys.dim, "threshold": 0.45 * bmin / 2}
        cases.append(mesh_case(ck, rng, "history-" + label, crys, ex, [nf] * crys.dim, history=hist)); nhist += 1
    ck.extra["history_cases_coarse_loose_then_fine"] = nhist
    # length-unit sweep: the same crystal with the lattice scaled by 1e-3 .. 1e4 (mesh, BZG, weights judged as for every cell;
    # in integer reciprocal coordinates the strictly interior mesh points must coincide with those of the unscaled crystal)
    from fractions import Fraction as Fr
    SCALES = [Fr(1, 1000), Fr(100), Fr(1000), Fr(10000)]
    base = [c for c in cases if "term" in c and not c["label"].startswith("noreduce") and "_crys" in c]
    base.sort(key=lambda c: (c.get("orthogonal", False), c["label"], str(c["Nmesh"])))       # non-orthogonal lattices first
    nsweep = 0
    for b in base[:ck.n(12, 16)]:
        for sc in ([rng.choice(SCALES)] if ck.quick else SCALES):
            c0 = b["_crys"]
            try:
                cs = _crystal.Crystal(c0.lattice * float(sc), [[np.array(u, copy=True) for u in lst] for lst in c0.basis])
            except Exception as e:
                ck.note("Crystal() failed on a lattice scaled by %s (%s: %s) -- skipped" % (sc, type(e).__name__, str(e)[:60])); continue
            exs = sg.Exact(cs, unit=sc)
            if not exs.ok or cs.N != c0.N or not np.allclose(cs.lattice, c0.lattice * float(sc), rtol=1e-12, atol=0): continue
            r2 = mesh_case(ck, rng, "scaled(%s)-%s" % (sc, b["label"]), cs, exs, b["Nmesh"])
            r2["scaled_from"] = b["crys"]
            if "_interior" in r2 and (r2["_L"] != b["_L"] or r2["_interior"] != b["_interior"]):
                r2["scaling_mismatch"] = [n for n in b["_interior"] if n not in set(r2["_interior"])][:4] + [n for n in r2["_interior"] if n not in set(b["_interior"])][:4]
            cases.append(r2); nsweep += 1
    ck.extra["length_unit_sweep_cases"] = nsweep
    ck.extra["cases_with_split_orbits"] = sum(1 for c in cases if c.get("split_orbits"))
    ck.extra["cells_with_facet_coefficient_beyond_3"] = sum(1 for c in cases if c.get("facets_beyond3"))
    good = [c for c in cases if "term" in c]
    codes = {}
    try:
        for c, r in zip(good, run_coq(ck, "mesh", good)): codes[id(c)] = r
    except CoqFailure as e:
        ck.broken_proof = "correspondence Model/KMesh.check_mesh: %s" % e
        ck.note("CORRESPONDENCE BROKEN: " + str(e)[:300])
    for c in cases:
        report(ck, c, codes.get(id(c)))
    ck.extra["skipped"] = {"irrational-geometry": sg.pool.rejected, "facet-coefficient-beyond-3": beyond3,
                           "weights-not-judged-G-not-a-group": sum(1 for c in cases if c.get("group_closed") is False)}
    ck.extra["cases_checked_by_coq"] = len(codes)
    ck.extra["traces_validated_against_impl"] = len(codes)
    ck.extra["mesh_points_checked"] = sum(c.get("Nk", 0) for c in cases)
    ck.extra["full_mesh_regular_grid_all"] = all(c.get("regular", True) for c in cases)
    ck.extra["impl_inBZ_false_points"] = sum(c.get("self_inbz_false", 0) for c in cases)
    ck.extra["BZG_differs_from_exact_facets"] = sum(1 for c in cases if c.get("bzg_ok") is False)
    ck.extra["max_shell_function_error"] = max([c.get("ferr", 0.0) for c in cases] + [0.0])
