"""C29  Calculation-setup supercells contain the right defects and mappings.

For Interstitial.makesupercells and VacancyMediated.makesupercells on generated 3-D crystals / jump networks / supercell
matrices the harness parses every tag, identifies the named positions with supercell sites by its own nearest-site
search, and then runs Coq-verified checkers (coq/Properties/C29.v) on the implementation's output:
  defectsb    the state supercell is the reference occupation with exactly the named defects at the named sites,
  invb        every generated supercell is internally consistent (C28 invariant),
  one_moveb   the two endpoints of a transition differ by one atom moving between two sites,
  equivb      every recorded (state tag, g, mapping) transforms that state supercell into the endpoint exactly,
  nomapb      an endpoint recorded as unmapped (None) is reached from no state supercell by any group operation,
  in_half_cellb  which kinetic-shell separations are their own half-cell image (warning expected iff one is not).
Python evaluates the float parts directly: displacement of the moving atom against the jump vector (modulo the
supercell), NEB ordering of the endpoints, the warnings issued, the indices table, the reference supercell."""
META = dict(
    level="proof",
    text=("Coq-verified checkers with soundness theorems (defect content relative to the reference occupation, single moving "
          "atom, exact equivalence mapping incl. ordering, justified absence of a mapping by a scan of the whole group, "
          "uniqueness of the half-cell representative behind the too-small criterion) are run inside Coq on every supercell "
          "dictionary produced by Interstitial.makesupercells and VacancyMediated.makesupercells for generated 3-D crystals, "
          "networks and supercell matrices including too-small and symmetry-breaking ones; a Python evaluator checks the "
          "displacement of the moving atom against the jump, endpoint ordering, and that warnings appear exactly when a "
          "kinetic-shell vector is not its own half-cell image."),
    note=("makesupercells itself is not modelled: its output is certified per call by the verified checkers. Tags carry positions "
          "with 3 decimals; the harness maps them to sites with tolerance 2e-3 in unit-cell coordinates and requires uniqueness. "
          "The too-small criterion is evaluated exactly in rational lattice coordinates; vectors exactly on the half-cell "
          "boundary are excluded from the warning comparison (float rounding decides them). Displacement tolerance 1e-6."),
    technique="Coq-verified checkers run on implementation outputs + direct evaluator",
)

import re, warnings, fractions
from concurrent.futures import ThreadPoolExecutor
import numpy as np
from . import gen, sclib
from .lib import CoqFailure
from .sclib import z, zl, zll, sc_lit

IMPORTS = """From Coq Require Import List ZArith Bool.
From Onsager Require Import Model.Supercell Model.SupercellMap.
Import ListNotations.
Local Open Scope Z_scope.
"""
TAGRE = re.compile(r"([siv]):([+-]\d+\.\d+),([+-]\d+\.\d+),([+-]\d+\.\d+)")


def state(sup):
    return [int(x) for x in sup.occ], [[int(i) for i in l] for l in sup.chemorder]


def site_of(sup, u, chems, tol=2e-3):
    """site of the supercell at unit-cell coordinates u (own search); chems = allowed site chemistries"""
    best = []
    ucell = np.dot(sup.superlatt, sup.pos.T).T      # unit-cell coordinates of every site
    for n in range(sup.N * sup.size):
        if sup.atomindices[n % sup.N][0] not in chems: continue
        d = np.dot(sup.invsuper, ucell[n] - u) / sup.size
        d -= np.round(d)
        dist = np.abs(np.dot(sup.superlatt, d)).max()
        best.append((dist, n))
    best.sort()
    if not best or best[0][0] > tol or (len(best) > 1 and best[1][0] < 5 * tol): return None
    return best[0][1]


def reference_occ(sup, vacant_chem=None):
    return [-1 if sup.atomindices[n % sup.N][0] == vacant_chem else sup.atomindices[n % sup.N][0] for n in range(sup.N * sup.size)]


def exact_half_cell(sup, crys, vec_unit):
    """supercell coordinates (Fractions) of a unit-cell-coordinate vector; None if not rational"""
    fr = [gen.rationalize(x, maxden=5040, tol=1e-9) for x in vec_unit]
    if any(f is None for f in fr): return None
    return [sum(int(sup.invsuper[a, b]) * fr[b] for b in range(3)) / sup.size for a in range(3)]


class Collector:
    def __init__(self, ck):
        self.ck, self.found = ck, {}

    def violation(self, key, msg, replay):
        f = self.found.setdefault(key, dict(msg=msg, replay=replay, count=0))
        f["count"] += 1

    def flush(self):
        for key in sorted(self.found):
            f = self.found[key]
            f["replay"]["occurrences_in_this_run"] = f["count"]
            self.ck.violation("%s  (%d occurrences)" % (f["msg"], f["count"]), f["replay"], key=key)


def check_superdict(ck, col, kind, label, d, crys, chem, super_n, sd, warns, spec, stats):
    """-> Coq body (or None) and the meta needed to interpret its answers"""
    states, trans, tmap = sd["states"], sd["transitions"], sd["transmapping"]
    anysup = next(iter(states.values()))
    N, Nchem = anysup.N * anysup.size, anysup.Nchem
    schem = crys.Nchem
    species = {"v": -1, "s": schem, "i": chem}
    ref = reference_occ(anysup, vacant_chem=chem if kind == "interstitial" else None)
    G = sclib.g_list(anysup)
    Gidx = sorted(set(tuple(g.indexmap[0]) for g in G))
    defs = ["Definition Gall : list (list Z) := %s." % zll(Gidx), "Definition ref : list Z := %s." % zl(ref)]
    names = {}

    def nm(sup):
        k = id(sup)
        if k not in names:
            names[k] = "s%d" % len(names)
            defs.append("Definition %s : sc := %s." % (names[k], sc_lit(*state(sup))))
        return names[k]

    c_def, c_inv, c_move, c_eq, c_none, m_def, m_inv, m_move, m_eq, m_none = [], [], [], [], [], [], [], [], [], []
    rep0 = dict(cfg=spec, calculator=kind)
    # ---- the closest-site search behind sup[position] = species: the position of site k must resolve to k ----------
    wrong = []
    for k in range(N):
        try:
            r = anysup.index(anysup.pos[k])
        except Exception as e:
            r = repr(e)
        stats["index_lookups"] += 1
        if r != k: wrong.append((k, r))
    if wrong:
        col.violation("c29-index", "%s %s: Supercell.index(position of site k) != k for (k, result) = %s" % (label, super_n.tolist(), wrong[:6]),
                      dict(rep0, wrong=wrong[:20], positions=[anysup.pos[k].tolist() for k, _ in wrong[:6]]))
    # ---- reference supercell ----------------------------------------------------------------------
    if kind == "vacancy":
        if "reference" not in sd or [int(x) for x in sd["reference"].occ] != ref:
            col.violation("c29-reference", "%s: superdict['reference'] is not the defect-free supercell" % label, dict(rep0))
    # ---- states: exactly the defects named by the tag, at the named positions ---------------------
    for tag, sup in states.items():
        stats["states"] += 1
        parsed = TAGRE.findall(tag)
        ck.case(key=(label, super_n.tolist(), tag), nontrivial=True, kind="state:" + kind,
                sample={"calculator": kind, "crystal": label, "supercell": super_n.tolist(), "tag": tag, "occ": state(sup)[0]}
                if stats["states"] in (1, 40) else None)
        defects, ok = [], True
        for (t, a, b, c) in parsed:
            u = np.array([float(a), float(b), float(c)])
            i = site_of(sup, u, (chem,))
            if i is None:
                if N >= 2: col.violation("c29-tag-position", "%s %s: position %s of tag %s is not a site of species %d" % (label, super_n.tolist(), u, tag, chem), dict(rep0, tag=tag))
                ok = False; break
            defects.append((i, species[t]))
        if not ok or not parsed: continue
        if len(set(i for i, _ in defects)) < len(defects):
            stats["states_folded"] += 1     # too-small cell: two named positions are the same site; content is not checkable
            continue
        c_def.append("defectsb ref (occ %s) [%s]" % (nm(sup), "; ".join("(%s, %s)" % (z(i), z(c)) for i, c in defects)))
        m_def.append(dict(rep0, tag=tag, named_sites=defects, occ=state(sup)[0]))
        c_inv.append("invb %d %d %s" % (N, Nchem, nm(sup))); m_inv.append(dict(rep0, tag=tag, state=state(sup)))
        # direct evaluation
        exp = list(ref)
        for i, c in defects: exp[i] = c
        if exp != state(sup)[0]:
            col.violation("c29-state-content", "%s %s: supercell of state %s does not contain exactly the named defects" % (label, super_n.tolist(), tag), m_def[-1])
    # ---- transitions ----------------------------------------------------------------------------------
    jumpdx = {}
    if kind == "interstitial":
        for jl, tl in zip(d.jumpnetwork, d.tags["transitions"]): jumpdx[tl[0]] = (+1, jl[0][1])
    else:
        for name, jn in (("omega0", d.om0_jn), ("omega1", d.om1_jn), ("omega2", d.om2_jn)):
            for jl, tl in zip(jn, d.tags[name]): jumpdx[tl[0]] = (-1, jl[0][1])
    supinv = np.linalg.inv(anysup.lattice)
    if kind == "vacancy":
        wy = {i: k for k, w_ in enumerate(d.sitelist) for i in w_}
        stats["omega0_cross_wyckoff"] += sum(1 for jl in d.om0_jn if wy[jl[0][0][0]] != wy[jl[0][0][1]])
    for tag, (s0, s1) in trans.items():
        stats["transitions"] += 1
        o0, o1 = state(s0)[0], state(s1)[0]
        ck.case(key=(label, super_n.tolist(), tag), nontrivial=True, kind="transition:" + kind,
                sample={"calculator": kind, "crystal": label, "supercell": super_n.tolist(), "tag": tag, "initial": o0, "final": o1,
                        "mapping": [None if m is None else [m[0], list(m[1].indexmap[0]), m[2]] for m in tmap.get(tag, ())]}
                if stats["transitions"] in (1, 60) else None)
        rep = dict(rep0, tag=tag, initial=state(s0), final=state(s1))
        nexp = 1 if (kind == "interstitial" or tag.startswith("omega0")) else 2
        for s, w in ((s0, "initial"), (s1, "final")):
            c_inv.append("invb %d %d %s" % (N, Nchem, nm(s))); m_inv.append(dict(rep, which=w))
            # content of an endpoint: only the moving defects -- every other site holds its native species
            oo = state(s)[0]
            dsites = [n for n in range(N) if oo[n] != ref[n]]
            if any(s.atomindices[n % s.N][0] != chem for n in dsites) or len(dsites) > nexp:   # (fewer when a too-small cell folds the defects onto each other)
                col.violation("c29-endpoint-content", "%s %s: %s endpoint of %s differs from the defect-free reference at sites %s (expected "
                              "at most %d defects, all on the sublattice of species %d)" % (label, super_n.tolist(), w, tag, dsites[:12], nexp, chem),
                              dict(rep, which=w, differing_sites=dsites))
        diff = [n for n in range(N) if o0[n] != o1[n]]
        folded = False
        if len(diff) == 2 and (o0[diff[0]] == -1) != (o0[diff[1]] == -1):
            j, i = (diff[0], diff[1]) if o0[diff[0]] == -1 else (diff[1], diff[0])
            c_move.append("one_moveb (occ %s) (occ %s) %d %d %s" % (nm(s0), nm(s1), i, j, z(o0[i]))); m_move.append(rep)
            # displacement of the moving atom against the jump, modulo supercell translations
            sign, dx = jumpdx[tag]
            dpos = np.dot(s0.lattice, s0.pos[j] - s0.pos[i])
            x = np.dot(supinv, dpos - sign * dx)
            if np.abs(x - np.round(x)).max() > 1e-6:
                # omega2: the solute moves opposite to the vacancy; accept the documented exchange convention only
                x2 = np.dot(supinv, dpos + sign * dx)
                if not (tag.startswith("omega2") and np.abs(x2 - np.round(x2)).max() <= 1e-6):
                    col.violation("c29-displacement", "%s %s: moving atom of %s is displaced by %s, the jump is %s" %
                                  (label, super_n.tolist(), tag, dpos.tolist(), (sign * dx).tolist()), dict(rep, moved=[i, j]))
            # NEB ordering: the endpoints list the atoms in the same order, the moving atom at the same place
            c0, c1 = state(s0)[1], state(s1)[1]
            same = all(len(a) == len(b) and all(p == q or (p == i and q == j) for p, q in zip(a, b)) for a, b in zip(c0, c1))
            if not same:
                col.violation("c29-neb-ordering", "%s %s: endpoints of %s do not list the atoms in the same order" % (label, super_n.tolist(), tag), rep)
        else:
            # too-small cells can fold the two endpoints of a jump onto each other
            folded = True
            stats["transitions_folded"] += 1
            big = all(abs(float(f)) < 0.5 - 1e-9 for f in (exact_half_cell(anysup, crys, np.dot(crys.invlatt, jumpdx[tag][1])) or [1]))
            if big:
                col.violation("c29-single-move", "%s %s: endpoints of %s differ at sites %s, not by one moving atom" % (label, super_n.tolist(), tag, diff), rep)
        # recorded mappings
        maps = tmap.get(tag, ())
        if len(maps) != 2:
            col.violation("c29-%s-missing-mapping" % kind, "%s %s: transmapping[%s] has %d entries for 2 endpoints (an endpoint without an "
                          "equivalent state is dropped instead of recorded as None)" % (label, super_n.tolist(), tag, len(maps)),
                          dict(rep, entries=[None if m is None else m[0] for m in maps]))
            continue
        for m, s, w in zip(maps, (s0, s1), ("initial", "final")):
            if m is None:
                # acceptable only if NO state supercell of the dictionary maps onto this endpoint: scan all states x all of G
                stats["mappings_none"] += 1
                so = np.array(state(s)[0])
                for stag, ssup in states.items():
                    c_none.append("nomapb Gall %s %s" % (nm(ssup), nm(s))); m_none.append(dict(rep, which=w, state_tag=stag))
                    ao = np.array(state(ssup)[0])
                    for idx in Gidx:
                        gocc = np.empty_like(ao); gocc[np.array(idx)] = ao
                        if np.array_equal(gocc, so):
                            col.violation("c29-mapping-missing", "%s %s: %s endpoint of %s is recorded without mapping (None) although state %s "
                                          "maps onto it (site map %s...)" % (label, super_n.tolist(), w, tag, stag, list(idx[:8])),
                                          dict(rep, which=w, state_tag=stag, indexmap=list(idx)))
                            break
            else:
                stats["mappings"] += 1
                stag, g, mapping = m
                if stag not in states:
                    col.violation("c29-mapping-tag", "%s: mapping names unknown state %s" % (label, stag), rep); continue
                c_eq.append("equivb %s %s %s %s && permb %d %s" % (zl(g.indexmap[0]), zll(mapping), nm(states[stag]), nm(s), N, zl(g.indexmap[0])))
                m_eq.append(dict(rep, which=w, state_tag=stag, indexmap=list(g.indexmap[0]), mapping=mapping))
                try:
                    okd = ((g * states[stag]).reorder(mapping) == s) and any(g is h for h in s.G)
                except Exception as e:
                    okd = False
                if not okd:
                    col.violation("c29-mapping", "%s %s: recorded mapping of %s (%s endpoint) does not transform state %s into the endpoint" %
                                  (label, super_n.tolist(), tag, w, stag), m_eq[-1])
    # ---- indices table ---------------------------------------------------------------------------------
    for tag in list(states) + list(trans):
        ind = sd["indices"].get(tag)
        if kind == "interstitial":
            good = ind is not None and any(tl[ind][0] == tag for tl in d.tags.values() if ind < len(tl))
        else:
            good = ind is not None and ind[1] < len(d.tags[ind[0]]) and d.tags[ind[0]][ind[1]][0] == tag
        if not good: col.violation("c29-indices", "%s: indices[%s] = %r does not lead back to the tag" % (label, tag, ind), dict(rep0, tag=tag))
    # ---- too small <=> warning -------------------------------------------------------------------------
    c_half, exp_half = [], []
    if kind == "vacancy":
        small = [str(w.message) for w in warns if "too small" in str(w.message)]
        lo = hi = 0
        rational = True
        for PS in d.kinetic.states:
            xs = exact_half_cell(anysup, crys, np.dot(crys.invlatt, PS.dx))
            if xs is None: rational = False; break
            boundary = any(abs(x) == fractions.Fraction(1, 2) for x in xs)
            inside = all(fractions.Fraction(-1, 2) <= x < fractions.Fraction(1, 2) for x in xs)
            den = int(np.lcm.reduce([x.denominator for x in xs]))
            c_half.append("in_half_cellb %d %s" % (den, zl([int(2 * x * den) for x in xs]))); exp_half.append(inside)
            if boundary: hi += 1
            elif not inside: lo += 1; hi += 1
        if rational:
            stats["warning_cells"] += 1
            stats["cells_too_small"] += 1 if lo else 0
            W = len(small)
            if not (lo <= W <= hi):
                col.violation("c29-too-small-warning", "%s %s: %d 'too small' warnings, expected between %d and %d (kinetic-shell vectors that "
                              "are not their own half-cell image)" % (label, super_n.tolist(), W, lo, hi), dict(rep0, warnings=small[:5]))
        else:
            stats["skipped_irrational"] += 1
    body = "\n".join(defs) + "\n"
    for lst in (c_def, c_inv, c_move, c_eq, c_none):
        body += "Eval vm_compute in (falses [%s] 0).\n" % "; ".join(lst)
    body += "Eval vm_compute in (falses [%s] 0).\n" % "; ".join(c_half)
    meta = dict(defect=m_def, inv=m_inv, move=m_move, equiv=m_eq, none=m_none, half=exp_half, label=label, super_n=super_n.tolist(), spec=spec)
    return body, meta


def first_percolating(crys, chem, maxshell=14, maxjumps=150):
    """smallest neighbour-shell cutoff whose jump network percolates in every direction (for crystals with very short hops)"""
    n = len(crys.basis[chem])
    for r in gen.shells(crys, chem)[:maxshell]:
        jn = crys.jumpnetwork(chem, r + 1e-4)
        if sum(len(t) for t in jn) > maxjumps: break
        D = gen.exact_unitcell_D(n, jn, np.ones(n) / n, [[1.0] * len(t) for t in jn], 3)
        if np.linalg.eigvalsh(0.5 * (D + D.T)).min() > 1e-6: return r + 1e-4, crys.sitelist(chem), jn
    return None


def supercell_matrices(rng, crys, n):
    # always one cell that is large enough to tell R from -R (3x3x3 when it has <= 60 sites), then random ones
    out = [(3 if crys.N * 27 <= 60 else 2) * np.eye(3, dtype=int)]
    for _ in range(n - 1):
        r = rng.random()
        if r < 0.55: m = rng.choice([1, 2, 2, 3]) * np.eye(3, dtype=int)
        elif r < 0.8: m = np.diag([rng.choice([1, 2, 3]) for _ in range(3)])
        else: m = sclib.random_superlatt(rng, maxdet=6)
        if crys.N * abs(int(round(np.linalg.det(m)))) <= 60: out.append(m.astype(int))
    return out


def run(ck):
    ck.rule = ("3-D crystal pool x percolating jump network x supercell matrices (n*I for n=1..3, anisotropic diagonal, random "
               "symmetry-breaking; up to 60 sites) for Interstitial and VacancyMediated (Nthermo=1) calculators, always including vacancy "
               "calculators whose species occupies several Wyckoff positions with jumps between inequivalent positions; an evaluation = one "
               "state or transition of one supercell dictionary; distinct = distinct (crystal, supercell, tag); all are non-trivial")
    ck.trusted += ["harness/c29.py, sclib.py: tag parsing, nearest-site identification of the named positions (tolerance 2e-3, unique), "
                   "reference occupation built from atomindices, exact rational half-cell coordinates", "displacement tolerance 1e-6"]
    ck.theorems()
    rng = ck.rng
    from onsager import OnsagerCalc, crystal
    col = Collector(ck)
    stats = dict(states=0, transitions=0, mappings=0, mappings_none=0, states_folded=0, transitions_folded=0, warning_cells=0,
                 cells_too_small=0, skipped_irrational=0, dictionaries=0, omega0_cross_wyckoff=0, multi_wyckoff_host_dictionaries=0, index_lookups=0, near_coincident_dictionaries=0, repeated_call_dictionaries=0)
    skipped = {"nonpercolating": 0, "construct-failed": 0, "too-many-states": 0}
    jobs = []
    ncalc = ck.n(3, 18)
    # a fixed symmetry-breaking case first (bcc tetrahedral network in a sheared cell), then the generated ones
    fixed = [("interstitial", "bcc-tet", np.array([[2, 1, 0], [0, 1, 0], [0, 0, 1]]))]
    for kind, name, super_n in fixed:
        crys, chem = gen.named(name)
        crys = crystal.Crystal(crys.lattice, crys.basis, chemistry=[str(x) for x in crys.chemistry])
        sl = crys.sitelist(chem)
        jn = crys.jumpnetwork(chem, gen.shells(crys, chem)[0] + 1e-4)
        d = OnsagerCalc.Interstitial(crys, chem, sl, jn)
        spec = dict(label=name, lattice=crys.lattice.tolist(), basis=[[u.tolist() for u in b] for b in crys.basis], chem=chem,
                    cutoff=gen.shells(crys, chem)[0] + 1e-4, supercell=super_n.tolist())
        with warnings.catch_warnings(record=True) as warns:
            warnings.simplefilter("always")
            try:
                sd = d.makesupercells(super_n)
            except Exception as e:
                col.violation("c29-exception", "%s %s: makesupercells raised %r" % (name, super_n.tolist(), e), dict(cfg=spec, exception=repr(e)))
                continue
        stats["dictionaries"] += 1
        jobs.append(check_superdict(ck, col, kind, name, d, crys, chem, super_n, sd, list(warns), spec, stats))
    # interstitial calculators in hosts where ONE host chemistry occupies two or more inequivalent Wyckoff positions: every state and
    # transition supercell must have every host site occupied by its native species (defectsb against the reference occupation)
    def A_(*x): return np.array(x, dtype=float)
    p4mm = crystal.Crystal(np.diag([1., 1., 1.3]), [[A_(0, 0, 0), A_(.5, .5, .35)], [A_(.5, .5, .8)]], chemistry=["A", "B"])
    lieb = crystal.Crystal(np.eye(3), [[A_(0, 0, 0), A_(.5, 0, 0), A_(0, .5, 0), A_(0, 0, .5)]], chemistry=["A"])
    hosts = [("P4mm host A(0,0,0)+A(1/2,1/2,0.35)+B + interstitial", p4mm.addbasis(p4mm.Wyckoffpos(A_(.5, 0, .6)), chemistry=["I"]), 2),
             ("cubic corner+edge-centre host + body-centre interstitial", lieb.addbasis(lieb.Wyckoffpos(A_(.5, .5, .5)), chemistry=["I"]), 1)]
    hosts += [("omega-like hexagonal host A(0,0,0)+A(1/3,2/3,1/2)+A(2/3,1/3,1/2) + interstitial",
               (lambda h: h.addbasis(h.Wyckoffpos(A_(.5, 0, 0)), chemistry=["I"]))(
                   crystal.Crystal(A_([.5, -np.sqrt(3) / 2, 0], [.5, np.sqrt(3) / 2, 0], [0, 0, .62]).T,
                                   [[A_(0, 0, 0), A_(1. / 3, 2. / 3, .5), A_(2. / 3, 1. / 3, .5)]], chemistry=["Ti"])), 1)] if not ck.quick else []
    for label, crys, chem in hosts:
        nwy = max(len(crys.sitelist(c)) for c in range(crys.Nchem) if c != chem)
        if nwy < 2:
            col.violation("c29-generator-precondition", "%s: sitelist() puts every host chemistry on a single Wyckoff position although the host has "
                          "inequivalent sites of one chemistry by construction" % label,
                          dict(cfg=dict(label=label, lattice=crys.lattice.tolist(), basis=[[u.tolist() for u in b] for b in crys.basis], chem=chem),
                               sitelists=[crys.sitelist(c) for c in range(crys.Nchem)]))
            continue
        net = gen.percolating_network(crys, chem, rng, maxjumps=60)
        if net is None: skipped["nonpercolating"] += 1; continue
        cut, sl, jn = net
        d = OnsagerCalc.Interstitial(crys, chem, sl, jn)
        for super_n in ([2 * np.eye(3, dtype=int)] if ck.quick else [2 * np.eye(3, dtype=int), np.diag([2, 2, 1])]):
            if crys.N * abs(int(round(np.linalg.det(super_n)))) > 80: continue
            spec = dict(label=label, lattice=crys.lattice.tolist(), basis=[[u.tolist() for u in b] for b in crys.basis], chem=chem,
                        cutoff=cut, supercell=super_n.tolist())
            with warnings.catch_warnings(record=True) as warns:
                warnings.simplefilter("always")
                try:
                    sd = d.makesupercells(super_n)
                except Exception as e:
                    col.violation("c29-exception", "%s %s: makesupercells raised %r" % (label, super_n.tolist(), e), dict(cfg=spec, exception=repr(e)))
                    continue
            stats["dictionaries"] += 1
            stats["multi_wyckoff_host_dictionaries"] += 1
            jobs.append(check_superdict(ck, col, "interstitial", label, d, crys, chem, super_n, sd, list(warns), spec, stats))
    if stats["multi_wyckoff_host_dictionaries"] == 0:
        col.violation("c29-generator-precondition", "no interstitial calculator in a host with two Wyckoff positions of one chemistry could be built "
                      "from the fixed hosts (site lists / jump networks of the fixed crystals are not what they are by construction)", dict(hosts=[h[0] for h in hosts]))
    # nearly coincident sites on the defect sublattice (split interstitial pair 0.01..0.05 apart in unit-cell coordinates) in
    # supercells so large that the separation is far below 1% of the supercell edge: positions must still resolve to the right site
    splits = [("split interstitial pair along z, delta=0.012", crystal.Crystal(np.diag([1., 1., 1.25]),
               [[A_(0, 0, 0)], [A_(.5, .5, .5 - .012), A_(.5, .5, .5 + .012)]], chemistry=["M", "O"]), 1, [np.diag([1, 1, 8]), np.diag([3, 3, 5])]),
              ("split interstitial pair along x, delta=0.02", crystal.Crystal(np.diag([1., 1.1, 1.25]),
               [[A_(0, 0, 0)], [A_(.5 - .02, .5, .5), A_(.5 + .02, .5, .5)]], chemistry=["M", "O"]), 1, [np.diag([8, 1, 1]), 4 * np.eye(3, dtype=int)]),
              ("split vacancy-site pair along z, delta=0.006", crystal.Crystal(np.diag([1., 1., 1.25]),
               [[A_(0, 0, .25 - .006), A_(0, 0, .25 + .006)]], chemistry=["M"]), 0, [np.diag([1, 1, 8])])]
    for label, crys, chem, mats in splits:
        vac = label.startswith("split vacancy")
        if vac and ck.quick: continue
        try:
            cut, sl, jn = first_percolating(crys, chem)
            d = OnsagerCalc.VacancyMediated(crys, chem, sl, jn, 1) if vac else OnsagerCalc.Interstitial(crys, chem, sl, jn)
        except Exception as e:
            col.violation("c29-exception", "%s: calculator could not be built: %r" % (label, e), dict(label=label, exception=repr(e))); continue
        for super_n in (mats[:1] if ck.quick else mats):
            super_n = np.array(super_n, dtype=int)
            spec = dict(label=label, lattice=crys.lattice.tolist(), basis=[[u.tolist() for u in b] for b in crys.basis], chem=chem,
                        cutoff=cut, supercell=super_n.tolist())
            with warnings.catch_warnings(record=True) as warns:
                warnings.simplefilter("always")
                try:
                    sd = d.makesupercells(super_n)
                except Exception as e:
                    col.violation("c29-exception", "%s %s: makesupercells raised %r" % (label, super_n.tolist(), e), dict(cfg=spec, exception=repr(e)))
                    continue
            stats["dictionaries"] += 1
            stats["near_coincident_dictionaries"] += 1
            jobs.append(check_superdict(ck, col, "vacancy" if vac else "interstitial", label, d, crys, chem, super_n, sd, list(warns), spec, stats))
    if stats["near_coincident_dictionaries"] == 0:
        col.violation("c29-generator-precondition", "no supercell dictionary for the crystals with nearly coincident sites could be built", dict(crystals=[x[0] for x in splits]))
    # ONE calculator, several makesupercells calls with too-small supercells of equal determinant (different matrices, and the same
    # matrix twice): every call must warn on its own (the per-call comparison with the exact half-cell criterion is in check_superdict)
    for label, crys, chem in ([("sc (repeated calls)",) + gen.named("sc")] + ([] if ck.quick else [("bcc (repeated calls)",) + gen.named("bcc")])):
        try:
            cut, sl, jn = first_percolating(crys, chem)
            d = OnsagerCalc.VacancyMediated(crys, chem, sl, jn, 1)
        except Exception as e:
            col.violation("c29-exception", "%s: calculator could not be built: %r" % (label, e), dict(label=label, exception=repr(e))); continue
        for ncall, super_n in enumerate([np.diag([2, 1, 1]), np.diag([1, 1, 2]), np.diag([1, 1, 2]), np.diag([1, 2, 1])]):
            spec = dict(label=label, lattice=crys.lattice.tolist(), basis=[[u.tolist() for u in b] for b in crys.basis], chem=chem,
                        cutoff=cut, supercell=super_n.tolist(), call_number_on_this_calculator=ncall + 1,
                        earlier_calls=[m_.tolist() for m_ in [np.diag([2, 1, 1]), np.diag([1, 1, 2]), np.diag([1, 1, 2])][:ncall]])
            with warnings.catch_warnings(record=True) as warns:
                warnings.simplefilter("always")
                try:
                    sd = d.makesupercells(super_n)
                except Exception as e:
                    col.violation("c29-exception", "%s %s: makesupercells raised %r" % (label, super_n.tolist(), e), dict(cfg=spec, exception=repr(e)))
                    continue
            stats["dictionaries"] += 1
            stats["repeated_call_dictionaries"] += 1
            jobs.append(check_superdict(ck, col, "vacancy", "%s call %d" % (label, ncall + 1), d, crys, chem, super_n, sd, list(warns), spec, stats))
    # vacancy-mediated calculators whose diffusing species occupies several Wyckoff positions, with a network that contains
    # jumps between inequivalent positions (omega0 endpoints then belong to different lone-vacancy states)
    def A(*x): return np.array(x, dtype=float)
    multi = [("tetragonal M(0,0,0)+M(1/2,1/2,+-0.3)", crystal.Crystal(np.diag([1., 1., 1.4]), [A(0, 0, 0), A(.5, .5, .3), A(.5, .5, -.3)]), 0),
             ("re3",) + gen.named("re3"), ("polar2w",) + gen.named("polar2w"),
             ("cubic corner+edge centres+body centre", crystal.Crystal(np.eye(3), [A(0, 0, 0), A(.5, 0, 0), A(0, .5, 0), A(0, 0, .5), A(.5, .5, .5)]), 0)]
    if ck.quick: multi = multi[:3]
    for label, crys, chem in multi:
        if not all(isinstance(x, str) for x in crys.chemistry):
            crys = crystal.Crystal(crys.lattice, crys.basis, chemistry=[str(x) for x in crys.chemistry])
        sl = crys.sitelist(chem)
        wy = {i: k for k, w_ in enumerate(sl) for i in w_}
        net = None
        for r in gen.shells(crys, chem)[:6]:
            jn = crys.jumpnetwork(chem, r + 1e-4)
            if not any(wy[jl[0][0][0]] != wy[jl[0][0][1]] for jl in jn) or sum(len(t) for t in jn) > 60: continue
            D = gen.exact_unitcell_D(len(crys.basis[chem]), jn, np.ones(len(crys.basis[chem])) / len(crys.basis[chem]), [[1.0] * len(t) for t in jn], 3)
            if np.linalg.eigvalsh(0.5 * (D + D.T)).min() > 1e-6: net = (r + 1e-4, jn); break
        if net is None: skipped["nonpercolating"] += 1; continue
        cut, jn = net
        d = OnsagerCalc.VacancyMediated(crys, chem, sl, jn, 1)
        for super_n in ([2 * np.eye(3, dtype=int)] if ck.quick else [2 * np.eye(3, dtype=int), np.diag([2, 2, 3]) if crys.N * 12 <= 60 else np.diag([1, 2, 2])]):
            spec = dict(label=label, lattice=crys.lattice.tolist(), basis=[[u.tolist() for u in b] for b in crys.basis], chem=chem,
                        cutoff=cut, supercell=super_n.tolist())
            with warnings.catch_warnings(record=True) as warns:
                warnings.simplefilter("always")
                try:
                    sd = d.makesupercells(super_n)
                except Exception as e:
                    col.violation("c29-exception", "%s %s: makesupercells raised %r" % (label, super_n.tolist(), e), dict(cfg=spec, exception=repr(e)))
                    continue
            stats["dictionaries"] += 1
            jobs.append(check_superdict(ck, col, "vacancy", label, d, crys, chem, super_n, sd, list(warns), spec, stats))
    if stats["omega0_cross_wyckoff"] == 0:
        col.violation("c29-generator-precondition", "no vacancy jump between inequivalent Wyckoff positions in the fixed multi-Wyckoff crystals "
                      "(site lists / jump networks of the fixed crystals are not what they are by construction)", dict(crystals=[m_[0] for m_ in multi]))
    for kind in ("interstitial", "vacancy"):
        made = 0
        names = ["hcp-oct-tet", "fcc-oct-tet", "bcc-tet", "sc", "b2-1", "polar2w", "diamond"] if kind == "interstitial" else \
                ["sc", "fcc", "bcc", "hcp", "b2", "diamond", "polar", "re3", "tet"]
        for label, crys, chem in gen.pool(rng, 6 * ncalc, dims=(3,), names=names, random_frac=0.4, maxatoms=2):
            if made >= ncalc: break
            if not all(isinstance(x, str) for x in crys.chemistry):
                crys = crystal.Crystal(crys.lattice, crys.basis, chemistry=[str(x) for x in crys.chemistry])
            try:
                net = gen.percolating_network(crys, chem, rng, maxjumps=40)
            except Exception:
                skipped["construct-failed"] += 1; continue
            if net is None: skipped["nonpercolating"] += 1; continue
            cut, sl, jn = net
            try:
                d = OnsagerCalc.Interstitial(crys, chem, sl, jn) if kind == "interstitial" else OnsagerCalc.VacancyMediated(crys, chem, sl, jn, 1)
            except Exception as e:
                skipped["construct-failed"] += 1; continue
            if kind == "vacancy" and len(d.kinetic.states) > 250: skipped["too-many-states"] += 1; continue
            made += 1
            for super_n in supercell_matrices(rng, crys, ck.n(2, 3)):
                spec = dict(label=label, lattice=crys.lattice.tolist(), basis=[[u.tolist() for u in b] for b in crys.basis], chem=chem,
                            cutoff=cut, supercell=super_n.tolist())
                with warnings.catch_warnings(record=True) as warns:
                    warnings.simplefilter("always")
                    try:
                        sd = d.makesupercells(super_n)
                    except Exception as e:
                        col.violation("c29-exception", "%s %s: %s.makesupercells raised %r" % (label, super_n.tolist(), kind, e), dict(cfg=spec, calculator=kind, exception=repr(e)))
                        continue
                stats["dictionaries"] += 1
                body, meta = check_superdict(ck, col, kind, label, d, crys, chem, super_n, sd, list(warns), spec, stats)
                jobs.append((body, meta))

    def work(job):
        body, meta = job
        out = ck.coq_cases("sd%d" % id(meta), body, IMPORTS)
        ev = sclib.parse_evals(out)
        if len(ev) != 6: raise CoqFailure("unexpected checker output: " + out[:300])
        return [sclib.nats_of(e) for e in ev]

    try:
        with ThreadPoolExecutor(max_workers=8) as ex:
            results = list(ex.map(work, jobs))
        nrun = 0
        for (body, meta), (bdef, binv, bmove, beq, bnone, bhalf) in zip(jobs, results):
            where = "%s %s" % (meta["label"], meta["super_n"])
            for k in bdef: col.violation("c29-checker-content", "%s: Coq checker: state supercell is not reference + named defects" % where, meta["defect"][k])
            for k in binv: col.violation("c29-checker-consistency", "%s: Coq checker: generated supercell is internally inconsistent" % where, meta["inv"][k])
            for k in bmove: col.violation("c29-checker-single-move", "%s: Coq checker: endpoints do not differ by one moving atom" % where, meta["move"][k])
            for k in beq: col.violation("c29-checker-mapping", "%s: Coq checker rejects the recorded mapping" % where, meta["equiv"][k])
            for k in bnone: col.violation("c29-checker-none", "%s: Coq scan finds an operation from a state to an endpoint recorded as unmapped" % where, meta["none"][k])
            inside_coq = [k not in bhalf for k in range(len(meta["half"]))]
            if inside_coq != meta["half"]:
                col.violation("c29-half-cell-evaluators", "%s: the Coq half-cell checker and the exact rational evaluation disagree on the kinetic-shell "
                              "vectors (%s vs %s)" % (where, inside_coq, meta["half"]), dict(cfg=meta["spec"]))
            nrun += len(meta["defect"]) + len(meta["inv"]) + len(meta["move"]) + len(meta["equiv"]) + len(meta["none"]) + len(meta["half"])
        ck.extra["checker_evaluations"] = nrun
    except CoqFailure as e:
        ck.broken_proof = "correspondence Model/SupercellMap checkers: %s" % e
        ck.note("CORRESPONDENCE FAILED: " + str(e)[:1500])
    ck.extra["skipped"] = skipped
    ck.extra.update(stats)
    col.flush()
    if hasattr(ck, "broken_proof") and ck.violations:
        ck.violation("proof obligation / correspondence no longer checks: " + ck.broken_proof.split("\n")[0],
                     {"obligation": ck.broken_proof}, key="c29-broken-obligation", no_input=True)


def replay(ck, path):
    """rebuild the calculator and supercell of a recorded case and run the direct evaluator again"""
    import json
    from onsager import OnsagerCalc, crystal
    doc = json.load(open(path))
    r = doc["replay"]
    c = r["cfg"]
    kind = r.get("calculator", "interstitial")
    crys = crystal.Crystal(np.array(c["lattice"]), [[np.array(u) for u in b] for b in c["basis"]])
    chem = c["chem"]
    sl, jn = crys.sitelist(chem), crys.jumpnetwork(chem, c["cutoff"])
    d = OnsagerCalc.Interstitial(crys, chem, sl, jn) if kind == "interstitial" else OnsagerCalc.VacancyMediated(crys, chem, sl, jn, 1)
    super_n = np.array(c["supercell"], dtype=int)
    col = Collector(ck)
    stats = dict(states=0, transitions=0, mappings=0, mappings_none=0, states_folded=0, transitions_folded=0, warning_cells=0,
                 cells_too_small=0, skipped_irrational=0, dictionaries=0, omega0_cross_wyckoff=0, multi_wyckoff_host_dictionaries=0, index_lookups=0, near_coincident_dictionaries=0, repeated_call_dictionaries=0)
    with warnings.catch_warnings(record=True) as warns:
        warnings.simplefilter("always")
        try:
            sd = d.makesupercells(super_n)
        except Exception as e:
            print("makesupercells raised %r" % (e,)); return 1
    check_superdict(ck, col, kind, c["label"], d, crys, chem, super_n, sd, list(warns), c, stats)
    for k, f in col.found.items(): print("VIOLATION reproduced [%s]: %s" % (k, f["msg"]))
    if not col.found: print("not reproduced by the direct evaluator (the Coq checkers are run by ./check C29)")
    return 1 if col.found else 0
