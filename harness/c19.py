"""C19  Cell reduction recovers the same crystal from any supercell.

Model: Model/Reduce.v -- the change of basis of one reduce() step and of the minlattice() steps (integer
matrices), and the summary checker `reduce_okb` of what reduction must preserve (volume per atom, atoms per
species, right-handedness, |G|), evaluated in Coq on exact integers for every generated supercell.
Theorems (Properties/C19.v): soundness of the summary checker (full meaning of `true`), and PARTIAL theorems
about the algorithm (determinants of the step matrices, volume per atom of a step under the divisibility the
code silently assumes, right-handedness after the signed permutation, shears unimodular) plus a REFUTATION:
a step is wrong when the smallest component of the translation numerator T does not divide M.

Tie (every run): random primitive crystals x random integer supercell matrices (|det| 2..6) x random atom
order x noise <= threshold/5 (thresholds 1e-8, 1e-6, 1e-5) -> Crystal(...) -> compared with the primitive description
(volume per atom, counts, handedness, |G|, multiset of interatomic distances up to 2 lattice constants); the lattice of the
result is expressed exactly in the primitive lattice (integer matrix U) and checked by the Coq checker."""
META = dict(
    level="proof",
    text=("Theorem (full): the summary checker evaluated on every generated case is sound: true means equal volume per atom "
          "(for every right-handed lattice), right-handed result, equal atoms per species, equal group order. Partial theorems "
          "about the algorithm: det of the reduce() step matrix = M^2|T_m| (>0, volume |T_m|/M), volume per atom kept by a step "
          "if |T_m| divides M, old lattice contained in the new one if T_m divides M, T_i, T_j, shears unimodular, signed "
          "permutation step right-handed, det(A N) = det N det A, box count of triangular supercells. Refuted (theorem + "
          "replayed witness): for M = 5, T = (2,0,0) the step does not contain the old lattice -- the implementation raises "
          "ArithmeticError on such supercells. Tie: implementation result vs primitive description, exact integers in Coq."),
    note=("Missing from the proofs: termination of the two recursions, the search for the translation (thresholded float "
          "comparisons, averaging of noisy positions), completeness (a non-trivial translation is always found); these are "
          "decided per generated input by the correspondence. Lattices in the volume statement are integer (rational after "
          "scaling); the float volume is compared at 1e-9 relative. Noise amplitude <= 0.2 x threshold in supercell unit coordinates; "
          "interatomic distances compared at 10 x threshold x (longest supercell vector, >= 1)."),
    technique="Coq verified summary checker + step lemmas (one refuted with witness) + exact correspondence on random supercells",
)

import itertools
import numpy as np
from fractions import Fraction as Fr
from . import latt
from .lib import CoqFailure, coq_list, coq_Z, coq_nat

PRE = latt.IMPORTS + "From Onsager Require Import Model.Reduce.\n"
DIAG = {1: "volume per atom differs (|det U| * atoms_prim != atoms_result)", 2: "atoms per species differ", 3: "result lattice is left-handed",
        4: "symmetry group order differs"}


class _V:  # minimal stand-in for latt.View (spec as its own exact description)
    pass


def spec_view(spec):
    v = _V(); v.dim = spec.dim; v.g = spec.g; v.basis = spec.basis
    v.spins = spec.spins if spec.spins is not None else [[0 for _ in ul] for ul in spec.basis]
    return v


def pseudo_translation_spec(rng, spec):
    """same lattice, decoration with a PSEUDO translation: every species has two atoms, the first species (and possibly
    others) is invariant under a half lattice vector h, at least one species is not -- so h must be rejected by reduce()"""
    d = spec.dim
    h = [Fr(0)] * d; h[rng.randrange(d)] = Fr(1, 2)
    if rng.random() < 0.5: h[rng.randrange(d)] = Fr(1, 2)
    grid = [Fr(0), Fr(1, 4), Fr(1, 3), Fr(1, 8), Fr(2, 5), Fr(1, 6)]
    basis, used = [], set()
    nchem = rng.randint(2, 3)
    for c in range(nchem):
        for _try in range(50):
            u = tuple(rng.choice(grid) for _ in range(d))
            if c < nchem - 1:
                v = tuple(latt.mod1(a + b) for a, b in zip(u, h))
            else:                       # the symmetry breaker: second atom NOT displaced by h
                v = tuple(latt.mod1(a + rng.choice([Fr(1, 3), Fr(1, 5), Fr(1, 4)]) * (1 if k == 0 else rng.choice([0, 1]))) for k, a in enumerate(u))
                if v == tuple(latt.mod1(a + b) for a, b in zip(u, h)): continue
            if u == v or u in used or v in used: continue
            used.update([u, v]); basis.append([u, v]); break
    if len(basis) < 2: return spec
    return latt.Spec(spec.label + "+pseudo", spec.A, spec.g, basis, None, spec.Aq)


def distance_lists(lattice, basis, rcut):
    """per ordered species pair: sorted array of all interatomic distances in (0, rcut) from the atoms of one cell"""
    A = np.asarray(lattice, dtype=float); d = A.shape[0]
    n = int(np.ceil(rcut * np.abs(np.linalg.inv(A)).sum(axis=1).max())) + 1
    cells = np.array(list(itertools.product(range(-n, n + 1), repeat=d)), dtype=float)
    out = {}
    for c1, l1 in enumerate(basis):
        for c2, l2 in enumerate(basis):
            ds = []
            for u in l1:
                for v in l2:
                    dx = (cells + (np.asarray(v) - np.asarray(u))) @ A.T
                    r = np.sqrt((dx * dx).sum(axis=1))
                    ds.append(r[(r > 1e-7) & (r < rcut)])
            out[(c1, c2)] = np.sort(np.concatenate(ds)) if ds else np.zeros(0)
    return out


def safe_cutoff(lattice, basis, r0):
    """a cutoff near r0 that is at least 2e-3 away from every interatomic distance of the exact primitive description"""
    ref = np.concatenate([v for v in distance_lists(lattice, basis, r0 + 0.1).values()] + [np.zeros(1)])
    r = r0
    while np.any(np.abs(ref - r) < 2e-3): r += 1.7e-3
    return r


def origin_shift(spec):
    """the same crystal with its first atom at the origin (so that copies sit at coordinate exactly 0)"""
    u0 = spec.basis[0][0]
    basis = [[tuple(latt.mod1(a - b) for a, b in zip(u, u0)) for u in ul] for ul in spec.basis]
    return latt.Spec(spec.label, spec.A, spec.g, basis, spec.spins, spec.Aq)


def magnetic_spec(rng, dim):
    """magnetic primitive cells whose CHEMICAL cell is smaller: an index-2 magnetic supercell (latt.afm_supercell) of a random crystal with
    2-3 species in which some species reverse their moment in the second half (antiferromagnetic sublattices) and the others keep it
    (ferromagnetic sublattices: ferrimagnet); scalar or vector moments.  Only translations that map every spin onto an EQUAL spin are
    symmetry translations, so this cell must survive reduce() although positions alone have half the period."""
    base = latt.random_spec(rng, dim=dim, maxatoms=3, nchem_max=3, spin_mode="none")
    nchem = len(base.basis)
    kind = rng.choice(["afm", "ferri", "ferri"]) if nchem >= 2 else "afm"
    flip = [True] * nchem
    if kind == "ferri":
        flip = [rng.random() < 0.5 for _ in range(nchem)]
        if all(flip): flip[rng.randrange(nchem)] = False
        if not any(flip): flip[rng.randrange(nchem)] = True
    if rng.random() < 0.5:
        bs = [[rng.choice([1, 1, 2]) for _ in ul] for ul in base.basis]
    else:
        ax = [tuple(1.0 if k == a else 0.0 for k in range(dim)) for a in range(dim)] + [tuple([1 / np.sqrt(dim)] * dim)]
        bs = [[rng.choice(ax) for _ in ul] for ul in base.basis]
    w = tuple(rng.choice([0, 1]) for _ in range(dim))
    if not any(w): w = tuple([1] + [0] * (dim - 1))
    sp = latt.afm_supercell(base, w, bs, label=base.label + "+" + kind, flip=flip)
    return sp


def spin_multiset(spins):
    """sorted per-species list of spins (scalars or vectors), rounded"""
    if spins is None: return None
    return [sorted(tuple(np.round(np.atleast_1d(np.asarray(x, dtype=float)), 6).tolist()) for x in sl) for sl in spins]


def random_supercell_matrix(rng, d, negative=False, skew=False):
    """integer matrix with entries -3..3 and det 2..6 (or -2..-6); skew: right-multiplied by 2-4 elementary shears with
    multipliers +-1, +-2 (same sublattice, sheared description, entries up to +-8)"""
    while True:
        N = [[rng.randint(-3, 3) for _ in range(d)] for _ in range(d)]
        det = int(latt.fdet([[Fr(x) for x in r] for r in N]))
        if not 2 <= (-det if negative else det) <= 6: continue
        if skew:
            M = np.array(N, dtype=int)
            for _ in range(rng.randint(2, 4)):
                a, b = rng.sample(range(d), 2)
                E = np.eye(d, dtype=int); E[a, b] = rng.choice([1, -1, 2, -2])
                M = M @ E
            if np.abs(M).max() > 8: continue
            N = M.tolist()
        return N, det


def supercell(rng, nr, spec, N, noise, disp=None):
    """supercell description: lattice A N, every atom repeated over the |det N| cosets, shuffled, noisy"""
    d = spec.dim
    Nq = [[Fr(int(x)) for x in r] for r in N]
    Ni = latt.finv(Nq); n = abs(int(latt.fdet(Nq)))
    basis, spins = [], []
    for c, ul in enumerate(spec.basis):
        out, sp = [], []
        for k, u in enumerate(ul):
            seen = []
            for x in itertools.product(range(n + 1), repeat=d):
                v = tuple(latt.mod1(y) for y in latt.fmat_vec(Ni, [a + b for a, b in zip(u, x)]))
                if v not in seen: seen.append(v)
                if len(seen) == n: break
            if len(seen) != n: raise RuntimeError("harness: %d cosets found for |det| = %d" % (len(seen), n))
            if disp and (c, k) in disp:     # the same small displacement on every copy of this atom (supercell unit coordinates)
                seen = [tuple(float(x) + float(dx) for x, dx in zip(v, disp[(c, k)])) for v in seen]
            out += seen; sp += [spec.spins[c][k] if spec.spins else 0] * n
        idx = list(range(len(out))); rng.shuffle(idx)
        basis.append([np.array([float(x) for x in out[i]]) + (nr.uniform(-noise, noise, d) if noise else 0.0) for i in idx])
        spins.append([sp[i] for i in idx])
    A = spec.A @ np.array(N, dtype=float)
    spins = [[(np.array(x, dtype=float) if isinstance(x, tuple) else x) for x in sl] for sl in spins]
    return A, basis, (spins if spec.spins is not None else None)


def run(ck):
    from onsager import crystal
    ck.rule = ("random primitive crystals (all crystal systems, 2-D/3-D, 1-3 species, <= 4 atoms, optional scalar spins; non-primitive "
               "decorations rejected by an exact test) x random integer supercell matrices with entries in -3..3 and det 2..6, half of them right-multiplied by 2-4 shears (entries up to +-8), plus 5 fixed skewed matrices (10% "
               "with det -2..-6: left-handed description) x random atom order x thresholds 1e-8 (default, half of the cases), 1e-6, 1e-5 passed to Crystal x per-copy uniform noise of both signs with "
               "amplitude 0, 0.05, 0.1 or 0.2 x threshold / (largest row sum of |N|) in supercell unit coordinates (the code compares differences of differences, and the noise is amplified by N in the reduced cell: decisions stay separated); in 60% of the cases the first atom is moved to the origin (copies at coordinate exactly 0, "
               "noisy copies straddle the cell boundary); "
               "distinct = distinct (crystal, matrix, order); all cases non-trivial (index >= 2)")
    ck.trusted += ["harness/latt.py, c19.py: supercell construction in exact rationals, rationalisation of the result lattice in the "
                   "primitive lattice (verified to 1e-9)", "float volume comparison at 1e-9 relative"]
    ck.theorems()
    rng = ck.rng
    nr = ck.nprng(19)
    stats = {"cases": 0, "rejected-nonprimitive": 0, "exceptions": 0, "coq": 0, "negdet": 0, "noisy": 0, "by-key": {}}
    def report(what, replay, key):
        stats["by-key"][key] = stats["by-key"].get(key, 0) + 1
        if stats["by-key"][key] <= 2: ck.violation(what, replay, key=key)
    # the witness of C19_reduce_step_refuted, replayed on the implementation
    wit = {"lattice": np.diag([5., 1., 1.]).tolist(), "basis_x_over_5": [0, 2, 4, 1, 3]}
    try:
        c = crystal.Crystal(np.diag([5., 1., 1.]), [[np.array([k / 5., 0., 0.]) for k in (0, 2, 4, 1, 3)]])
        ok = (c.N == 1 and abs(c.volume - 1.0) < 1e-9 and np.linalg.det(c.lattice) > 0 and len(c.G) == 48)
        ck.case(key="witness", nontrivial=True, kind="witness-refuted-step")
        if not ok:
            report("witness of C19_reduce_step_refuted: 5x1x1 supercell of simple cubic (atoms listed 0,2/5,4/5,1/5,3/5) is not reduced to "
                   "simple cubic: N=%d volume=%g |G|=%d" % (c.N, c.volume, len(c.G)), wit, "c19-reduce-nondividing")
    except ArithmeticError as e:
        ck.case(key="witness", nontrivial=True, kind="witness-refuted-step")
        report("witness of C19_reduce_step_refuted: Crystal(diag(5,1,1), atoms at x = 0, 2/5, 4/5, 1/5, 3/5) raises ArithmeticError: %s" % e,
               dict(wit, reproduce="Crystal(np.diag([5.,1.,1.]), [[np.array([k/5,0,0]) for k in (0,2,4,1,3)]])"), "c19-reduce-nondividing")
    # probe of the finding c19-minlattice-tie: simple hexagonal lattice (c/a = sqrt(8/3)), one atom, index-4 supercell; minlattice()
    # stops at a rounding tie (a_i.a_j / a_i^2 = 1/2 -+ 1e-16) with a cell [a1, a2, c + a1 - a2] whose rotations need entries +-2
    try:
        Ah = np.array([[.5, .5, 0.], [-np.sqrt(.75), np.sqrt(.75), 0.], [0., 0., np.sqrt(8. / 3.)]])
        Nh = np.array([[2, -2, 0], [2, 0, -2], [0, -2, 3]])
        pts = [np.array(v) for v in ([0., 0., 0.], [.5, 0., 0.], [.5, .5, 0.], [0., .5, 0.])]
        ch = crystal.Crystal(Ah @ Nh, [pts])
        ck.case(key="tie-probe", nontrivial=True, kind="probe-minlattice-tie")
        if not (ch.N == 1 and len(ch.G) == 24):
            report("index-4 supercell [[2,-2,0],[2,0,-2],[0,-2,3]] of the one-atom simple hexagonal lattice reduces to N=%d, |G|=%d (primitive: 1, 24); "
                   "reduced lattice %s" % (ch.N, len(ch.G), np.round(ch.lattice, 6).tolist()),
                   {"reproduce": "A=np.array([[.5,.5,0],[-np.sqrt(.75),np.sqrt(.75),0],[0,0,np.sqrt(8/3)]]); N=np.array([[2,-2,0],[2,0,-2],[0,-2,3]]); "
                                 "len(Crystal(A@N,[[np.array(v) for v in ([0.,0,0],[.5,0,0],[.5,.5,0],[0,.5,0])]]).G)  # 12, primitive cell gives 24"},
                   "c19-minlattice-tie")
    except Exception as e:
        report("tie probe raised %s: %s" % (type(e).__name__, e), {}, "c19-exception")
    terms = []
    ncases = ck.n(70, 1500)
    tries = 0
    # skewed supercells that need 8-10 passes of minlattice (always run)
    named = {s_.label: s_ for s_ in latt.named_specs()}
    forced = [(named["sc"], [[1, -2, -1], [-1, -2, 1], [-1, -3, 2]]), (named["hcp"], [[-1, 0, 0], [-3, -1, 3], [-1, 0, 2]]),
              (named["fcc"], [[3, 5, -2], [1, 2, 1], [-2, -1, 7]]), (named["square"], [[5, 8], [3, 5]]), (named["tria"], [[7, 3], [2, 2]])]
    o_, h_, i_ = Fr(0), Fr(1, 2), Fr(1)
    fAq = [[Fr(2), o_, o_], [o_, Fr(11, 10), o_], [o_, o_, Fr(13, 10)]]
    ferri = latt.Spec("ferrimagnet-doubled", np.array([[float(x) for x in r] for r in fAq]), latt.fmat_mul(latt.fmat_T(fAq), fAq),
                      [[(o_, o_, o_), (h_, o_, o_)], [(o_, h_, h_), (h_, h_, h_)]], [[1, 1], [1, -1]], fAq)
    ferriv = latt.Spec("ferrimagnet-doubled-vector", ferri.A, ferri.g, ferri.basis,
                       [[(0., 0., 1.), (0., 0., 1.)], [(1., 0., 0.), (-1., 0., 0.)]], fAq)
    forced += [(ferri, [[1, 0, 0], [0, 1, 0], [0, 0, 1]]), (ferri, [[2, 0, 0], [0, 1, 0], [0, 0, 1]]), (ferri, [[1, 0, 1], [0, 1, 1], [-1, 1, 3]]),
               (ferriv, [[1, 0, 0], [0, 2, 0], [0, 0, 1]]), (named["b2-afm"], [[2, 1, 0], [0, 1, 0], [0, 0, 1]])]
    stats["forced"] = len(forced)
    ncases += len(forced)
    while stats["cases"] < ncases and tries < 20 * ncases:
        tries += 1
        forced_case = bool(forced); family = "forced"
        if forced:
            spec, N = forced.pop(0)
            dim = spec.dim; det = int(latt.fdet([[Fr(x) for x in r] for r in N])); neg = det < 0
            thr, noise = 1e-8, 0.0
        else:
            dim = 2 if rng.random() < 0.35 else 3
            spec = latt.random_spec(rng, dim=dim, maxatoms=4, nchem_max=3, spin_mode=rng.choice(["none", "none", "scalar"]))
            pick = rng.random()
            if pick < 0.2:
                spec = pseudo_translation_spec(rng, spec)
            elif pick < 0.4:
                spec = magnetic_spec(rng, dim); stats["magnetic"] = stats.get("magnetic", 0) + 1
            if latt.pure_translations(spec_view(spec)):
                stats["rejected-nonprimitive"] += 1; continue
            thr = rng.choice([1e-8, 1e-8, 1e-6, 1e-5])
            if rng.random() < 0.25 and spec.natoms() >= 2 and not (pick >= 0.2 and pick < 0.4):   # (not for the magnetic index-2 cells: their own cell is skewed)
                # family "uniform displacement": plain diagonal supercell (det 2..4), ONE atom displaced by the same vector in
                # all its copies, amplitude 0.45 or 0.6 x threshold per component in SUPERCELL unit coordinates (below the threshold there;
                # stretched by the reduction factor in the reduced cell, where the code's scaled threshold must still accept it)
                diag = rng.choice([[2, 1, 1], [1, 2, 1], [1, 1, 2], [2, 2, 1], [1, 2, 2], [3, 1, 1], [1, 1, 3], [4, 1, 1], [1, 3, 1]] if dim == 3
                                  else [[2, 1], [1, 2], [3, 1], [1, 3], [2, 2], [1, 4]])
                M_ = np.diag(diag)
                # (pure diagonal only: calibrated on the unchanged tree -- with a shear the displacement is amplified by the row sum of N in
                #  the primitive cell's coordinates, beyond the reduction factor the code scales its threshold with, and operations are lost)
                N = M_.tolist(); det = int(round(np.linalg.det(M_))); neg = False
                sizes = [len(ul) for ul in spec.basis]
                cmin = min(range(len(sizes)), key=sizes.__getitem__)
                c_ = rng.randrange(len(sizes)); k_ = rng.randrange(sizes[c_])
                # the code compares S(u+d)+t with the image atom: the error is up to (1 + largest row sum of |S|) x amplitude when the atom is
                # mapped onto itself or fixes the translation: 2 x for signed-permutation rotations, 3 x for hexagonal-type ones
                rows = max(int(np.abs(S_).sum(axis=1).max()) for S_ in latt.holohedry(spec.g))
                amp = 0.45 if rows == 1 else 0.3
                disp = {(c_, k_): [amp * thr * rng.choice([1, -1]) for _ in range(dim)]}
                A, basis, spins = supercell(rng, nr, spec, N, 0.0, disp)
                noise = amp * thr
                stats["uniform-displacement"] = stats.get("uniform-displacement", 0) + 1
                family = "uniform"
            else:
                family = "percopy"
                neg = rng.random() < 0.1
                skew = rng.random() < 0.5
                N, det = random_supercell_matrix(rng, dim, neg, skew)
                stats["skewed"] = stats.get("skewed", 0) + int(skew)
                if rng.random() < 0.6: spec = origin_shift(spec)
            # per-copy noise of both signs in SUPERCELL unit coordinates; in the unit coordinates of the primitive cell it is amplified
            # by up to the largest row sum of |N|, and the code compares differences of differences (4 x amplitude): keep that below
            # the threshold so that threshold decisions stay separated
            if family == "percopy":
                amp = max(1, max(sum(abs(x) for x in r) for r in N))
                noise = rng.choice([0.0, 0.05, 0.1, 0.2, 0.2]) * thr / amp
        if forced_case or family == "percopy":
            A, basis, spins = supercell(rng, nr, spec, N, noise)
        stats["cases"] += 1; stats["negdet"] += int(neg); stats["noisy"] += int(noise > 0)
        replay = {"primitive": spec.describe(), "supercell_matrix": N, "det": det, "noise": noise, "threshold": thr,
                  "lattice": A.tolist(), "basis": [[u.tolist() for u in ul] for ul in basis], "spins": spins}
        ck.case(key=(spec.describe(), N, [[[round(float(x), 6) for x in u] for u in ul] for ul in basis]), nontrivial=True,
                kind="%dD-%s-det%d-thr%g-%s-%s" % (dim, family, det, thr, "noisy" if noise else "exact", "spins" if spins else "nospin"),
                sample={"primitive": spec.label, "atoms": spec.natoms(), "supercell_matrix": N, "det": det, "noise": noise, "threshold": thr} if len(ck.samples) < 6 else None)
        try:
            prim = latt.build(spec)      # the implementation on the primitive description
        except Exception as e:
            stats["exceptions"] += 1
            report("Crystal(primitive description) raised %s: %s" % (type(e).__name__, e), replay, "c19-primitive-exception"); continue
        cprim = [len(ul) for ul in spec.basis]
        if [len(ul) for ul in prim.basis] != cprim:
            report("the primitive description itself was changed by reduction: atoms per species %s -> %s (a translation that does not map "
                   "spins / atoms onto equal ones was accepted)" % (cprim, [len(ul) for ul in prim.basis]), replay, "c19-primitive-changed")
        try:
            res = crystal.Crystal(A, basis, spins=spins, threshold=thr) if thr != 1e-8 else crystal.Crystal(A, basis, spins=spins)
        except ArithmeticError as e:
            stats["exceptions"] += 1
            report("Crystal(supercell) raised ArithmeticError: %s" % e, replay,
                   "c19-reduce-nondividing" if "Reduction did not produce" in str(e) else "c19-exception")
            continue
        except Exception as e:
            stats["exceptions"] += 1
            report("Crystal(supercell) raised %s: %s" % (type(e).__name__, e), replay, "c19-exception"); continue
        cres = [len(ul) for ul in res.basis]
        vpa_exp = abs(float(np.linalg.det(spec.A))) / spec.natoms()
        vpa = res.volume / res.N
        detres = float(np.linalg.det(res.lattice))
        summary = {"atoms_result": cres, "atoms_primitive": cprim, "vol_per_atom": vpa, "expected": vpa_exp, "det_lattice": detres,
                   "|G|": len(res.G), "|G| primitive": len(prim.G)}
        if not abs(vpa - vpa_exp) <= 1e-9 * vpa_exp:
            report("volume per atom %.12g differs from the primitive description's %.12g" % (vpa, vpa_exp), dict(replay, **summary), "c19-volume-per-atom")
        if cres != cprim:
            report("atoms per species %s differ from the primitive cell's %s" % (cres, cprim), dict(replay, **summary), "c19-species-count")
        if spec.spins is not None and cres == cprim:
            ms_exp, ms_res = spin_multiset(spec.fspins()), spin_multiset(res.spins)
            if ms_res is None or any(len(a) != len(b) or not np.allclose(np.array(a), np.array(b), atol=1e-6) for a, b in zip(ms_exp, ms_res)):
                report("spins of the reduced crystal %s differ from the magnetic primitive description's %s" % (ms_res, ms_exp),
                       dict(replay, **summary), "c19-spins")
        # reduce() scales the threshold by M/|T_m| at every step (unit coordinates are stretched by that factor); each step divides the
        # atoms by the same factor, so a fully reduced result must carry threshold x (atoms in / atoms out)
        thr_exp = thr * (sum(len(ul) for ul in basis) / float(res.N))
        summary["threshold_result"] = res.threshold; summary["threshold_expected"] = thr_exp
        if not abs(res.threshold - thr_exp) <= 1e-9 * thr_exp:
            report("crys.threshold = %.6g after reduction by a factor %d, expected requested threshold x factor = %.6g (unit-cell coordinates "
                   "of the reduced cell are stretched by that factor)" % (res.threshold, round(thr_exp / thr), thr_exp), dict(replay, **summary), "c19-threshold-scaling")
        if not detres > 0:
            report("reduced lattice is left-handed (det %.6g)" % detres, dict(replay, **summary), "c19-lefthanded")
        # exact metric of the returned cell; is it sorted and pair-reduced (what minlattice() guarantees when it runs to completion)?
        gres = None; reduced = None; klass = None
        try:
            Uq = [[latt.rat(x, 720) for x in r] for r in np.linalg.solve(spec.A, res.lattice)]
            gres = latt.fmat_mul(latt.fmat_T(Uq), latt.fmat_mul(spec.g, Uq))
            reduced = (all(gres[i][i] <= gres[i + 1][i + 1] for i in range(dim - 1)) and
                       all(abs(2 * gres[i][j]) <= gres[i][i] for i in range(dim) for j in range(i + 1, dim)))
        except latt.Irrational:
            pass
        summary["result_lattice"] = res.lattice.tolist(); summary["pair_reduced"] = reduced
        if reduced is False:
            klass = "c19-not-reduced"
            report("minlattice() returned a cell that is not sorted / pair-reduced (metric %s)" % [[str(x) for x in r] for r in gres],
                   dict(replay, **summary), "c19-not-reduced")
        elif reduced and len(latt.holohedry(gres, 2)) != len(latt.holohedry(gres, 1)):
            # reduced by the code's own criterion, but at a tie a_i.a_j / a_i^2 = +-1/2: rotations need entries beyond +-1 (known finding)
            klass = "c19-minlattice-tie"
        summary["tie_class"] = (klass == "c19-minlattice-tie")
        if len(res.G) != len(prim.G):
            report("|G| = %d differs from the primitive description's %d%s" % (len(res.G), len(prim.G),
                   " [returned cell: %s]" % klass if klass else ""), dict(replay, **summary), klass or "c19-group-order")
        wy = lambda c_: sorted((min(w)[0], len(w)) for w in c_.Wyckoff)
        pg = lambda c_: sorted((ci, len(p)) for ci, l in enumerate(c_.pointG) for p in l)
        if cres == cprim and (wy(res) != wy(prim) or pg(res) != pg(prim)):
            report("Wyckoff sets / site point-group orders %s / %s differ from the primitive description's %s / %s%s" % (
                wy(res), pg(res), wy(prim), pg(prim), " [returned cell: %s]" % klass if klass else ""), dict(replay, **summary), klass or "c19-wyckoff")
        # geometry: multiset of interatomic distances per species pair, against the exact primitive description
        if cres == cprim:
            L = max(1.0, float(np.sqrt((A * A).sum(axis=0)).max()))
            dtol = 10 * thr * L
            rcut = safe_cutoff(spec.A, spec.fbasis(), 2.0 * float(np.sqrt((spec.A * spec.A).sum(axis=0)).min()))
            dref = distance_lists(spec.A, spec.fbasis(), rcut)
            dres = distance_lists(res.lattice, res.basis, rcut)
            worst = 0.0; bad = None
            for key in dref:
                a, b = dref[key], dres[key]
                if len(a) != len(b): bad = "species pair %s: %d distances below %.4f instead of %d" % (key, len(b), rcut, len(a)); break
                if len(a): worst = max(worst, float(np.abs(a - b).max()))
            stats["max-dist-err/thr"] = max(stats.get("max-dist-err/thr", 0.0), worst / thr)
            if bad or worst > dtol:
                report("interatomic distances of the reduced crystal differ from the primitive description: %s" %
                       (bad or "max deviation %.3g > %.3g" % (worst, dtol)), dict(replay, **summary, basis_result=[[u.tolist() for u in ul] for ul in res.basis]),
                       "c19-distances")
        # exact: the result lattice in the primitive lattice
        try:
            Uf = np.linalg.solve(spec.A, res.lattice)
            U = [[latt.rat(Uf[i, j], 720) for j in range(dim)] for i in range(dim)]
        except latt.Irrational as e:
            report("result lattice is not commensurate with the crystal's lattice: %s" % e, dict(replay, **summary), "c19-lattice-incommensurate"); continue
        if any(x.denominator != 1 for r in U for x in r):
            report("result lattice vectors are not lattice vectors of the crystal (U = %s)" % [[str(x) for x in r] for r in U],
                   dict(replay, **summary), "c19-lattice-not-sublattice"); continue
        gs = latt.lcmden([x for r in gres for x in r]) if gres is not None else 1
        Gint = [[int(x * gs) for x in r] for r in gres] if gres is not None else [[0] * dim for _ in range(dim)]
        terms.append(("((if reducedb %s (ml %s) then 0 else 10) + reduce_diag %s (ml %s) %s %s %s %s)%%nat" % (
            coq_nat(dim), coq_list([coq_list([coq_Z(x) for x in r]) for r in Gint]),
            coq_nat(dim), coq_list([coq_list([coq_Z(int(x)) for x in r]) for r in U]),
            coq_list([coq_Z(x) for x in cprim]), coq_list([coq_Z(x) for x in cres]), coq_Z(len(prim.G)), coq_Z(len(res.G))),
            dict(replay, **summary)))
    for a in range(0, len(terms), 250):
        ch = terms[a:a + 250]
        body = "Eval vm_compute in (map Z.of_nat %s)." % coq_list([t for t, _ in ch])
        try:
            out = ck.coq_cases("red%d" % a, body, PRE)
        except CoqFailure as e:
            ck.broken_proof = "correspondence Model/Reduce.reduce_diag: %s" % e; break
        res = latt.parse_Zlist(out)
        if len(res) != 1 or len(res[0]) != len(ch):
            ck.broken_proof = "correspondence Model/Reduce: could not parse the model output"; break
        for (t, replay), code in zip(ch, res[0]):
            stats["coq"] += 1
            if code >= 10:
                report("Coq certificate reducedb: the returned cell is not sorted / pair-reduced", replay, "c19-not-reduced")
                code -= 10
            if code != 0:
                report("Coq summary checker: " + DIAG.get(code, str(code)), replay,
                       "c19-minlattice-tie" if (code == 4 and replay.get("tie_class")) else "c19-coq-%d" % code)
    ck.extra["stats"] = stats
    ck.extra["skipped"] = {"nonprimitive-decoration": stats["rejected-nonprimitive"]}
    ck.extra["traces_validated_against_impl"] = stats["coq"]
    ck.note("cases=%d exceptions=%d coq=%d left-handed inputs=%d noisy=%d rejected non-primitive specs=%d" % (
        stats["cases"], stats["exceptions"], stats["coq"], stats["negdet"], stats["noisy"], stats["rejected-nonprimitive"]))
