"""C30  Automation tarballs are complete and self-consistent.

For supercell dictionaries of generated Interstitial and VacancyMediated calculators, automator.supercelltar writes an
archive into memory; the harness re-opens it and
  * checks tags.json against the directories actually in the archive (Coq: bijectionb) and against the dictionary's tags,
  * reads every POSCAR / POS file back with POSCAR_occ into a fresh supercell and compares occupation and ordering,
  * parses every trans.init / trans.final with its own reader, checks rot/trans/permutation against the recorded
    (g, mapping) (Coq: flatten_mapping, transfileb, equivb) and RUNS the bundled trans.pl with perl on the state's
    POSCAR (standing in for the relaxed CONTCAR); the printed structure must read back to the transition endpoint,
  * parses the Makefile: every prerequisite is an archive member or a CONTCAR of a relax directory of the archive
    (Coq: depsb); every endpoint file is either shipped or has a rule; and runs `make` for real on a few targets in a
    scratch directory.
If `import onsager.automator` fails the check reports it (key c30-import) -- nothing else can be evaluated."""
META = dict(
    level="proof",
    text=("Coq-verified checkers with soundness theorems (tag/directory bijection, semantics of a transformation file = the "
          "endpoint's atom lines are the images of the permuted atom lines of the state, closure of Makefile prerequisites) "
          "plus the C27/C28 theorems they rest on (exact equivalence mapping, POSCAR round trip) are run inside Coq on the "
          "contents of archives written by automator.supercelltar for generated interstitial and vacancy-mediated supercell "
          "dictionaries; the harness additionally runs the bundled perl script and make on the extracted files and reads "
          "every structure file back with POSCAR_occ."),
    note=("Partial: the tar container format, GNU make and the perl interpreter are runtimes outside the Coq model; they are "
          "exercised for real on every run. nebmake.pl (third-party VTST script) is only checked for presence. The CONTCAR of a "
          "relaxation is replaced by the unrelaxed POSCAR of the state. supercell.yaml is not examined. If onsager.automator "
          "cannot be imported (as before /repo 5b2a9b5: pkg_resources) the check can only report that (key c30-import)."),
    technique="Coq-verified checkers run on archive contents + running the bundled scripts",
)

import io, json, os, re, shutil, subprocess, tarfile, tempfile, warnings
from concurrent.futures import ThreadPoolExecutor
import numpy as np
from . import gen, sclib
from .lib import CoqFailure
from .sclib import z, zl, zll, sc_lit

IMPORTS = """From Coq Require Import List ZArith Bool.
From Onsager Require Import Model.Supercell Model.SupercellMap.
Import ListNotations.
Local Open Scope Z_scope.
"""


def state(sup):
    return [int(x) for x in sup.occ], [[int(i) for i in l] for l in sup.chemorder]


def s_lit(s):
    return zl([ord(ch) for ch in s])


def read_back(sup, text):
    """occupation and ordering obtained by reading text into a fresh copy of sup"""
    t = sup.copy()
    t.POSCAR_occ(text)
    return state(t)


def parse_trans(text):
    """own reader of a transformation file -> (relax dir, rot, trans, flat permutation)"""
    lines = text.split("\n")
    rot = [[int(x) for x in lines[1 + k].split()] for k in range(3)]
    trans = [float(x) for x in lines[4].split()]
    flat = [int(x) for x in lines[5].split()]
    return lines[0].strip(), rot, trans, flat


def run(ck):
    ck.rule = ("supercell dictionaries of generated Interstitial and VacancyMediated (Nthermo=1) calculators on 3-D crystals "
               "(supercells n*I and anisotropic; always including binary/ternary hosts with solute and multi-species hosts with an interstitial "
               "sublattice, i.e. three or more non-empty species blocks) -> archive in memory -> every member examined; an evaluation = one archive member "
               "checked (structure file, transformation file, Makefile rule, tag entry); distinct = distinct (crystal, supercell, "
               "member); non-trivial = structure/transformation files and rules (not the tag entries)")
    ck.trusted += ["harness/c30.py, sclib.py: reading the archive with the tarfile module, own parser for trans.* and the Makefile rules",
                   "perl 5 and GNU make as found on this machine; the state's POSCAR stands in for the relaxed CONTCAR"]
    ck.theorems()
    found = {}

    def violation(key, msg, replay):
        f = found.setdefault(key, dict(msg=msg, replay=replay, count=0))
        f["count"] += 1

    def flush():
        for key in sorted(found):
            f = found[key]
            f["replay"]["occurrences_in_this_run"] = f["count"]
            ck.violation("%s  (%d occurrences)" % (f["msg"], f["count"]), f["replay"], key=key)
        if hasattr(ck, "broken_proof") and ck.violations:
            ck.violation("proof obligation / correspondence no longer checks: " + ck.broken_proof.split("\n")[0],
                         {"obligation": ck.broken_proof}, key="c30-broken-obligation", no_input=True)

    try:
        from onsager import automator
    except Exception as e:
        ck.case(key="import", nontrivial=True, kind="import", sample={"statement": "import onsager.automator", "result": repr(e)})
        violation("c30-import", "import onsager.automator fails: %r -- no archive can be written at all" % (e,),
                  dict(statement="import onsager.automator", exception=repr(e),
                       proposed_patch="use pkgutil.get_data(__name__, name) instead of pkg_resources.resource_string(__name__, name)"))
        flush()
        return
    from onsager import OnsagerCalc, crystal
    rng = ck.rng
    stats = dict(archives=0, members=0, structure_files=0, trans_files=0, perl_runs=0, make_runs=0, rules=0, tags=0)
    skipped = {"nonpercolating": 0, "construct-failed": 0}
    jobs = []
    ncalc = ck.n(2, 10)
    scratch = tempfile.mkdtemp(prefix="c30_")

    def do_case(kind, label, crys, chem, m, fixed=False):
        """one calculator + supercell matrix -> dictionary -> archive -> checks; returns True if an archive was examined"""
        if not all(isinstance(x, str) for x in crys.chemistry):
            crys = crystal.Crystal(crys.lattice, crys.basis, chemistry=[str(x) for x in crys.chemistry])
        try:
            net = gen.percolating_network(crys, chem, rng, maxjumps=40)
        except Exception:
            skipped["construct-failed"] += 1; return False
        if net is None: skipped["nonpercolating"] += 1; return False
        cut, sl, jn = net
        try:
            d = OnsagerCalc.Interstitial(crys, chem, sl, jn) if kind == "interstitial" else OnsagerCalc.VacancyMediated(crys, chem, sl, jn, 1)
        except Exception:
            skipped["construct-failed"] += 1; return False
        if kind == "vacancy" and len(d.kinetic.states) > 250 and not fixed: return False
        if m is None:
            m = rng.choice([2, 2, 3]) * np.eye(3, dtype=int) if rng.random() < 0.7 else np.diag([rng.choice([2, 3]) for _ in range(3)])
        if crys.N * abs(int(round(np.linalg.det(m)))) > 60: m = 2 * np.eye(3, dtype=int)
        spec = dict(label=label, lattice=crys.lattice.tolist(), basis=[[u.tolist() for u in b] for b in crys.basis], chem=chem,
                    cutoff=cut, supercell=m.tolist(), calculator=kind)
        with warnings.catch_warnings():
            warnings.simplefilter("ignore")
            try:
                sd = d.makesupercells(m)
            except Exception as e:
                return True    # C29's business
        if any(len(v) != 2 for v in sd["transmapping"].values()): return True   # C29 finding (dropped mapping); not an input here
        stats["archives"] += 1
        nonempty = max(sum(1 for l in sup.chemorder if l) for sup in sd["states"].values())
        stats["max_nonempty_species"] = max(stats["max_nonempty_species"], nonempty)
        if nonempty >= 3: stats["archives_with_3plus_species"] += 1
        # default layout; the fixed cases also with the archive placed under a base directory (the Makefile then sits in it)
        extra = (["run1"] if fixed else (["calc/sub/"] if rng.random() < 0.3 else []))
        if ck.quick and (not fixed or stats["archives_with_basedir"] >= 2): extra = []      # quick: two base-directory archives per run
        for bd in [""] + extra:
            job = check_archive(ck, automator, violation, stats, sd, spec, label, scratch, rng, basedir=bd)
            if job: jobs.append(job)
        return True

    def A(*x): return np.array(x, dtype=float)
    # hosts with two or more species (+ solute / + interstitial sublattice): three or more non-empty species blocks in every
    # structure file, so that the per-species index offsets of the transformation files are exercised beyond the second block
    b2 = crystal.Crystal(np.eye(3), [[A(0, 0, 0)], [A(.5, .5, .5)]], chemistry=["A", "B"])
    l12 = crystal.Crystal(np.eye(3), [[A(0, 0, 0)], [A(.5, .5, 0), A(.5, 0, .5), A(0, .5, .5)]], chemistry=["Au", "Cu"])
    tern = crystal.Crystal(np.eye(3), [[A(0, 0, 0)], [A(.5, .5, .5)], [A(.5, .5, 0)]], chemistry=["A", "B", "C"])
    b2i = b2.addbasis(b2.Wyckoffpos(A(.5, 0, 0)), chemistry=["I"])
    terni = tern.addbasis(tern.Wyckoffpos(A(.5, 0, .5)), chemistry=["I"])
    two, three = 2 * np.eye(3, dtype=int), 3 * np.eye(3, dtype=int)
    fixed = [("vacancy", "B2 binary host + solute", b2, 0, two), ("vacancy", "L1_2 binary host + solute", l12, 1, two),
             ("vacancy", "ternary host + solute", tern, 0, two), ("interstitial", "B2 host + interstitial sublattice", b2i, 2, two)]
    # one-unit-cell supercells of multi-component crystals whose mobile sublattice has a single site: the vacancy / solute empties
    # or replaces a whole species, so structure files have an EMPTY species block in front of occupied ones
    rs = crystal.Crystal(0.5 * np.array([[0., 1, 1], [1, 0, 1], [1, 1, 0]]).T, [[A(0, 0, 0)], [A(.5, .5, .5)]], chemistry=["Na", "Cl"])
    fixed += [("vacancy", "B2 binary host + solute, ONE unit cell", b2, 0, np.eye(3, dtype=int)),
              ("vacancy", "rocksalt-like host + solute, ONE unit cell", rs, 0, np.eye(3, dtype=int))]
    if not ck.quick:
        fixed += [("vacancy", "B2 binary host + solute", b2, 1, three), ("vacancy", "ternary host + solute", tern, 1, np.diag([2, 2, 3])),
                  ("interstitial", "ternary host + interstitial sublattice", terni, 3, two),
                  ("interstitial", "B2 host + interstitial sublattice", b2i, 2, np.diag([2, 3, 2]))]
    stats["max_nonempty_species"] = 0
    stats["archives_with_3plus_species"] = 0
    stats["archives_with_basedir"] = 0
    try:
        for kind, label, crys, chem, m in fixed:
            do_case(kind, label, crys, chem, m, fixed=True)
        if stats["archives_with_3plus_species"] == 0:
            violation("c30-generator-precondition", "none of the fixed multi-species hosts gave a supercell dictionary with three or more non-empty "
                      "species (calculators could not be built or makesupercells left species out)", dict(hosts=[f_[1] for f_ in fixed], skipped=dict(skipped)))
        for kind in ("interstitial", "vacancy"):
            made = 0
            names = ["hcp-oct-tet", "fcc-oct-tet", "bcc-tet", "sc", "b2-1", "polar2w"] if kind == "interstitial" else \
                    ["sc", "fcc", "bcc", "hcp", "b2", "diamond", "polar", "tet"]
            for label, crys, chem in gen.pool(rng, 6 * ncalc, dims=(3,), names=names, random_frac=0.3, maxatoms=2):
                if made >= ncalc: break
                if do_case(kind, label, crys, chem, None): made += 1
    finally:
        shutil.rmtree(scratch, ignore_errors=True)

    def work(job):
        body, meta = job
        out = ck.coq_cases("tar%d" % id(meta), body, IMPORTS)
        ev = sclib.parse_evals(out)
        if len(ev) != 4: raise CoqFailure("unexpected checker output: " + out[:300])
        return [sclib.nats_of(e) for e in ev]

    try:
        with ThreadPoolExecutor(max_workers=8) as ex:
            results = list(ex.map(work, jobs))
        for (body, meta), (bbij, bflat, btrans, bdeps) in zip(jobs, results):
            if bbij: violation("c30-checker-tagmap", "%s: Coq checker: tags.json is not a bijection onto the directories" % meta["label"], dict(cfg=meta["spec"]))
            for k in bflat: violation("c30-checker-flatten", "%s: permutation line of %s is not the flattened mapping" % (meta["label"], meta["trans"][k]["file"]), meta["trans"][k])
            for k in btrans: violation("c30-checker-transfile", "%s: Coq checker rejects %s" % (meta["label"], meta["trans"][k]["file"]), meta["trans"][k])
            if bdeps: violation("c30-checker-deps", "%s: Coq checker: a Makefile prerequisite is neither shipped nor produced" % meta["label"], dict(cfg=meta["spec"]))
        ck.extra["checker_runs"] = len(jobs)
    except CoqFailure as e:
        ck.broken_proof = "correspondence Model/SupercellMap checkers: %s" % e
        ck.note("CORRESPONDENCE FAILED: " + str(e)[:1500])
    ck.extra["skipped"] = skipped
    ck.extra.update(stats)
    flush()


def check_archive(ck, automator, violation, stats, sd, spec, label, scratch, rng, basedir=""):
    """everything below works with names RELATIVE to the directory that holds the Makefile (= basedir inside the archive):
    that is where make is run and where the Makefile's paths are resolved"""
    if basedir:
        spec = dict(spec, basedir=basedir); label = "%s [basedir=%r]" % (label, basedir)
        stats["archives_with_basedir"] += 1
    rep0 = dict(cfg=spec)
    buf = io.BytesIO()
    try:
        with tarfile.open(fileobj=buf, mode="w") as tar:
            automator.supercelltar(tar, sd, basedir=basedir) if basedir else automator.supercelltar(tar, sd)
    except Exception as e:
        violation("c30-exception", "%s: supercelltar raised %r" % (label, e), dict(rep0, exception=repr(e)))
        return None
    buf.seek(0)
    tar = tarfile.open(fileobj=buf)
    prefix = (basedir.rstrip("/") + "/") if basedir else ""
    allmembers = {m.name: m for m in tar.getmembers()}
    outside = sorted(n for n in allmembers if not n.startswith(prefix))
    if outside:
        violation("c30-basedir", "%s: archive members outside basedir: %s" % (label, outside[:5]), dict(rep0, members=outside[:20]))
    members = {n[len(prefix):]: m for n, m in allmembers.items() if n.startswith(prefix)}
    stats["members"] += len(members)

    def text(name):
        return tar.extractfile(members[name]).read().decode("ascii")

    states, trans, tmap = sd["states"], sd["transitions"], sd["transmapping"]
    # ---- tag map -----------------------------------------------------------------------------------
    if "tags.json" not in members:
        violation("c30-tagmap", "%s: tags.json missing" % label, rep0); return None
    tagmap = json.loads(text("tags.json"))                    # directory -> tag
    dirs = sorted(n for n, m in members.items() if m.isdir())
    dir_of = {t: dname for dname, t in tagmap.items()}
    stats["tags"] += len(tagmap)
    for dname, t in tagmap.items():
        ck.case(key=(label, spec["supercell"], "tag", dname), nontrivial=False, kind="tag-entry")
    if set(tagmap.values()) != set(states) | set(trans) or len(dir_of) != len(tagmap) or set(tagmap) != set(dirs):
        violation("c30-tagmap", "%s: tags.json does not map the directories %s one-to-one onto the state and transition tags" % (label, dirs[:4]),
                  dict(rep0, tagmap=tagmap, directories=dirs))
    for t in states:
        if t in dir_of and not dir_of[t].startswith("relax."): violation("c30-tagmap", "%s: state %s is in %s" % (label, t, dir_of[t]), rep0)
    for t in trans:
        if t in dir_of and not dir_of[t].startswith("neb."): violation("c30-tagmap", "%s: transition %s is in %s" % (label, t, dir_of[t]), rep0)
    for need in ("trans.pl", "nebmake.pl", "Vasp.pm", "Makefile", "INCAR.relax", "INCAR.NEB"):
        if need not in members: violation("c30-missing-file", "%s: %s is not in the archive" % (label, need), dict(rep0, file=need))

    # ---- structure files read back -------------------------------------------------------------------
    def check_structure(name, sup, what):
        stats["structure_files"] += 1
        ck.case(key=(label, spec["supercell"], name), nontrivial=True, kind="structure-file",
                sample={"crystal": label, "supercell": spec["supercell"], "member": name, "describes": what, "first_lines": text(name).split("\n")[:7]}
                if stats["structure_files"] in (2, 50) else None)
        try:
            got = read_back(sup, text(name))
        except Exception as e:
            violation("c30-poscar-readback", "%s: %s cannot be read back: %r" % (label, name, e), dict(rep0, member=name)); return
        if got != state(sup):
            violation("c30-poscar-readback", "%s: %s does not read back to the supercell of %s" % (label, name, what), dict(rep0, member=name, expected=state(sup), got=got))

    if "reference" in sd:
        if "POSCAR" in members: check_structure("POSCAR", sd["reference"], "reference")
        else: violation("c30-missing-file", "%s: reference POSCAR missing" % label, rep0)
    for t, sup in states.items():
        n = dir_of.get(t, "?") + "/POSCAR"
        if n in members: check_structure(n, sup, t)
        else: violation("c30-missing-file", "%s: %s missing" % (label, n), dict(rep0, file=n))
    endpoint_file = {}
    for t, (s0, s1) in trans.items():
        for s, w, m in ((s0, "init", tmap[t][0]), (s1, "final", tmap[t][1])):
            n = "%s/%s.%s" % (dir_of.get(t, "?"), "POSCAR" if m is None else "POS", w)
            endpoint_file[(t, w)] = n
            if n in members: check_structure(n, s, "%s %s" % (w, t))
            else: violation("c30-missing-file", "%s: %s missing" % (label, n), dict(rep0, file=n))

    # ---- transformation files ------------------------------------------------------------------------------
    defs, c_flat, c_trans, m_trans = [], [], [], []
    names = {}

    def nm(sup):
        k = id(sup)
        if k not in names:
            names[k] = "s%d" % len(names)
            defs.append("Definition %s : sc := %s." % (names[k], sc_lit(*state(sup))))
        return names[k]

    workdir = tempfile.mkdtemp(dir=scratch)
    with open(os.path.join(workdir, "trans.pl"), "w") as f: f.write(text("trans.pl") if "trans.pl" in members else "")
    produced = set()
    for t in sorted(tmap):
        for m, w, s in zip(tmap[t], ("init", "final"), trans[t]):
            if m is None: continue
            n = "%s/trans.%s" % (dir_of.get(t, "?"), w)
            stag, g, mapping = m
            stats["trans_files"] += 1
            rep = dict(rep0, file=n, transition=t, endpoint=w, state_tag=stag, indexmap=list(g.indexmap[0]), mapping=mapping)
            ck.case(key=(label, spec["supercell"], n), nontrivial=True, kind="trans-file",
                    sample={"crystal": label, "supercell": spec["supercell"], "member": n, "content": text(n).split("\n")} if (n in members and stats["trans_files"] == 3) else None)
            if n not in members:
                violation("c30-missing-file", "%s: %s missing" % (label, n), rep); continue
            produced.add("%s/POSCAR.%s" % (dir_of[t], w))
            try:
                relax, rot, tr, flat = parse_trans(text(n))
            except Exception as e:
                violation("c30-transfile-format", "%s: %s unparsable: %r" % (label, n, e), rep); continue
            if relax != dir_of.get(stag): violation("c30-transfile-state", "%s: %s names %s, the state %s is in %s" % (label, n, relax, stag, dir_of.get(stag)), rep)
            if rot != g.rot.tolist() or np.abs(np.array(tr) - g.trans).max() > 1e-12:
                violation("c30-transfile-op", "%s: %s does not carry rot/trans of the recorded operation" % (label, n), rep)
            A, B = states[stag], s
            c_flat.append("zlist_eqb (flatten_mapping %s) %s" % (zll(mapping), zl(flat)))
            c_trans.append("transfileb %s %s %s %s && equivb %s %s %s %s" % (zl(g.indexmap[0]), zl(flat), nm(A), nm(B), zl(g.indexmap[0]), zll(mapping), nm(A), nm(B)))
            m_trans.append(dict(rep, flat=flat))
            # run the bundled script on the state's structure file
            stats["perl_runs"] += 1
            with open(os.path.join(workdir, "trans"), "w") as f: f.write(text(n))
            with open(os.path.join(workdir, "CONTCAR"), "w") as f: f.write(text(dir_of[stag] + "/POSCAR"))
            p = subprocess.run(["perl", "trans.pl", "trans", "CONTCAR"], cwd=workdir, stdout=subprocess.PIPE, stderr=subprocess.PIPE, text=True, timeout=60)
            if p.returncode != 0:
                violation("c30-perl", "%s: trans.pl failed on %s: %s" % (label, n, p.stderr[:200]), rep); continue
            try:
                got = read_back(B, p.stdout)
            except Exception as e:
                violation("c30-transform", "%s: output of trans.pl for %s cannot be read as a structure of the supercell: %r" % (label, n, e), rep); continue
            if got != state(B):
                violation("c30-transform", "%s: trans.pl applied to the structure of %s with %s does not give the %s endpoint of %s" % (label, stag, n, w, t),
                          dict(rep, expected=state(B), got=got))

    # ---- Makefile ---------------------------------------------------------------------------------------------
    mk = text("Makefile") if "Makefile" in members else ""
    rules = [l for l in mk.split("# structure of NEB runs:")[-1].split("\n") if ":" in l and not l.startswith("\t") and not l.startswith("#")]
    will_exist = set(members) | {d + "/CONTCAR" for d in dirs if d.startswith("relax.")}
    deps = []
    targets = set()
    for l in rules:
        stats["rules"] += 1
        tgt, pre = l.split(":", 1)
        targets.add(tgt.strip())
        ck.case(key=(label, spec["supercell"], "rule", l), nontrivial=True, kind="makefile-rule")
        for p_ in pre.split():
            deps.append(p_)
            if p_ not in will_exist:
                violation("c30-makefile-dependency", "%s: Makefile rule '%s' needs %s which is neither in the archive nor produced by a relaxation" % (label, l, p_), dict(rep0, rule=l))
    if targets != produced:
        violation("c30-makefile-rules", "%s: Makefile rules %s do not match the transformation files %s" % (label, sorted(targets - produced)[:3], sorted(produced - targets)[:3]), rep0)
    for t in trans:
        for w in ("init", "final"):
            n = "%s/POSCAR.%s" % (dir_of.get(t, "?"), w)
            if n not in members and n not in targets:
                violation("c30-makefile-endpoint", "%s: %s is neither shipped nor has a rule" % (label, n), rep0)
    for d_ in dirs:
        if d_.startswith("relax.") and d_ + "/NEBlist" in members:
            for nb in text(d_ + "/NEBlist").split():
                if not any(l.startswith(nb + "/") and l.rstrip().endswith(d_ + "/CONTCAR") for l in rules):
                    violation("c30-neblist", "%s: %s/NEBlist names %s which does not depend on it" % (label, d_, nb), rep0)
    # ---- make, for real, on a few targets --------------------------------------------------------------------------
    if targets and shutil.which("make"):
        root = tempfile.mkdtemp(dir=scratch)
        for name, m in members.items():
            path = os.path.join(root, name)
            if m.isdir(): os.makedirs(path, exist_ok=True)
        for name, m in members.items():
            path = os.path.join(root, name)
            if m.isfile():
                os.makedirs(os.path.dirname(path), exist_ok=True)
                with open(path, "wb") as f: f.write(tar.extractfile(m).read())
                os.chmod(path, m.mode)
        for d_ in dirs:
            if d_.startswith("relax."): shutil.copy(os.path.join(root, d_, "POSCAR"), os.path.join(root, d_, "CONTCAR"))
        for tgt in rng.sample(sorted(targets), min(2, len(targets))):
            stats["make_runs"] += 1
            p = subprocess.run(["make", tgt], cwd=root, stdout=subprocess.PIPE, stderr=subprocess.STDOUT, text=True, timeout=120)
            t = tagmap.get(tgt.split("/")[0])
            w = tgt.rsplit(".", 1)[1]
            out = os.path.join(root, tgt)
            rep = dict(rep0, target=tgt, make_output=p.stdout[-400:])
            if p.returncode != 0 or not os.path.exists(out):
                violation("c30-make", "%s: make %s failed: %s" % (label, tgt, p.stdout[-200:]), rep); continue
            B = trans[t][0 if w == "init" else 1]
            try:
                got = read_back(B, open(out).read())
            except Exception as e:
                got = repr(e)
            if got != state(B):
                violation("c30-make", "%s: the file built by make %s is not the %s endpoint of %s" % (label, tgt, w, t), dict(rep, expected=state(B), got=got))
    # ---- Coq body ----------------------------------------------------------------------------------------------------
    pairs = "[" + "; ".join("(%s, %s)" % (s_lit(t), s_lit(dname)) for dname, t in sorted(tagmap.items())) + "]"
    body = "\n".join(defs) + "\n"
    body += "Eval vm_compute in (falses [bijectionb %s %s] 0).\n" % (pairs, "[" + "; ".join(s_lit(d_) for d_ in dirs) + "]")
    body += "Eval vm_compute in (falses [%s] 0).\n" % "; ".join(c_flat)
    body += "Eval vm_compute in (falses [%s] 0).\n" % "; ".join(c_trans)
    body += "Eval vm_compute in (falses [depsb %s %s] 0).\n" % ("[" + "; ".join(s_lit(x) for x in sorted(set(deps))) + "]",
                                                                 "[" + "; ".join(s_lit(x) for x in sorted(will_exist)) + "]")
    tar.close()
    return body, dict(label=label, spec=spec, trans=m_trans)


def replay(ck, path):
    """import failure: try the import again; archive findings: rebuild the dictionary and examine the archive again"""
    doc = json.load(open(path))
    r = doc["replay"]
    try:
        from onsager import automator
    except Exception as e:
        print("import onsager.automator -> %r" % (e,)); print("VIOLATION reproduced [c30-import]"); return 1
    if "cfg" not in r: print("import works now; not reproduced"); return 0
    from onsager import OnsagerCalc, crystal
    c = r["cfg"]
    crys = crystal.Crystal(np.array(c["lattice"]), [[np.array(u) for u in b] for b in c["basis"]])
    chem = c["chem"]
    sl, jn = crys.sitelist(chem), crys.jumpnetwork(chem, c["cutoff"])
    d = OnsagerCalc.Interstitial(crys, chem, sl, jn) if c["calculator"] == "interstitial" else OnsagerCalc.VacancyMediated(crys, chem, sl, jn, 1)
    with warnings.catch_warnings():
        warnings.simplefilter("ignore")
        sd = d.makesupercells(np.array(c["supercell"], dtype=int))
    found = {}
    stats = dict(archives=0, members=0, structure_files=0, trans_files=0, perl_runs=0, make_runs=0, rules=0, tags=0, archives_with_basedir=0)
    scratch = tempfile.mkdtemp(prefix="c30_")
    try:
        check_archive(ck, automator, lambda k, m, rep: found.setdefault(k, m), stats, sd, {k_: v_ for k_, v_ in c.items() if k_ != "basedir"}, c["label"], scratch, ck.rng, basedir=c.get("basedir", ""))
    finally:
        shutil.rmtree(scratch, ignore_errors=True)
    for k, m in found.items(): print("VIOLATION reproduced [%s]: %s" % (k, m))
    if not found: print("not reproduced by the direct evaluator (the Coq checkers are run by ./check C30)")
    return 1 if found else 0
