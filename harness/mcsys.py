"""Small Monte Carlo sampler systems shared by the C33 / C34 / C35 checks.

A *system* is everything needed to construct onsager.cluster.MonteCarloSampler the way
test/test_cluster.py does: crystal, superlattice, spectator species and their occupation,
cluster expansion (+ vacancy clusters), integer energy values (so that every energy the sampler
reports is an exactly representable integer and can be compared exactly with the Coq model over Z),
optionally a vacancy, a jump network, KRA values and transition-state clusters.
Every random choice derives from the rng passed in."""
import itertools, copy
import numpy as np
from onsager import crystal, supercell, cluster


def _a(*x): return np.array(x, dtype=float)


def _with_interstitials(c, ulist):
    basis = []
    for u in ulist: basis += c.Wyckoffpos(u)
    return c.addbasis(basis)


def _crystals():
    s = {}
    s["chain"] = (lambda: crystal.Crystal(np.diag([1., 3., 3.2]), [_a(0, 0, 0)]), 0, ())
    s["ladder"] = (lambda: crystal.Crystal(np.diag([1., 1.1, 3.]), [_a(0, 0, 0)]), 0, ())
    s["sc"] = (lambda: crystal.Crystal(np.eye(3), [_a(0, 0, 0)]), 0, ())
    s["fcc"] = (lambda: crystal.Crystal.FCC(1.), 0, ())
    s["bcc"] = (lambda: crystal.Crystal.BCC(1.), 0, ())
    s["hcp"] = (lambda: crystal.Crystal.HCP(1.), 0, ())
    # several mobile sites per cell, jumps between DIFFERENT basis indices (diamond, cubic cell with a two-atom basis)
    s["diamond"] = (lambda: crystal.Crystal(0.5 * _a([0, 1, 1], [1, 0, 1], [1, 1, 0]).T, [_a(0, 0, 0), _a(.25, .25, .25)]), 0, ())
    s["cub2"] = (lambda: crystal.Crystal(np.eye(3), [_a(0, 0, 0), _a(.5, .5, .3)]), 0, ())
    # (.4, not .5: Crystal() would reduce a half-translation to a one-site cell)
    # mobile sites in TWO Wyckoff sets connected by jumps: three-site chain ({0,.6} and {.3}); FCC / HCP host (spectator)
    # with octahedral + tetrahedral interstitial sites (mobile chemistry 1)
    s["chain3"] = (lambda: crystal.Crystal(np.diag([1., 3., 3.2]), [_a(0, 0, 0), _a(.3, 0, 0), _a(.6, 0, 0)]), 0, ())
    s["fccot"] = (lambda: _with_interstitials(crystal.Crystal.FCC(1.), [_a(.5, .5, .5), _a(.25, .25, .25)]), 1, (0,))
    s["hcpot"] = (lambda: _with_interstitials(crystal.Crystal.HCP(1.), [_a(0, 0, .5), _a(1. / 3, 2. / 3, 0.625)]), 1, (0,))
    s["chain2"] = (lambda: crystal.Crystal(np.diag([1., 3., 3.2]), [_a(0, 0, 0), _a(.4, 0, 0)]), 0, ())
    # two chemistries, chem 1 spectator (B2-like, and a chain decorated with spectators)
    s["b2spec"] = (lambda: crystal.Crystal(np.eye(3), [[_a(0, 0, 0)], [_a(.5, .5, .5)]]), 0, (1,))
    s["chainspec"] = (lambda: crystal.Crystal(np.diag([1., 3., 3.2]), [[_a(0, 0, 0)], [_a(.5, .2, 0)]]), 0, (1,))
    # two mobile chemistries, only chem 0 jumps
    s["chain2chem"] = (lambda: crystal.Crystal(np.diag([1., 3., 3.2]), [[_a(0, 0, 0)], [_a(.5, .2, 0)]]), 0, ())
    # variants in which some mobile sites carry NO interaction (see OPTIONS): the second mobile sublattice is excluded from
    # the cluster expansion / the expansion is empty (constant only) / every cluster needs an occupied spectator site
    s["b2mobx"] = (lambda: crystal.Crystal(np.eye(3), [[_a(0, 0, 0)], [_a(.5, .5, .5)]]), 0, ())
    s["chain2chemx"] = s["chain2chem"]
    s["chainempty"] = s["chain"]
    s["chainspecoff"] = s["chainspec"]
    return s


CRYSTALS = _crystals()
OPTIONS = {"b2mobx": dict(exclude=(1,)), "chain2chemx": dict(exclude=(1,)), "chainempty": dict(empty=True, nojumps=True),
           "chainspecoff": dict(spec_only=True, nojumps=True)}
ZERO_INTERACTION = ["b2mobx", "chain2chemx", "chainempty", "chainspecoff"]

# name -> (cluster cutoff, max order, jump cutoff, list of superlattices (diagonal tuples or full matrices))
SETUPS = {
    "chain": [(1.1, 2, 1.1), (2.1, 3, 1.1), (2.1, 3, 2.1)],
    "ladder": [(1.2, 2, 1.2), (1.6, 3, 1.2)],
    "sc": [(1.01, 2, 1.01), (1.5, 3, 1.01)],
    "fcc": [(0.8, 3, 0.8)],
    "bcc": [(0.9, 2, 0.9), (1.01, 3, 0.9)],
    "hcp": [(1.01, 3, 1.01), (1.01, 2, 1.01)],
    "diamond": [(0.45, 2, 0.45), (0.72, 3, 0.45)],
    "cub2": [(0.8, 2, 0.8), (1.01, 3, 0.8)],
    "chain2": [(0.65, 2, 0.65), (1.1, 3, 0.65)],
    "chain3": [(0.45, 2, 0.35), (0.75, 3, 0.45)],
    "fccot": [(0.45, 2, 0.45), (0.51, 3, 0.45)],
    "hcpot": [(0.62, 2, 0.62)],
    "b2spec": [(1.01, 3, 1.01)],
    "chainspec": [(1.1, 3, 1.1)],
    "chain2chem": [(1.1, 3, 1.1)],
    "b2mobx": [(1.01, 3, 1.01), (1.01, 2, 1.01)],
    "chain2chemx": [(1.1, 3, 1.1)],
    "chainempty": [(1.1, 2, 1.1)],
    "chainspecoff": [(1.1, 3, 1.1)],
}

SUPERS = {
    "chain": [(3, 1, 1), (4, 1, 1), (5, 1, 1), (6, 1, 1), (7, 1, 1), (8, 1, 1), (10, 1, 1), (2, 1, 1), (1, 1, 1)],
    "ladder": [(3, 3, 1), (4, 3, 1), (3, 2, 1), (5, 3, 1), (2, 2, 1), [[2, 1, 0], [0, 3, 0], [0, 0, 1]]],
    "sc": [(2, 2, 2), (3, 3, 1), (3, 2, 2), (2, 2, 1), (3, 3, 3), [[2, 1, 0], [0, 2, 1], [0, 0, 2]], (1, 1, 1)],
    "fcc": [(2, 2, 2), [[-1, 1, 1], [1, -1, 1], [1, 1, -1]], (3, 2, 2), (3, 3, 3), (1, 1, 1), (2, 1, 1)],
    "bcc": [(2, 2, 2), [[0, 1, 1], [1, 0, 1], [1, 1, 0]], (3, 2, 2), (3, 3, 3)],
    "hcp": [(2, 2, 1), (2, 2, 2), (3, 3, 2), (1, 1, 1), (3, 3, 1), (3, 2, 2)],
    "diamond": [(2, 2, 2), (2, 2, 1), [[-1, 1, 1], [1, -1, 1], [1, 1, -1]], (3, 2, 2), (3, 3, 3)],
    "cub2": [(2, 2, 2), (2, 2, 1), (3, 2, 2), (3, 3, 2), [[2, 1, 0], [0, 2, 1], [0, 0, 2]]],
    "chain2": [(3, 1, 1), (4, 1, 1), (5, 1, 1), (2, 1, 1)],
    "chain3": [(3, 1, 1), (4, 1, 1), (5, 1, 1), (2, 1, 1)],
    "fccot": [(2, 2, 2), [[-1, 1, 1], [1, -1, 1], [1, 1, -1]], (3, 2, 2)],
    "hcpot": [(2, 2, 1), (2, 2, 2), (3, 3, 2)],
    "b2spec": [(2, 2, 2), (2, 2, 1), (3, 2, 2)],
    "chainspec": [(4, 1, 1), (6, 1, 1), (3, 1, 1)],
    "chain2chem": [(3, 1, 1), (4, 1, 1), (5, 1, 1)],
    "b2mobx": [(2, 2, 1), (2, 2, 2), (2, 1, 1)],
    "chain2chemx": [(3, 1, 1), (4, 1, 1), (5, 1, 1)],
    "chainempty": [(3, 1, 1), (6, 1, 1)],
    "chainspecoff": [(4, 1, 1), (6, 1, 1), (8, 1, 1)],
}


def superlatt(s):
    if isinstance(s, tuple): return np.diag(s).astype(int)
    return np.array(s, dtype=int)


class System(object):
    pass


_CRYS_CACHE = {}
_CLUSTER_CACHE = {}


def build(rng, name, setup=None, sup=None, vacancy=False, jumps=False, ts=False, vals="int", kra="int",
          vac_index=None):
    """construct a System; returns None if the combination is not constructible (no jumps for the cutoff)"""
    mk, chem, spect = CRYSTALS[name]
    if name not in _CRYS_CACHE: _CRYS_CACHE[name] = mk()      # Crystal() is slow for elongated cells (BZ construction)
    crys = _CRYS_CACHE[name]
    opt = OPTIONS.get(name, {})
    if opt.get("nojumps") and jumps: return None      # (the jump evaluators need a cluster on every jumping site)
    cutoff, order, jcut = setup if setup is not None else rng.choice(SETUPS[name])
    sl = superlatt(sup if sup is not None else rng.choice(SUPERS[name]))
    S = System()
    S.name, S.crys, S.chem, S.spect = name, crys, chem, spect
    S.cutoff, S.order, S.jcut, S.superlatt = cutoff, order, jcut, sl
    S.sup = supercell.ClusterSupercell(crys, sl, spectator=spect)
    S.Nsites = S.sup.size * S.sup.Nmobile
    S.vacancy = -1
    if vacancy:
        # the vacancy must sit on the sublattice that jumps
        cand = [n for n in range(S.Nsites) if S.sup.ciR(n)[0][0] == chem]
        S.vacancy = int(vac_index if vac_index is not None else rng.choice(cand))
        S.sup.addvacancy(S.vacancy)
    if (name, cutoff, order) not in _CLUSTER_CACHE:
        cl = cluster.makeclusters(crys, cutoff, order, exclude=opt.get("exclude", ()))
        if opt.get("empty"): cl = []
        if opt.get("spec_only"): cl = [c for c in cl if any(site.ci[0] in spect for site in next(iter(c)))]
        _CLUSTER_CACHE[name, cutoff, order] = cl
    bare = _CLUSTER_CACHE[name, cutoff, order]
    S.clusterexp = list(bare)
    S.vacclusters = []
    if vacancy:
        S.vacclusters = cluster.makeVacancyClusters(crys, chem, bare)
        S.clusterexp = S.clusterexp + S.vacclusters
    n = len(S.clusterexp)
    # integer energies; even when a jump network is present (the evaluator halves them)
    step = 2 if jumps else 1
    if vals in ("ext", "huge") and jumps: return None       # (the jump evaluators add +v/2 and -v/2 of one cluster: inf - inf)
    S.valkind = vals
    if vals in ("int", "ext", "huge"):
        S.values = np.array([step * rng.randint(-6, 6) for _ in range(n + 1)], dtype=float if (jumps or vals != "int") else int)
        if vals != "int":
            # extended values on clusters with >= 2 mobile sites and no spectator (hard-core exclusion +inf, 0, huge 1e300):
            # an interaction that is OFF contributes nothing whatever its value
            for k, cl in enumerate(S.clusterexp):
                c0 = next(iter(cl))
                if c0.Norder >= 2 and all(site.ci[0] not in spect for site in c0.sites):
                    r = rng.random()
                    S.values[k] = np.inf if r < 0.4 else (0. if r < 0.55 else (1e300 if (vals == "huge" and r < 0.8) else S.values[k]))
    else:
        S.values = np.array([rng.uniform(-1, 1) for _ in range(n + 1)])
    if vacancy and vals in ("int", "ext", "huge"):
        # distinct values for the bare (vacancy site only) vacancy clusters of the different Wyckoff sets
        bare_v = [len(bare) + k for k, cl in enumerate(S.vacclusters) if next(iter(cl)).Norder == 0]
        for k, v in zip(bare_v, rng.sample(range(-6, 7), len(bare_v))): S.values[k] = step * v
    S.socc = np.array([rng.choice((0, 1)) for _ in range(S.sup.size * S.sup.Nspec)], dtype=int)
    S.jumpnetwork, S.TSclusters, S.TSvalues, S.KRA = None, (), (), 0
    if jumps:
        S.jumpnetwork = crys.jumpnetwork(chem, jcut)
        if sum(len(j) for j in S.jumpnetwork) == 0: return None
        if kra == "int":
            S.KRA = np.array([float(rng.randint(0, 9)) for _ in S.jumpnetwork])
        else:
            S.KRA = np.array([rng.uniform(0, 2) for _ in S.jumpnetwork])
        if ts:
            S.TSclusters = cluster.makeTSclusters(crys, chem, S.jumpnetwork, S.vacclusters if vacancy else bare)
            if vals == "int":
                S.TSvalues = np.array([float(rng.randint(-5, 5)) for _ in S.TSclusters])
            else:
                S.TSvalues = np.array([rng.uniform(-1, 1) for _ in S.TSclusters])
    S.label = "%s-%s-c%g-o%d%s%s%s" % (name, "x".join(str(int(x)) for x in sl.flatten()) if sl.trace() != sl.sum()
                                         else "x".join(str(int(x)) for x in np.diag(sl)), cutoff, order,
                                         "-vac%d" % S.vacancy if vacancy else "", "-jn%g" % jcut if jumps else "",
                                         "-ts" if ts and len(S.TSclusters) else "")
    S.MC = sampler(S)
    if opt.get("spec_only"):
        # make sure the spectator occupation leaves at least one mobile site without any interaction
        for _ in range(20):
            if any(n == 0 for i, n in enumerate(S.MC.Ninteract) if i != S.vacancy): break
            S.socc = np.array([1 if rng.random() < 0.4 else 0 for _ in S.socc], dtype=int)
            S.MC = sampler(S)
    return S


def sampler(S, sup=None):
    """a new MonteCarloSampler for the system (optionally on another ClusterSupercell, e.g. vacancy moved)"""
    sup = sup if sup is not None else S.sup
    if S.jumpnetwork is None:
        MC = cluster.MonteCarloSampler(sup, S.socc, S.clusterexp, S.values)
    else:
        MC = cluster.MonteCarloSampler(sup, S.socc, S.clusterexp, S.values, S.chem, S.jumpnetwork,
                                       KRAvalues=S.KRA, TSclusters=S.TSclusters, TSvalues=S.TSvalues)
    # a never-used twin (own copies of every mutable container the object may hold), from which fresh samplers are cloned
    MC._verif_kind = getattr(S, "valkind", "int")
    P = copy.copy(MC); _detach(P)
    MC._verif_pristine = P
    return MC


def _detach(F):
    for k, v in list(vars(F).items()):
        if isinstance(v, (dict, set)): setattr(F, k, copy.deepcopy(v))


def random_occ(rng, S, p=None):
    p = rng.choice((0.2, 0.5, 0.5, 0.8)) if p is None else p
    occ = np.array([1 if rng.random() < p else 0 for _ in range(S.Nsites)], dtype=int)
    if S.vacancy >= 0: occ[S.vacancy] = -1
    return occ


def all_occs(S):
    free = [i for i in range(S.Nsites) if i != S.vacancy]
    for bits in itertools.product((0, 1), repeat=len(free)):
        occ = np.zeros(S.Nsites, dtype=int)
        for i, b in zip(free, bits): occ[i] = b
        if S.vacancy >= 0: occ[S.vacancy] = -1
        yield occ


def rows(MC):
    # (a sampler none of whose sites has an interaction holds an empty 1-D siteinteract array)
    return [[int(m) for m in MC.siteinteract[i][:n]] if n > 0 else [] for i, n in enumerate(MC.Ninteract)]


def intval(x, what="value"):
    """exact integer of an integer-valued float (the harness chooses integer energies)"""
    r = int(round(float(x)))
    if abs(float(x) - r) > 1e-9:
        raise AssertionError("%s %r is not an integer: integer energies were requested" % (what, x))
    return r


def fresh(MC, occ):
    """a NEW sampler (clone of the never-used twin: shares only the read-only tables with MC), started on a copy of occ"""
    F = copy.copy(getattr(MC, "_verif_pristine", MC)); _detach(F)
    F.start(np.array(occ, dtype=int).copy())
    return F


# ---- Coq literals -------------------------------------------------------------------------------
def zl(xs): return "[" + ";".join(("(%d)" % x if x < 0 else "%d" % x) for x in (int(v) for v in xs)) + "]"


def zz(x):
    x = int(x)
    return "(%d)" % x if x < 0 else "%d" % x


INF_Z = 10 ** 40       # +inf is the symbol INF_Z in the exact integer arithmetic of the model (far above every finite sum)
HUGE_Z = 10 ** 30      # 1e300 likewise (direct evaluator only)


def eqf(a, b):
    """float equality that treats nan == nan (an undefined value reported consistently)"""
    a, b = float(a), float(b)
    return a == b or (a != a and b != b)


def enc(x, scale=1):
    """exact integer code of a (possibly extended) value"""
    x = float(x)
    if x != x: raise AssertionError("nan value")
    if np.isinf(x): return scale * INF_Z * (1 if x > 0 else -1)
    if abs(x) >= 1e299: return scale * HUGE_Z * int(round(x / 1e300))      # (equal site tuples are merged: k * 1e300)
    return intval(scale * x, "value")


def exact_E(MC, cc, scale=1):
    """the energy from the definition, in exact integers: sum of the values of the interactions that are ON"""
    return sum(enc(MC.interactvalue[m], scale) for m in range(MC.Nenergy) if cc[m] == 0)


def consistent(x, exact, scale=1):
    """does the float x the implementation reports represent the exact (coded) value?"""
    x = float(x)
    if abs(exact) >= scale * INF_Z // 2:
        return np.isinf(x) and (x > 0) == (exact > 0)
    if abs(exact) >= scale * HUGE_Z // 2:
        k = round(exact / (scale * HUGE_Z))
        return np.isfinite(x) and abs(x - k * 1e300) <= 1e-9 * 1e300 * max(1, abs(k))
    try:
        return np.isfinite(x) and intval(scale * x) == exact
    except AssertionError:
        return False


def static_term(MC, scale=1):
    """Coq term of type static Zring for the sampler's tables (needs the PRELUDE definitions)"""
    rws = rows(MC)
    vals = [enc(v, scale) for v in MC.interactvalue]
    if MC.jumps is None:
        js, ir = "None", "[]"
    else:
        js = "(Some (JL [" + ";".join("(%d,%d)" % (i, j) for (i, j), dx in MC.jumps) + "]))"
        ir = zl(MC.interactrange)
    return "(mkStatic (K:=Zring) (map NL [%s]) %s (N %d) %s %s (NL %s))" % (
        ";".join(zl(r) for r in rws), zl(vals), MC.Nenergy, zz(MC.vacancy), js, ir)


PRELUDE = """From Coq Require Import List ZArith.
From Onsager Require Import Base.OrdRing Base.Instances Model.Sampler Model.SamplerCheck.
Import ListNotations.
Local Open Scope Z_scope.
Definition N := Z.to_nat.
Definition NL := map Z.to_nat.
Definition JL := map (fun p : Z * Z => (Z.to_nat (fst p), Z.to_nat (snd p))).
Definition TR := map (fun p : Z * Z * Z * Z => let '(n, i, j, q) := p in (Z.to_nat n, (Z.to_nat i, Z.to_nat j), q)).
Definition OB (c o u : list Z) (e : Z) := Some (mkObs (K:=Zring) c (NL o) (NL u) e).
"""


def parse_nat_list(out):
    """parse the `= [a; b; ...] : list nat` answer of a vm_compute"""
    import re
    if "=" not in out: return None
    txt = out[out.index("="):]
    txt = txt.split(": list")[0]
    return [int(x) for x in re.findall(r"\d+", txt.replace("%nat", ""))]
