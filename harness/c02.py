"""C02  Interstitial diffusivity equals the exact long-time diffusivity (and GFcalc reports the same).

Tie: (a) exact correspondence -- for crystals with rational lattice-coordinate geometry and
dyadic prefactors (energies 0 so every rate is an exact rational) the implementation's D, mapped
to lattice coordinates, must lie within tol of THE transport coefficient of the unit-cell network
as decided by the Coq checker Model/Interstitial.diagnose over the ring Z (soundness theorem
C02_checker_sound);  (b) float tier -- random energies/prefactors, implementation vs the corrector
formula evaluated in numpy, and GFCrystalcalc.D vs the same."""
META = dict(
    level="proof",
    text=("Theorems (all ordered rings, all finite networks): the transport coefficient is independent of the corrector "
          "used, equals the code's D0 + bias.gamma form, per-site Kirchhoff suffices, and the executable certificate checker is "
          "sound. Tie: exact correspondence (Coq checker over Z encloses the implementation's D by the unique exact coefficient "
          "for dyadic data) plus a float tier with random energies against the corrector formula, also for GFCrystalcalc.D."),
    note=("Trusted: Coq kernel/vm_compute; harness network construction from the implementation's own sitelist/jumpnetwork "
          "(jump enumeration itself is C21); identification of the long-time diffusivity with the corrector formula; float "
          "tolerance 1e-9 relative. Not modelled: LAPACK solve/pinv internals, rounding."),
    technique="Coq proof (Net.v transport theory) + certificate-checking correspondence over Z",
)

import numpy as np
from fractions import Fraction
from . import gen, netcase
from .lib import CoqFailure

RTOL = 1e-9


def build(crys, chem, sl, jn):
    from onsager import OnsagerCalc
    return OnsagerCalc.Interstitial(crys, chem, sl, jn)


def exact_case(ck, rng, label, crys, chem, sl, jn, d):
    dim = crys.dim
    N = d.N
    pre = np.array([gen.dyadic(rng, 0.5, 2.0, 3) for _ in sl])
    preT = np.array([gen.dyadic(rng, 0.25, 4.0, 3) for _ in jn])
    z = np.zeros(len(sl)); zT = np.zeros(len(jn))
    D = d.diffusivity(pre, z, preT, zT)
    Dl = crys.invlatt @ D @ crys.invlatt.T
    jumps = []
    for t, jl in enumerate(jn):
        for (i, j), dx in jl:
            dxl = [gen.rationalize(x) for x in np.dot(crys.invlatt, dx)]
            if any(x is None for x in dxl): return None
            jumps.append((i, j, t, dxl))
    Z = sum(Fraction(float(pre[d.invmap[i]])) for i in range(N))
    wT = [Fraction(float(p)) for p in preT]
    tol = RTOL * max(1e-300, np.abs(Dl).max())
    term, info = netcase.integer_case(N, dim, wT, jumps, Dl, tol, 2 * Z)
    if term is None: return None
    return dict(label=label, term=term, info=info, pre=pre.tolist(), preT=preT.tolist(), D=D.tolist(), Dl=Dl.tolist(),
                njumps=len(jumps), N=N, dim=dim)


def float_case(ck, rng, crys, chem, sl, jn, d, with_gf):
    from onsager import GFcalc
    nr = ck.nprng(rng.randrange(1 << 30))
    pre = nr.uniform(0.5, 2, len(sl)); bE = nr.uniform(0, 2, len(sl))
    preT = nr.uniform(0.5, 2, len(jn)); bET = nr.uniform(2, 4, len(jn))
    D = d.diffusivity(pre, bE, preT, bET)
    rho = d.siteprob(pre, bE); rates = d.ratelist(pre, bE, preT, bET)
    # independent evaluation of rho / rates (the formulas of the property, not the code's helpers)
    w = np.array([pre[d.invmap[i]] * np.exp(-bE[d.invmap[i]]) for i in range(d.N)])
    rho2 = w / w.sum()
    rates2 = [[pT * np.exp(-bT) / w[i] for (i, j), dx in jl] for jl, pT, bT in zip(jn, preT, bET)]
    Dex = gen.exact_unitcell_D(d.N, jn, rho2, rates2, crys.dim)
    scale = max(np.abs(Dex).max(), 1e-300)
    err = np.abs(D - Dex).max() / scale
    res = {"err": err, "errgf": 0.0, "inp": dict(pre=pre.tolist(), bE=bE.tolist(), preT=preT.tolist(), bET=bET.tolist()),
           "D": D.tolist(), "Dex": Dex.tolist()}
    # moderate rate spreads: each jump class in turn made e^3 .. e^7 times faster than drawn (a fast class may cancel in the
    # projection onto the site vector basis; its roundoff must not leak into the pseudo-inverse: fixed defect 5bd02a7)
    for t in range(len(jn)):
        bET2 = bET.copy(); bET2[t] -= nr.uniform(3, 7)
        D2 = d.diffusivity(pre, bE, preT, bET2)
        r2 = [[pT * np.exp(-bT) / w[i] for (i, j), dx in jl] for jl, pT, bT in zip(jn, preT, bET2)]
        Dex2 = gen.exact_unitcell_D(d.N, jn, rho2, r2, crys.dim)
        e2 = np.abs(D2 - Dex2).max() / max(np.abs(Dex2).max(), 1e-300)
        if e2 > res["err"]:
            res["err"] = e2; res["inp"] = dict(pre=pre.tolist(), bE=bE.tolist(), preT=preT.tolist(), bET=bET2.tolist(), fast_class=t)
            res["D"] = D2.tolist(); res["Dex"] = Dex2.tolist()
    if with_gf:
        g = GFcalc.GFCrystalcalc(crys, chem, sl, jn, Nmax=2)
        try:
            g.SetRates(pre, bE, preT, bET)
        except np.linalg.LinAlgError:
            # jump vectors generate only a sublattice (interpenetrating copies of the network): outside the Green-function
            # calculator's domain (see design_notes/C10.md); the interstitial comparison above still stands
            res["gf_skipped"] = True
            return res
        res["errgf"] = np.abs(g.D - Dex).max() / scale
        res["Dgf"] = g.D.tolist()
        # the accessor must agree as well
        res["errgf"] = max(res["errgf"], np.abs(g.Diffusivity() - Dex).max() / scale)
        # history on the SAME Green-function calculator: (B) site energies shifted per Wyckoff set with the transition states
        # in kinetically-resolved form E_T -> E_T + (dE_i + dE_j)/2, so that every symmetrised rate is unchanged while the
        # site probabilities and escape rates change; (C) unrelated data; (A) again.  Each must give its own exact D.
        dE = nr.uniform(-1, 1, len(sl))
        bE_B = bE + dE
        bET_B = np.array([bT + 0.5 * (dE[d.invmap[jl[0][0][0]]] + dE[d.invmap[jl[0][0][1]]]) for jl, bT in zip(jn, bET)])
        pre_C = nr.uniform(0.5, 2, len(sl)); bE_C = nr.uniform(0, 2, len(sl)); preT_C = nr.uniform(0.5, 2, len(jn)); bET_C = nr.uniform(2, 4, len(jn))
        for tag, (p_, e_, pT_, eT_) in (("B", (pre, bE_B, preT, bET_B)), ("C", (pre_C, bE_C, preT_C, bET_C)), ("A", (pre, bE, preT, bET))):
            w_ = np.array([p_[d.invmap[i]] * np.exp(-e_[d.invmap[i]]) for i in range(d.N)])
            r_ = [[pT * np.exp(-bT) / w_[i] for (i, j), dx in jl] for jl, pT, bT in zip(jn, pT_, eT_)]
            Dx = gen.exact_unitcell_D(d.N, jn, w_ / w_.sum(), r_, crys.dim)
            g.SetRates(p_, e_, pT_, eT_)
            eh = np.abs(g.Diffusivity() - Dx).max() / max(np.abs(Dx).max(), 1e-300)
            ei = np.abs(d.diffusivity(p_, e_, pT_, eT_) - Dx).max() / max(np.abs(Dx).max(), 1e-300)
            res["errgf_hist"] = max(res.get("errgf_hist", 0.0), eh)
            res["err"] = max(res["err"], ei)
            if eh > 1e-9 and "hist_fail" not in res:
                res["hist_fail"] = dict(step=tag, pre=np.asarray(p_).tolist(), bE=np.asarray(e_).tolist(), preT=np.asarray(pT_).tolist(),
                                        bET=np.asarray(eT_).tolist(), Dgf=g.Diffusivity().tolist(), Dex=Dx.tolist())
    return res


def run(ck):
    ck.rule = ("crystal pool (named + random crystal systems, 2-D/3-D, 1-3 Wyckoff sets, polar/non-polar) x percolating "
               "cutoff x random data; exact tier: dyadic prefactors, Coq/Z certificate checker; float tier: random "
               "energies, numpy corrector formula; distinct = distinct (crystal, cutoff, data); non-trivial = at least "
               "two jumps and positive-definite D")
    ck.trusted += ["harness/c02.py, netcase.py, exact.py (network construction from the implementation's jumpnetwork, "
                   "exact Fraction solve supplying the certificate)",
                   "identification of the long-time diffusivity with the corrector formula (DESIGN 6)"]
    ck.theorems()
    rng = ck.rng
    ncases = ck.n(30, 160)
    exact_cases = []
    nfloat = 0
    skipped = {"nonpercolating": 0, "irrational-geometry": 0, "construct-failed": 0}
    from . import tcommon
    for label, crys, chem, cut, sl, jn, d in tcommon.interstitial_pool(ck, rng, ncases, random_frac=0.6):
        kind = "%dD-%s-W%d-NV%d-%s" % (crys.dim, "inv" if d.omega_invertible else "pinv", len(sl), d.NV, label.split("-")[0])
        # exact tier
        ec = exact_case(ck, rng, label, crys, chem, sl, jn, d)
        if ec is None:
            skipped["irrational-geometry"] += 1
        elif ec["info"]["bits"] < 3000:
            ec["kind"] = kind; ec["crys"] = repr(crys); ec["cut"] = cut
            exact_cases.append(ec)
        # float tier
        for rep in range(ck.n(2, 4)):
            fc = float_case(ck, rng, crys, chem, sl, jn, d, with_gf=(rep == 0))
            nfloat += 1
            if fc.get("gf_skipped"): skipped["gf-sublattice-network"] = skipped.get("gf-sublattice-network", 0) + 1
            key = (label, round(cut, 5), fc["inp"])
            ck.case(key=key, nontrivial=sum(len(t) for t in jn) >= 2, kind="float:" + kind,
                    sample={"tier": "float", "crystal": label, "cutoff": cut, "input": fc["inp"], "D": fc["D"]} if nfloat <= 2 else None)
            if not (fc["err"] <= RTOL):
                ck.violation("Interstitial.diffusivity differs from the exact corrector formula by %.3g (rel)" % fc["err"],
                             {"crystal": repr(crys), "chem": chem, "cutoff": cut, **fc}, key="c02-float-D")
            if not (fc["errgf"] <= 1e-8):
                ck.violation("GFCrystalcalc diffusivity differs from the exact corrector formula by %.3g (rel)" % fc["errgf"],
                             {"crystal": repr(crys), "chem": chem, "cutoff": cut, **fc}, key="c02-float-GFD")
            if not (fc.get("errgf_hist", 0.0) <= 1e-8):
                ck.violation("GFCrystalcalc re-used for another rate set (step %s of the history A, B = same symmetrised rates with other site "
                             "energies, C, A) reports a diffusivity that differs from the exact one by %.3g (rel)" % (fc["hist_fail"]["step"], fc["errgf_hist"]),
                             {"crystal": repr(crys), "chem": chem, "cutoff": cut, **fc}, key="c02-GFD-history")
    # run the Coq checker on the exact tier
    try:
        codes = netcase.run_cases(ck, "exact", [e["term"] for e in exact_cases])
    except CoqFailure as e:
        ck.broken_proof = "correspondence Model/Interstitial.diagnose: %s" % e
        codes = []
    meaning = {1: "ill-formed network", 2: "negative conductance", 3: "jump network not closed under reversal",
               4: "certificate does not satisfy Kirchhoff (harness)", 5: "implementation value outside tolerance of the exact coefficient"}
    for e, c in zip(exact_cases, codes):
        ck.case(key=(e["label"], e["cut"], e["pre"], e["preT"]), nontrivial=e["njumps"] >= 2, kind="exact:" + e["kind"],
                sample={"tier": "exact", "crystal": e["label"], "N": e["N"], "jumps": e["njumps"], "pre": e["pre"], "preT": e["preT"],
                        "D_impl_latt": e["Dl"], "D_exact_latt": [[str(x) for x in r] for r in e["info"]["exactL"]]})
        if c != 0:
            if c == 4:
                raise RuntimeError("harness certificate rejected by the model: " + e["label"])
            ck.violation("exact correspondence: %s" % meaning.get(c, c),
                         {"crystal": e["crys"], "cutoff": e["cut"], "pre": e["pre"], "preT": e["preT"], "betaene": 0, "D_impl": e["D"],
                          "D_impl_lattice_coords": e["Dl"], "D_exact_lattice_coords": [[str(x) for x in r] for r in e["info"]["exactL"]],
                          "model_diagnosis": c}, key="c02-exact-%d" % c)
    ck.extra["exact_cases"] = len(exact_cases)
    ck.extra["float_cases"] = nfloat
    ck.extra["skipped"] = skipped
    ck.extra["traces_validated_against_impl"] = len(codes)
