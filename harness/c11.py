"""C11  Interstitial derivative outputs are true derivatives.

Three ties, on the same generated inputs:
 (exact)  the dual-number network model runs INSIDE Coq (Model/DualNet.dual_check over Dual Z): conductances, site
          weights and displacements carry exact eps-parts (beta: c' = -E c; strain e: c' = (P:e) c, d' = e d), the
          harness supplies exact dual correctors (checked by the model: Kirchhoff over dual numbers, both parts), and
          the model decides that the implementation's D / Db / elastodiffusion (lattice coordinates) lie within
          1e-9 of the unique exact value / derivative (soundness: C11_checker_sound, via C11_envelope);
 (float)  the envelope formula evaluated in numpy from the real corrector only (any crystal): 1e-9;
 (fd)     Richardson central finite differences of the implementation's own D along beta (energies scaled as
          beta*E) and along every strain component of a really strained crystal (crys.strain(eps), energies
          changed by -dipole:eps): 1e-6.
 (b)      siteDipoles / jumpDipoles vs an independent population from crys.G: representative = average of the
          symmetric part over the stabiliser; every other member = g.T.g^T for EVERY g carrying the representative
          to it."""
META = dict(
    level="proof",
    text=("Theorems (every ordered commutative ring K, every finite network over the dual numbers K[eps]/(eps^2), which are "
          "proved to be a commutative ring): the eps-part of the transport coefficient equals sum c' f f + sum c (d' f + f d') "
          "with f = d + grad(real corrector) -- the corrector's own derivative drops out by weak Kirchhoff (envelope); value and "
          "derivative are independent of the dual corrector used; soundness of the dual-number checker; for every finite group "
          "action by additive maps: the group average is invariant, idempotent, and carrying an invariant tensor by any operation "
          "in the same coset gives the same tensor. Tie: the dual-number model is executed inside Coq on exact rational data and "
          "must enclose the implementation's D, Db and elastodiffusion tensor; numpy envelope formula; Richardson finite "
          "differences of the implementation's own D (beta and genuinely strained crystals); independent dipole population."),
    note=("Partial / trusted: d/dx exp(x) = exp(x) enters as the convention c' = a*c supplied by the harness (exp is outside the "
          "ring); the quotient rule for rho = w/Z is evaluated division-free by the checker (dquot). The exact tier needs "
          "rational lattice-coordinate geometry and rationalisable populated dipoles (others are counted as skipped and covered by "
          "the float/fd tiers). Coq kernel/vm_compute; harness network construction from the implementation's jumpnetwork; "
          "LAPACK solve/pinv not modelled; tolerances 1e-9 (exact, float) and 1e-6 (finite differences)."),
    technique="Coq proof (dual numbers + envelope theorem on Net.v) + dual-number model run in Coq as certificate checker",
)

import itertools, math, re
import numpy as np
from fractions import Fraction
from . import gen, exact
from .c12 import pair_jumps, reorder_network
from .lib import CoqFailure, coq_Z, coq_list, coq_nat

RTOL = 1e-9
FDTOL = 1e-6
FORCED = ["hcp-oct-tet", "pmm2-3w", "wurtzite-int", "polar2w", "sq2w", "fcc-oct-tet"]


# ------------------------------------------------------------------------------------------ population (b)
def site_maps(crys, chem, i0):
    """{site: [g mapping i0 -> site]}"""
    out = {}
    for g in crys.G: out.setdefault(g.indexmap[chem][i0], []).append(g)
    return out


def jump_image(crys, chem, g, i, j, dx):
    return g.indexmap[chem][i], g.indexmap[chem][j], g.cartrot @ dx


def populate(crys, chem, sl, jn, dip, dipT):
    """independent population; returns (Psite[N], Pjump[c][k], allsite, alljump) where all* hold the image under
    EVERY carrying operation (to test that the implementation's choice does not matter)"""
    dim = crys.dim; N = len(crys.basis[chem])
    Ps = np.zeros((N, dim, dim)); allsite = {}
    for sites, P in zip(sl, dip):
        i0 = sites[0]; maps = site_maps(crys, chem, i0)
        sym = 0.5 * (np.asarray(P) + np.asarray(P).T)
        rep = sum(g.cartrot @ sym @ g.cartrot.T for g in maps[i0]) / len(maps[i0])
        for i in sites:
            allsite[i] = [g.cartrot @ rep @ g.cartrot.T for g in maps[i]]
            Ps[i] = allsite[i][0]
    Pj, alljump = [], []
    for jl, P in zip(jn, dipT):
        (i0, j0), dx0 = jl[0]
        sym = 0.5 * (np.asarray(P) + np.asarray(P).T)
        carriers = [[] for _ in jl]
        for g in crys.G:
            i, j, dx = jump_image(crys, chem, g, i0, j0, dx0)
            for k, ((ik, jk), dxk) in enumerate(jl):
                if (ik == i and jk == j and np.allclose(dxk, dx, atol=1e-8)) or (ik == j and jk == i and np.allclose(dxk, -dx, atol=1e-8)):
                    carriers[k].append(g)
        rep = sum(g.cartrot @ sym @ g.cartrot.T for g in carriers[0]) / len(carriers[0])
        alljump.append([[g.cartrot @ rep @ g.cartrot.T for g in carriers[k]] for k in range(len(jl))])
        Pj.append([alljump[-1][k][0] for k in range(len(jl))])
    return Ps, Pj, allsite, alljump


def check_population(d, crys, chem, sl, jn, dip, dipT):
    """-> (list of (key, msg), Ps, Pj)"""
    Ps, Pj, allsite, alljump = populate(crys, chem, sl, jn, dip, dipT)
    scale = max(max(np.abs(np.asarray(P)).max() for P in list(dip) + list(dipT)), 1e-300)
    bad = []
    Pi = np.array(d.siteDipoles([np.array(x) for x in dip]))
    for i, imgs in allsite.items():
        e = max(np.abs(Pi[i] - T).max() for T in imgs)
        if e > RTOL * scale:
            bad.append(("c11-populate-site", "siteDipoles: site %d differs by %.3g from the stabiliser-averaged representative carried by a "
                        "symmetry operation (%d carriers)" % (i, e, len(imgs)))); break
    PjI = d.jumpDipoles([np.array(x) for x in dipT])
    for c, (imgs_c, row) in enumerate(zip(alljump, PjI)):
        e = max(np.abs(np.array(row[k]) - T).max() for k in range(len(row)) for T in imgs_c[k])
        if e > RTOL * scale:
            bad.append(("c11-populate-jump", "jumpDipoles: class %d differs by %.3g from the stabiliser-averaged representative carried by a "
                        "symmetry operation" % (c, e))); break
    return bad, Ps, Pj


# ------------------------------------------------------------------------------------------ float envelope
def wyck(d):
    """site -> Wyckoff-set index, from the sitelist itself (NOT the calculator's invmap)"""
    inv = [None] * d.N
    for w, sites in enumerate(d.sitelist):
        for i in sites: inv[i] = w
    return inv


def site_weights(d, inp):
    inv = wyck(d)
    return np.array([inp["pre"][inv[i]] * math.exp(-inp["bE"][inv[i]]) for i in range(d.N)])


def envelope_float(d, jn, inp, asite, ajump, strain=None):
    """D and dD for the parameter with  w_i' = asite[i] w_i,  c_k' = ajump[c][k] c_k,  dx' = strain @ dx"""
    N, dim = d.N, d.dim
    w = site_weights(d, inp); Z = w.sum(); Zp = float(np.dot(asite, w))
    A = np.zeros((N, N)); B = np.zeros((N, dim)); E = []
    for c, jl in enumerate(jn):
        cw = inp["preT"][c] * math.exp(-inp["bET"][c])
        for k, ((i, j), dx) in enumerate(jl):
            E.append((i, j, cw, ajump[c][k] * cw, np.asarray(dx), (strain @ dx) if strain is not None else np.zeros(dim)))
            A[j, j] += cw; A[j, i] -= cw; A[i, j] -= cw; A[i, i] += cw
            B[j] -= cw * dx; B[i] += cw * dx
    gam = np.linalg.lstsq(A, B, rcond=None)[0]
    Bf = np.zeros((dim, dim)); Bp = np.zeros((dim, dim))
    for (i, j, cw, cp, dx, dxp) in E:
        f = dx + gam[j] - gam[i]
        Bf += cw * np.outer(f, f)
        Bp += cp * np.outer(f, f) + cw * (np.outer(dxp, f) + np.outer(f, dxp))
    return Bf / (2 * Z), (Z * Bp - Bf * Zp) / (2 * Z * Z)


# ------------------------------------------------------------------------------------------ finite differences
def fd_beta(d, inp, h=2e-3):
    def D(b): return d.diffusivity(inp["pre"], [b * x for x in inp["bE"]], inp["preT"], [b * x for x in inp["bET"]])
    d1 = (D(1 + h) - D(1 - h)) / (2 * h); d2 = (D(1 + h / 2) - D(1 - h / 2)) / h
    return (4 * d2 - d1) / 3


def strained_D(crys, chem, cut, eps, d, jn, inp, Ps, Pj):
    from onsager import OnsagerCalc
    cs = crys.strain(eps)
    sl2 = cs.sitelist(chem); jn2 = cs.jumpnetwork(chem, cut)
    if sum(len(t) for t in jn2) != sum(len(t) for t in jn): raise RuntimeError("strained jump network has a different number of jumps")
    d2 = OnsagerCalc.Interstitial(cs, chem, sl2, jn2)
    inv = wyck(d)
    pre2 = [inp["pre"][inv[s[0]]] for s in sl2]
    bE2 = []
    for s in sl2:
        vals = [inp["bE"][inv[i]] - float(np.sum(Ps[i] * eps)) for i in s]
        if max(vals) - min(vals) > 1e-9: raise RuntimeError("strained site class with unequal energies")
        bE2.append(vals[0])
    F = np.eye(crys.dim) + eps
    preT2, bET2 = [], []
    for t in jn2:
        vals = []
        for (i, j), dx in t:
            dx0 = np.linalg.solve(F, dx)
            hit = [(c, k) for c, jl in enumerate(jn) for k, ((ik, jk), dxk) in enumerate(jl) if ik == i and jk == j and np.allclose(dxk, dx0, atol=1e-6)]
            if len(hit) != 1: raise RuntimeError("cannot match strained jump")
            c, k = hit[0]
            vals.append((c, inp["bET"][c] - float(np.sum(Pj[c][k] * eps))))
        if max(v for _, v in vals) - min(v for _, v in vals) > 1e-9 or len({c for c, _ in vals}) != 1:
            raise RuntimeError("strained jump class with unequal energies")
        preT2.append(inp["preT"][vals[0][0]]); bET2.append(vals[0][1])
    return d2.diffusivity(pre2, bE2, preT2, bET2)


def fd_strain(crys, chem, cut, e, d, jn, inp, Ps, Pj, h=4e-4):
    def D(t): return strained_D(crys, chem, cut, t * e, d, jn, inp, Ps, Pj)
    d1 = (D(h) - D(-h)) / (2 * h); d2 = (D(h / 2) - D(-h / 2)) / h
    return (4 * d2 - d1) / 3


def unit_strains(dim):
    out = []
    for c in range(dim):
        for dd in range(c, dim):
            e = np.zeros((dim, dim)); e[c, dd] += 0.5; e[dd, c] += 0.5
            out.append((c, dd, e))
    return out


# ------------------------------------------------------------------------------------------ exact dual tier
def rat(x, maxden=200000, tol=1e-11):
    f = Fraction(float(x)).limit_denominator(maxden)
    return f if abs(float(f) - float(x)) <= tol * max(1.0, abs(float(x))) else None


def dual_corrector(n, dim, edges):
    """edges: (i, j, c, c', [d], [d']) Fractions.  Exact dual corrector: A g = B, A g' = B' - A' g."""
    A = [[Fraction(0)] * n for _ in range(n)]; Ap = [[Fraction(0)] * n for _ in range(n)]
    B = [[Fraction(0)] * dim for _ in range(n)]; Bp = [[Fraction(0)] * dim for _ in range(n)]
    for (s, t, c, cp, dv, dpv) in edges:
        for M, cc in ((A, c), (Ap, cp)):
            M[t][t] += cc; M[t][s] -= cc; M[s][t] -= cc; M[s][s] += cc
        for k in range(dim):
            B[t][k] -= c * dv[k]; B[s][k] += c * dv[k]
            Bp[t][k] -= cp * dv[k] + c * dpv[k]; Bp[s][k] += cp * dv[k] + c * dpv[k]
    X = exact.solve_consistent(A, B)
    if X is None: return None
    R = [[Bp[x][k] - sum(Ap[x][y] * X[y][k] for y in range(n)) for k in range(dim)] for x in range(n)]
    Xp = exact.solve_consistent(A, R)
    if Xp is None: return None
    return X, Xp


def dual_case(n, dim, w, wp, jumps, Dl, dDl, tolD, toldD):
    """w, wp: site weights and eps-parts (Fractions); jumps: (i, j, c, c', dxl, dxl') with both directions present and
    identical c, c' for a jump and its reverse.  Returns (coq term, info) or None."""
    sol = dual_corrector(n, dim, jumps)
    if sol is None: return None
    X, Xp = sol
    sw = exact.lcm_den(list(w) + list(wp) + [x for j in jumps for x in (j[2], j[3])])
    sd = exact.lcm_den([x for j in jumps for x in list(j[4]) + list(j[5])])
    sg = exact.lcm_den([g * sd for M in (X, Xp) for row in M for g in row])
    s = sd * sg
    Z, Zp = sum(w), sum(wp)
    classes = []   # one conductance class per directed jump (c' differs inside a symmetry class under strain)
    def dz(a, b): return "(mkD (K:=Zring) %s %s)" % (coq_Z(a), coq_Z(b))
    jt = []
    for q, (i, j, c, cp, dv, dpv) in enumerate(jumps):
        classes.append(dz(c * sw, cp * sw))
        jt.append("mkJump (K:=DZ) %s %s %s %s" % (coq_nat(i), coq_nat(j), coq_nat(q), coq_list([dz(a * s, b * s) for a, b in zip(dv, dpv)])))
    gam = coq_list([coq_list([dz(X[x][k] * s, Xp[x][k] * s) for x in range(n)]) for k in range(dim)])
    f1 = 2 * Z * sw * s * s
    f2 = 2 * Z * Z * sw * sw * s * s
    def bounds(T, tol, f):
        lo = [[math.floor((Fraction(float(T[k][l])) - Fraction(tol)) * f) for l in range(dim)] for k in range(dim)]
        hi = [[math.ceil((Fraction(float(T[k][l])) + Fraction(tol)) * f) for l in range(dim)] for k in range(dim)]
        return lo, hi
    lo, hi = bounds(Dl, tolD, f1); lop, hip = bounds(dDl, toldD, f2)
    def mat(M): return coq_list([coq_list([coq_Z(v) for v in row]) for row in M])
    term = "(%s, %s, %s, %s, %s, (%s, %s), (%s, %s, %s, %s))" % (coq_nat(n), coq_nat(dim), coq_list(classes), coq_list(jt), gam,
                                                                 coq_Z(Z * sw), coq_Z(Zp * sw), mat(lo), mat(hi), mat(lop), mat(hip))
    bits = max(abs(v).bit_length() for M in (lo, hi, lop, hip) for row in M for v in row)
    return term, bits


IMPORTS = """From Coq Require Import List ZArith.
From Onsager Require Import Base.OrdRing Base.Instances Base.Dual Model.Net Model.Interstitial Model.DualNet.
Import ListNotations.
Local Open Scope Z_scope.
Notation DZ := (Dual Zring).
Definition run (c : nat * nat * list DZ * list (jump DZ) * list (list DZ) * (Z * Z) * (list (list Z) * list (list Z) * list (list Z) * list (list Z))) : nat :=
  let '(n, dim, wT, jumps, gam, (Zw, Zw'), (lo, hi, lo', hi')) := c in dual_check (K:=Zring) n dim wT jumps gam Zw Zw' lo hi lo' hi'.
"""


def run_cases(ck, name, terms, chunk=20):
    codes = []
    for a in range(0, len(terms), chunk):
        body = "Eval vm_compute in (map run %s)." % coq_list(terms[a:a + chunk])
        out = ck.coq_cases("%s_%d" % (name, a), body, IMPORTS)
        txt = out[out.index("="):] if "=" in out else ""
        txt = txt.split(":")[0]
        got = [int(x) for x in re.findall(r"\d+", txt.replace("%nat", ""))]
        if len(got) != len(terms[a:a + chunk]):
            raise CoqFailure("could not parse model output: " + out[:300])
        codes += got
    return codes


def exact_terms(crys, d, jn, inp_exact, Ps, Pj, D, Db, Dp):
    """Coq cases (beta + every strain component) for one data set; returns list of (what, term) and #skipped"""
    dim, N = crys.dim, d.N
    inv = wyck(d)
    und = pair_jumps(jn)   # raises if not reversible
    il = crys.invlatt
    geo = []
    for c, jl in enumerate(jn):
        for k, ((i, j), dx) in enumerate(jl):
            dxl = [gen.rationalize(x) for x in il @ dx]
            if any(x is None for x in dxl): return [], 1
            geo.append((c, k, i, j, dxl))
    w = [inp_exact["wstar"][inv[i]] for i in range(N)]
    Dl = il @ D @ il.T
    scaleD = max(np.abs(Dl).max(), 1e-300)
    out, skipped = [], 0
    # beta
    a_s = [-inp_exact["bE"][inv[i]] for i in range(N)]
    jumps = [(i, j, inp_exact["wTstar"][c], -inp_exact["bET"][c] * inp_exact["wTstar"][c], dxl, [Fraction(0)] * dim) for (c, k, i, j, dxl) in geo]
    dDl = -(il @ Db @ il.T)
    amax = max([abs(float(x)) for x in inp_exact["bET"]] + [1.0])
    r = dual_case(N, dim, w, [a * x for a, x in zip(a_s, w)], jumps, Dl, dDl, RTOL * scaleD, RTOL * scaleD * amax)
    if r is None: return [], 1
    out.append(("beta", r))
    # strain components
    L = crys.lattice
    pmax = max([np.abs(Ps).max()] + [np.abs(np.array(P)).max() for row in Pj for P in row] + [1.0])
    for (c0, d0, e) in unit_strains(dim):
        M = il @ e @ L
        Mr = [[rat(x) for x in row] for row in M]
        a_s = [rat(np.sum(Ps[i] * e)) for i in range(N)]
        # a jump and its reverse share the transition state: use the value of the pair's first member for both
        aj = {}
        for (c, k, i, j, dxl) in geo: aj[(c, k)] = rat(np.sum(np.array(Pj[c][k]) * e))
        if any(x is None for row in Mr for x in row) or any(x is None for x in a_s) or any(v is None for v in aj.values()):
            skipped += 1; continue
        jumps = []
        for (c, k, i, j, dxl) in geo:
            # partner (reverse) with smaller index decides the shared value
            kk = min([k] + [k2 for (c2, k2, i2, j2, dxl2) in geo if c2 == c and i2 == j and j2 == i and all(a == -b for a, b in zip(dxl, dxl2))])
            wc = inp_exact["wTstar"][c]
            jumps.append((i, j, wc, aj[(c, kk)] * wc, dxl, [sum(Mr[a][b] * dxl[b] for b in range(dim)) for a in range(dim)]))
        dDl = il @ Dp[:, :, c0, d0] @ il.T
        r = dual_case(N, dim, w, [a * x for a, x in zip(a_s, w)], jumps, Dl, dDl, RTOL * scaleD, RTOL * scaleD * pmax)
        if r is None: skipped += 1; continue
        out.append(("strain%d%d" % (c0, d0), r))
    return out, skipped


# ------------------------------------------------------------------------------------------ input generation
def random_input(rng, nr, sl, jn, dim):
    """energies / weights on coarse dyadic grids so that the exact tier sees small rationals; the prefactors
    pre = w* exp(bE) are generic doubles"""
    bE = [gen.dyadic(rng, 0, 2, 4) for _ in sl]
    wstar = [gen.dyadic(rng, 0.25, 2, 4) for _ in sl]
    bET = [max(bE) + gen.dyadic(rng, 0.25, 3, 4) for _ in jn]
    wTstar = [gen.dyadic(rng, 0.25, 2, 4) for _ in jn]
    inp = dict(pre=[w * math.exp(b) for w, b in zip(wstar, bE)], bE=bE,
               preT=[w * math.exp(b) for w, b in zip(wTstar, bET)], bET=bET,
               dipole=[[[gen.dyadic(rng, -2, 2, 3) for _ in range(dim)] for _ in range(dim)] for _ in sl],
               dipoleT=[[[gen.dyadic(rng, -2, 2, 3) for _ in range(dim)] for _ in range(dim)] for _ in jn])
    ex = dict(bE=[Fraction(x) for x in bE], bET=[Fraction(x) for x in bET], wstar=[Fraction(x) for x in wstar], wTstar=[Fraction(x) for x in wTstar])
    return inp, ex


def general_position_crystals(rng):
    """low-symmetry crystals whose mobile atoms sit at GENERAL positions (site symmetry 1, non-empty vector basis): the site
    dipoles then have components along strains that break the crystal symmetry.  yields (label, crys, chem)"""
    from onsager import crystal
    def pick(k):
        vals = rng.sample([0.1, 0.15, 0.2, 0.3, 0.35, 0.4], k)
        return vals
    mono = np.array([[1., 0, 0], [0, rng.choice([1.1, 1.2]), 0], [rng.choice([.2, .3]), 0, rng.choice([1.2, 1.3])]]).T
    ortho = np.diag([1., rng.choice([1.1, 1.15]), rng.choice([1.25, 1.3])])
    x, y, z = pick(3)
    yield "P2/m-general", crystal.Crystal(mono, [[np.array([x, y, z]), np.array([-x, y, -z]), np.array([-x, -y, -z]), np.array([x, -y, z])]]), 0
    x, y, z = pick(3)
    yield "Pm-general", crystal.Crystal(mono, [[np.array([.05, 0., .45])], [np.array([x, y, z]), np.array([x, -y, z])]]), 1
    x, y, z = pick(3)
    yield "P2-general", crystal.Crystal(mono, [[np.array([0., .45, 0.])], [np.array([x, y, z]), np.array([-x, y, -z])]]), 1
    x, y, z = pick(3)
    yield "Pmm2-general", crystal.Crystal(ortho, [[np.array([0., 0., .13])], [np.array([x, y, z]), np.array([-x, -y, z]), np.array([x, -y, z]), np.array([-x, y, z])]]), 1
    x, y = pick(2)
    yield "p2mm-general", crystal.Crystal(np.diag([1., 1.25]), [[np.array([x, y]), np.array([-x, y]), np.array([x, -y]), np.array([-x, -y])]]), 0
    x, y = pick(2)
    yield "pm-general", crystal.Crystal(np.diag([1., 1.25]), [[np.array([.5, .1])], [np.array([x, y]), np.array([-x, y])]]), 1


def wide_network(crys, chem, maxjumps=140):
    """first mid-shell cutoff whose network percolates in every direction (low-symmetry cells need several shells)"""
    sh = gen.shells(crys, chem, nmax=2); sl = crys.sitelist(chem); N = len(crys.basis[chem])
    for k in range(len(sh) - 1):
        if sh[k + 1] - sh[k] < 0.02: continue
        cut = 0.5 * (sh[k] + sh[k + 1]); jn = crys.jumpnetwork(chem, cut)
        if sum(len(t) for t in jn) > maxjumps: return None
        Dt = gen.exact_unitcell_D(N, jn, np.ones(N) / N, [[1.0] * len(t) for t in jn], crys.dim)
        if np.linalg.eigvalsh(0.5 * (Dt + Dt.T)).min() > 1e-6: return cut, sl, jn
    return None


def strain_keeps_symmetry(crys, e):
    return all(np.allclose(g.cartrot @ e @ g.cartrot.T, e, atol=1e-9) for g in crys.G)


def midpoint_cut(crys, chem, cut):
    sh = gen.shells(crys, chem, nmax=3)
    below = [s for s in sh if s < cut]; above = [s for s in sh if s > cut]
    if not below or not above: return None
    if above[0] - below[-1] < 0.02: return None
    return 0.5 * (above[0] + below[-1])


def run(ck):
    ck.rule = ("crystal pool (named + random crystal systems, 2-D/3-D, 1-3 Wyckoff sets, NV=0 and NV>0) x percolating cutoff x random "
               "prefactors/energies (dyadic grids times exp) and non-symmetric site/transition dipoles; per data set: population check, "
               "numpy envelope (beta + every strain component), Richardson FD in beta; FD in strain on genuinely strained crystals for a "
               "subset; exact dual-number Coq cases where geometry/dipoles are rational; distinct = distinct (crystal, cutoff, data, "
               "parameter); non-trivial = at least two jumps")
    ck.trusted += ["harness/c11.py: network/dual data built from the implementation's jumpnetwork, sitelist, space group; exact Fraction "
                   "solves supplying the dual certificates (checked by the model)",
                   "d/dx exp(x) = exp(x) (the eps-parts c' = a*c are supplied by the harness)"]
    ck.theorems()
    rng = ck.rng
    from onsager import OnsagerCalc
    ncases = ck.n(22, 120)
    nfd_strain = ck.n(3, 20)
    skipped = {"nonpercolating": 0, "construct-failed": 0, "exact-irrational": 0, "fd-strain-no-gap": 0, "exact-too-large": 0}
    terms, meta = [], []
    nsample = 0
    worst = {"float": 0.0, "fd_beta": 0.0, "fd_strain": 0.0}
    # named lattices, with the polar / low-symmetry ones (non-empty vector basis: the correlated path) over-represented
    names = gen.NAMES2 + gen.NAMES3 + ["polar", "polar2w", "rect-polar2d", "oblique2d", "hcp-oct-tet", "bcc-tet", "polar", "rect-polar2d"]
    def source():
        # always present: several Wyckoff sets with different site data, atoms listed in a random (interleaving) order
        fl = list(FORCED); rng.shuffle(fl)
        for nm in fl[:ck.n(4, 6)]:
            crys, chem = gen.named(nm)
            yield nm + "~perm", gen.shuffled(crys, rng), chem
        # always present: atoms at general positions of low-symmetry groups (symmetry-breaking strain components couple to the dipoles)
        gp = list(general_position_crystals(rng))
        gp = [g_ for g_ in gp if g_[0] in ("P2/m-general", "Pmm2-general")] + rng.sample([g_ for g_ in gp if g_[0] not in ("P2/m-general", "Pmm2-general")], ck.n(2, 4))
        for lab, crys, chem in gp:
            yield lab, (gen.shuffled(crys, rng) if rng.random() < 0.5 else crys), chem
        yield from gen.pool(rng, ncases, names=names, random_frac=0.45, maxatoms=3)
    for label, crys, chem in source():
        try:
            net = wide_network(crys, chem) if label.endswith("-general") else gen.percolating_network(crys, chem, rng, maxjumps=40)
        except Exception:
            skipped["construct-failed"] += 1; continue
        if net is None:
            skipped["nonpercolating"] += 1; continue
        cut, sl, jn = net
        # half of the networks are listed by hand in another order (classes shuffled, jumps shuffled inside the classes: a jump
        # is not followed by its reverse, the representative = first jump changes); the class allows hand-built networks
        jn_canon, cmap = jn, None
        if rng.random() < 0.5:
            jn, cmap = reorder_network(jn, rng); label = label.replace("-general", "~reordered-general") if label.endswith("-general") else label + "~reordered"
        d = OnsagerCalc.Interstitial(crys, chem, sl, jn)
        dim = crys.dim
        interleaved = any(list(w) != list(range(min(w), min(w) + len(w))) for w in sl) or [w[0] for w in sl] != sorted(w[0] for w in sl)
        kind = "%dD-N%d-W%d-NV%d-%s%s" % (dim, d.N, len(sl), d.NV, label if label.endswith("-general") else label.split("-")[0], ("-interleaved" if interleaved else "") + ("-reordered" if cmap else ""))
        nr = ck.nprng(rng.randrange(1 << 30))
        inp, ex = random_input(rng, nr, sl, jn, dim)
        rep = {"crystal": repr(crys), "chem": chem, "cutoff": cut, **inp}
        dipA = [np.array(x) for x in inp["dipole"]]; dipTA = [np.array(x) for x in inp["dipoleT"]]
        try:
            bad, Ps, Pj = check_population(d, crys, chem, sl, jn, dipA, dipTA)
            D, Db = d.diffusivity(inp["pre"], inp["bE"], inp["preT"], inp["bET"], CalcDeriv=True)
            D0, Dp = d.elastodiffusion(inp["pre"], inp["bE"], dipA, inp["preT"], inp["bET"], dipTA)
        except (ArithmeticError, ValueError, IndexError, TypeError, np.linalg.LinAlgError) as e:
            ck.violation("Interstitial derivative call raised %r" % (e,), rep, key="c11-exception"); continue
        nj = sum(len(t) for t in jn)
        ck.case(key=(label, round(cut, 5), inp["pre"], "populate"), nontrivial=nj >= 2, kind="populate:" + kind)
        for key, msg in bad: ck.violation(msg, rep, key=key)
        scaleD = max(np.abs(D).max(), 1e-300)
        if cmap is not None:
            # listing-order invariance: the canonical listing with the same physics (transition dipole of its representative = the
            # populated dipole of that jump) must give the same D, Db and elastodiffusion tensor
            d0 = OnsagerCalc.Interstitial(crys, chem, sl, jn_canon)
            pT0 = [None] * len(jn); bT0 = [None] * len(jn); dT0 = [None] * len(jn)
            for c2, (c, idx) in enumerate(cmap):
                pT0[c] = inp["preT"][c2]; bT0[c] = inp["bET"][c2]; dT0[c] = np.array(Pj[c2][idx.index(0)])
            Dc, Dbc = d0.diffusivity(inp["pre"], inp["bE"], pT0, bT0, CalcDeriv=True)
            _, Dpc = d0.elastodiffusion(inp["pre"], inp["bE"], dipA, pT0, bT0, dT0)
            pm = max(max(np.abs(np.array(P)).max() for P in list(inp["dipole"]) + list(inp["dipoleT"])), 1.0)
            eo = max(np.abs(Dc - D).max() / scaleD, np.abs(Dbc - Db).max() / (scaleD * max(max(inp["bET"]), 1.0)), np.abs(Dpc - Dp).max() / (scaleD * pm))
            ck.case(key=(label, round(cut, 5), inp["pre"], "order"), nontrivial=nj >= 2, kind="listing-order:" + kind)
            if not (eo <= RTOL):
                ck.violation("diffusivity / barrier tensor / elastodiffusion depend on the order in which the jump network lists its classes and jumps: "
                             "relative difference %.3g between the hand-ordered and the canonical listing" % eo,
                             {**rep, "class_order": [c for c, _ in cmap], "within_class_order": [idx for _, idx in cmap]}, key="c11-listing-order")
        if np.abs(D0 - D).max() > RTOL * scaleD:
            ck.violation("elastodiffusion returns a diffusivity differing from diffusivity() by %.3g" % np.abs(D0 - D).max(), rep, key="c11-elasto-D")
        # ---- float envelope + FD, beta
        amax = max(max(inp["bET"]), 1.0)
        Denv, dDenv = envelope_float(d, jn, inp, [-inp["bE"][wyck(d)[i]] for i in range(d.N)], [[-inp["bET"][c]] * len(jl) for c, jl in enumerate(jn)])
        e1 = max(np.abs(D - Denv).max() / scaleD, np.abs(-Db - dDenv).max() / (scaleD * amax))
        dfd = fd_beta(d, inp)
        e2 = np.abs(-Db - dfd).max() / (scaleD * amax)
        worst["float"] = max(worst["float"], e1); worst["fd_beta"] = max(worst["fd_beta"], e2)
        nsample += 1
        ck.case(key=(label, round(cut, 5), inp["pre"], "beta"), nontrivial=nj >= 2, kind="beta:" + kind,
                sample={"crystal": label, "cutoff": cut, "N": d.N, "NV": d.NV, "pre": inp["pre"], "bE": inp["bE"], "preT": inp["preT"], "bET": inp["bET"],
                        "Db": np.asarray(Db).tolist(), "minus_dD_dbeta_envelope": (-dDenv).tolist(), "minus_dD_dbeta_fd": (-dfd).tolist()} if nsample <= 2 else None)
        if not (e1 <= RTOL):
            ck.violation("barrier tensor Db differs from -dD/dbeta (envelope formula, exact corrector) by %.3g (rel)" % e1,
                         {**rep, "Db": np.asarray(Db).tolist(), "expected": (-dDenv).tolist()}, key="c11-beta-envelope")
        if not (e2 <= FDTOL):
            ck.violation("barrier tensor Db differs from -dD/dbeta (Richardson finite difference of diffusivity()) by %.3g (rel)" % e2,
                         {**rep, "Db": np.asarray(Db).tolist(), "expected": (-dfd).tolist()}, key="c11-beta-fd")
        # ---- float envelope, strain (all components), FD on a subset
        pmax = max(max(np.abs(np.array(P)).max() for P in list(inp["dipole"]) + list(inp["dipoleT"])), 1.0)
        cutmid = midpoint_cut(crys, chem, cut) if nfd_strain > 0 else None
        if label.endswith("-general"): cutmid = cut       # already a mid-shell cutoff
        do_fd = cutmid is not None and nj <= 140 and (label.endswith("-general") or (nfd_strain > 0 and nj <= 30 and (d.NV > 0 or rng.random() < 0.4)))
        if nfd_strain > 0 and cutmid is None: skipped["fd-strain-no-gap"] += 1
        if do_fd and not label.endswith("-general"): nfd_strain -= 1
        for (c0, d0, e) in unit_strains(dim):
            keeps = strain_keeps_symmetry(crys, e)
            brk = "" if keeps else " [this strain component BREAKS the crystal symmetry]"
            _, dDe = envelope_float(d, jn, inp, [float(np.sum(Ps[i] * e)) for i in range(d.N)],
                                    [[float(np.sum(np.array(P) * e)) for P in row] for row in Pj], strain=e)
            errs = [np.abs(Dp[:, :, c0, d0] - dDe).max() / (scaleD * pmax)]
            if c0 != d0: errs.append(np.abs(Dp[:, :, d0, c0] - dDe).max() / (scaleD * pmax))
            e3 = max(errs)
            worst["float"] = max(worst["float"], e3)
            ck.case(key=(label, round(cut, 5), inp["pre"], "strain", c0, d0), nontrivial=nj >= 2, kind="strain%s:%s" % ("" if keeps else "-breaking", kind))
            if not (e3 <= RTOL):
                ck.violation("elastodiffusion tensor [:,:,%d,%d] differs from dD/d(strain) (envelope formula, exact corrector) by %.3g (rel)%s" % (c0, d0, e3, brk),
                             {**rep, "component": [c0, d0], "Dp": Dp[:, :, c0, d0].tolist(), "expected": dDe.tolist()},
                             key="c11-strain-envelope" if keeps else "c11-strain-symmetry-breaking")
            if do_fd:
                try:
                    dfd = fd_strain(crys, chem, cutmid, e, d, jn, inp, Ps, Pj)
                except RuntimeError as ex_:
                    skipped["fd-strain-no-gap"] += 1; continue
                e4 = np.abs(Dp[:, :, c0, d0] - dfd).max() / (scaleD * pmax)
                worst["fd_strain"] = max(worst["fd_strain"], e4)
                ck.case(key=(label, round(cut, 5), inp["pre"], "fdstrain", c0, d0), nontrivial=nj >= 2, kind="fdstrain:" + kind)
                if not (e4 <= FDTOL):
                    ck.violation("elastodiffusion tensor [:,:,%d,%d] differs from the finite-difference derivative of the diffusivity of the strained "
                                 "crystal by %.3g (rel)" % (c0, d0, e4), {**rep, "component": [c0, d0], "Dp": Dp[:, :, c0, d0].tolist(), "expected": dfd.tolist()},
                                 key="c11-strain-fd" if keeps else "c11-strain-symmetry-breaking")
        # ---- exact dual-number cases
        if d.N <= 4 and nj <= (64 if label.endswith("-general") else 26) and len(terms) < ck.n(45, 300):
            tl, sk = exact_terms(crys, d, jn, ex, Ps, Pj, np.asarray(D), np.asarray(Db), np.asarray(Dp))
            skipped["exact-irrational"] += sk
            for what, (term, bits) in tl:
                if bits > 2500: skipped["exact-too-large"] += 1; continue
                keeps_w = True
                if what.startswith("strain"):
                    a_, b_ = int(what[6]), int(what[7]); e_ = np.zeros((dim, dim)); e_[a_, b_] += .5; e_[b_, a_] += .5
                    keeps_w = strain_keeps_symmetry(crys, e_)
                terms.append(term); meta.append(dict(label=label, what=what, rep=rep, kind=kind, cut=cut, D=np.asarray(D).tolist(), keeps=keeps_w,
                                                     Db=np.asarray(Db).tolist(), bits=bits))
    try:
        codes = run_cases(ck, "dual", terms)
    except CoqFailure as e:
        ck.broken_proof = "correspondence Model/DualNet.dual_check: %s" % e
        codes = []
    meaning = {1: "ill-formed network", 2: "negative conductance", 3: "jump network not closed under reversal", 4: "dual certificate does not satisfy Kirchhoff (harness)",
               5: "implementation's D outside tolerance of the exact coefficient", 6: "implementation's derivative outside tolerance of the exact derivative"}
    for m, c in zip(meta, codes):
        ck.case(key=("coq", m["label"], round(m["cut"], 5), m["rep"]["pre"], m["what"]), nontrivial=True, kind="exact-%s:%s" % ("beta" if m["what"] == "beta" else "strain", m["kind"]),
                sample={"tier": "exact", "crystal": m["label"], "parameter": m["what"], "pre": m["rep"]["pre"], "bE": m["rep"]["bE"], "bits": m["bits"]} if nsample <= 4 else None)
        nsample += 1
        if c == 4: raise RuntimeError("harness dual certificate rejected by the model: %s %s" % (m["label"], m["what"]))
        if c != 0:
            ck.violation("exact dual-number model (%s): %s" % (m["what"], meaning.get(c, c)), {**m["rep"], "parameter": m["what"], "D": m["D"], "Db": m["Db"], "model_diagnosis": c},
                         key="c11-strain-symmetry-breaking" if (c == 6 and not m["keeps"]) else "c11-exact-%s-%d" % ("beta" if m["what"] == "beta" else "strain", c))
    ck.extra["exact_cases"] = len(codes)
    ck.extra["traces_validated_against_impl"] = len(codes)
    ck.extra["skipped"] = skipped
    ck.extra["worst_relative_error"] = worst
