"""C26  Solute-vacancy jump networks classify every transition exactly once.

Coq (Model/OmegaNet.v, Proofs/OmegaNet_proofs.v): brute-force enumeration of the omega1 (vacancy jumps,
solute fixed) and omega2 (exchange) transitions from the definition, proved to be exactly the
definition; verified checker `classes_okb` for "every valid transition in exactly one class exactly
once, with its jump type; nothing else; each class closed under every operation and reversal and a
single orbit"; soundness of the correspondence runner `run_omega`.

Tie (every run): VacancyMediated(crys, chem, sitelist, jumpnetwork, Nthermo=1..2).om1_jn/om1_jt/
om2_jn/om2_jt (pruned to the thermodynamic range) and StarSet.jumpnetwork_omega1/omega2 (unpruned)
are printed as Coq literals -- transitions (i, f, dR) with dR the integer cell part recovered from the
implementation's Cartesian dx -- and judged inside Coq by run_omega.  The same statements are
evaluated in pure-Python integers on every case (including the ones above the Coq budget), together
with the float part of "dx = vacancy displacement" (1e-8) and omegalist()."""
META = dict(
    level="proof",
    text=("Theorems (all state lists, jump lists, operation lists): the brute-force omega1/omega2 enumerations equal their "
          "definitions; the jump type is well defined; the classification checker is sound (exact-once, nothing else, closed "
          "under the group and reversal, single orbit, displacement = the vacancy's); result 0 of the runner implies all of it "
          "for the implementation's output. Tie: VacancyMediated(Nthermo=1..2).om1_jn/om2_jn/jumptypes/omegalist and "
          "StarSet.jumpnetwork_omega1/2 judged in Coq on the crystal pool, plus pure-Python brute force on every case."),
    note=("Trusted: harness conversion to integer lattice data (jump cell vectors, crys.G as (S, perm, shifts), dR recovered "
          "from dx with residual <= 1e-8); crys.G is the space group (C18); the jump network is complete and reversal-closed "
          "(C21). 'Starts or ends in the thermodynamic range' is taken as: one of the two states is a state reachable within "
          "Nthermo jumps. starpair is not part of the property (only used by the pruning, which is checked through its result). "
          "For speed the harness replaces crystalStars.zeroclean (post-processing of expansion arrays, not observed here) by an "
          "equivalent vectorised function inside its own process."),
    technique="Coq proof (enumeration = definition, verified partition/orbit checker) + exact correspondence",
)

import itertools, json
import numpy as np
from . import gen, starcase as sc
from .lib import CoqFailure

MEANING = {1: "jump list has a zero or repeated jump", 2: "kinetic states differ from the model",
           3: "omega1 classes are not an exact-once closed classification of the swing jumps",
           4: "omega2 classes are not an exact-once closed classification of the exchanges"}

WMAX = 1.0e7      # estimated work of one coqc call (calibrated, see design_notes/C26.md)

OMEGA_IMPORTS = """From Coq Require Import List ZArith.
From Onsager Require Import Model.Stars Model.OmegaNet.
Import ListNotations.
Local Open Scope Z_scope.
"""


def brute(sts, jumps, keep):
    """valid omega1 / omega2 transitions from the definition: {(x, y): (dR, t)}"""
    pos = {s: x for x, s in enumerate(sts)}
    v1, v2 = {}, {}
    missing = []
    for x, s in enumerate(sts):
        if sc.iszero(s): continue
        for (i, j, R, t) in jumps:
            if s[1] != i: continue
            f = (s[0], j, sc.vadd(s[2], R))
            if sc.iszero(f):
                y = pos.get((s[1], s[0], sc.vneg(s[2])))
                if y is None: missing.append(s); continue
                v2[(x, y)] = (R, t)
            else:
                y = pos.get(f)
                if y is None: continue
                if keep is None or s in keep or f in keep:
                    v1[(x, y)] = (R, t)
    return v1, v2, missing


def to_tr(crys, chem, S, classes):
    """implementation classes [[((i,f),dx)]] -> [[(i, f, dR)]], max float residual of dx against the vacancy displacement"""
    u = crys.basis[chem]
    out, res = [], 0.
    for cl in classes:
        l = []
        for (i, f), dx in cl:
            if i is None or f is None:
                raise ValueError("transition with a None state index")
            a, b = S.states[i].j, S.states[f].j
            v = np.dot(crys.invlatt, dx) - u[b] + u[a]
            r = np.round(v)
            res = max(res, float(np.abs(np.dot(crys.lattice, v - r)).max()))
            l.append((int(i), int(f), sc.pad3(r.astype(int))))
        out.append(l)
    return out, res


def eval_classes(cls, jt, valid, sts, ops, what):
    """direct evaluation: exact-once, nothing else, jump type, closure, single orbits"""
    bad = []
    if len(jt) != len(cls):
        bad.append(("jumptype", "%s: jumptype list length differs from the number of classes" % what, {}))
        return bad
    seen = {}
    for k, cl in enumerate(cls):
        for (x, y, dR) in cl:
            seen.setdefault((x, y), []).append(k)
            if (x, y) not in valid:
                bad.append(("extra", "%s: class %d contains (%d,%d) which is not a transition of the definition" % (what, k, x, y),
                            {"entry": (x, y, dR)}))
            else:
                R, t = valid[(x, y)]
                if tuple(dR) != tuple(R):
                    bad.append(("dx", "%s: displacement of (%d,%d) is not the vacancy displacement" % (what, x, y), {"dR": dR, "expected": R}))
                if int(jt[k]) != t:
                    bad.append(("jumptype", "%s: jump type of class %d is %d, transition (%d,%d) has type %d" % (what, k, jt[k], x, y, t), {}))
    for e in valid:
        n = len(seen.get(e, []))
        if n != 1:
            bad.append(("once", "%s: transition %r appears %d times in the classes" % (what, e, n), {"states": (sts[e[0]], sts[e[1]])}))
    if bad: return bad[:6]
    # orbits under ops and reversal
    pos = {s: x for x, s in enumerate(sts)}
    left = set(valid)
    orbs = []
    while left:
        e0 = min(left)
        orb = set([e0]); frontier = [e0]
        while frontier:
            x, y = frontier.pop()
            for g in ops:
                gx, gy = pos.get(sc.gact(g, sts[x])), pos.get(sc.gact(g, sts[y]))
                for e in ((gx, gy), (gy, gx)):
                    if e not in orb:
                        orb.add(e); frontier.append(e)
            if (y, x) not in orb:
                orb.add((y, x)); frontier.append((y, x))
        orbs.append(frozenset(orb))
        left -= orb
    mine = set(frozenset((x, y) for (x, y, dR) in cl) for cl in cls)
    if mine != set(orbs):
        notclosed = [k for k, cl in enumerate(cls) if frozenset((x, y) for (x, y, dR) in cl) not in set(orbs)]
        bad.append(("closure", "%s: classes are not the orbits under the space group and reversal (%d classes, %d orbits)" %
                    (what, len(mine), len(orbs)), {"classes": notclosed[:5]}))
    return bad


def c_tr(e):
    return "mkTr %d %d %s" % (e[0], e[1], sc.c_vec(e[2]))


def c_classes(cls):
    return "[" + "; ".join("[" + "; ".join(c_tr(e) for e in cl) + "]" for cl in cls) + "]"


def run(ck):
    ck.rule = ("crystal pool (named + random crystal systems, 2-D/3-D, 1-3 atoms of the mobile species, optional spectator) x "
               "percolating cutoff x Nthermo in {1,2}: VacancyMediated (pruned) when the kinetic set is within the size budget, "
               "and StarSet(N=Nthermo+1, origin states on/off).jumpnetwork_omega1/2 (unpruned); distinct = distinct (crystal, "
               "cutoff, Nthermo, source, history); non-trivial = at least 2 omega1 classes; history tier (corpus fcc, bcc, honeycomb + "
               "first pool crystals): the same StarSet asked for omega1/omega2, regenerated to a larger/smaller range and asked "
               "again, and VacancyMediated(...,1).generate(2).generate(1); each later answer judged like a fresh one and "
               "compared with a freshly built object; chiral corpus (p4, p3, p6, P4/m, P4, P3, P-3, P6/m, m-3: rotation axis without "
               "mirrors, spectator species on a general-position orbit, 1st+2nd in-plane neighbour jumps) where reversal is not "
               "implied by the group")
    ck.trusted += ["harness/starcase.py, c26.py: integer lattice view of jump network / space group / displacements (1e-8)",
                   "crys.G is the space group (C18); crys.jumpnetwork is complete and closed under reversal (C21)"]
    ck.theorems()
    from onsager import crystalStars, OnsagerCalc
    # crystalStars.zeroclean (a python-level nditer loop, ~45% of VacancyMediated's construction time) only post-processes
    # the vector-star expansion arrays, which C26 does not observe; it is replaced for this process by the equivalent
    # vectorised statement so that larger kinetic sets fit the time budget.  The jump-network code path is untouched.
    def _fastclean(x, threshold=1e-8):
        x[np.abs(x) < threshold] = 0
        return x
    crystalStars.zeroclean = _fastclean
    ck.note("crystalStars.zeroclean replaced by its vectorised equivalent in this process (expansions are not observed by C26)")
    rng = ck.rng
    ncrys = ck.n(4, 36)
    vm_max_states = ck.n(140, 320)          # VacancyMediated construction cost grows fast
    coq_cost_budget = ck.n(4e7, 5e8)      # sum of transitions * |G| * states sent to the model
    coq_case_max = ck.n(8e6, 1.6e7)   # one case <= ~60 s of coqc on an idle machine (rate ~ 3e5 units/s)
    defs, runs, meta, wts = [], [], [], []
    skipped = {"nonpercolating": 0, "construct-failed": 0, "geometry": 0, "coq-budget": 0, "vacancymediated-too-large": 0}

    def violation(key, msg, info, detail=None):
        d = dict(info); d.update(detail or {})
        ck.violation(msg, d, key="c26-" + key)

    hstats = {"regenerations": 0, "vacancymediated-too-large": 0}
    state = {"spent": 0.}

    def canon(K, jn_, jt_):
        """classification as a set of (jump type, set of (initial state, final state, rounded dx)): independent of indices"""
        return set((int(t), frozenset((sc.ps_of(K.states[i]), sc.ps_of(K.states[f]), tuple(np.round(dx, 8) + 0.)) for (i, f), dx in cl))
                   for cl, t in zip(jn_, jt_))

    # fixed corpus first (fcc and bcc: the stale-cache orderings differ between ranges), then the random pool
    corpus = [(nm,) + gen.named(nm) + (None,) for nm in ("fcc", "bcc", "honeycomb")]
    # crystals with a 3-/4-/6-fold axis but no mirror containing it and no perpendicular two-fold (p4, p3, p6, P4/m, P4, P3, P-3,
    # P6/m, m-3): a swing jump between two rotation-related states of one star is not mapped onto its reverse by any
    # operation, so closure under reversal is not implied by closure under the group.  quick: a fixed + a random selection
    chiral = list(sc.CHIRAL2 + sc.CHIRAL3) if not ck.quick else ["p4", "p3", "P4/m", "m-3", rng.choice(["p6", "P4", "P3", "P-3", "P6/m"])]
    for nm in chiral:
        c_, chem_, order_, cut_ = sc.chiral_crystal(nm)
        if len(c_.G) != order_:
            raise RuntimeError("chiral corpus crystal %s has a point group of order %d, expected %d" % (nm, len(c_.G), order_))
        corpus.append(("chiral-" + nm, c_, chem_, cut_))
    # low-symmetry multi-site crystals (triclinic / monoclinic, 2-3 sites, rational two-decimal data): with Nthermo = 2 the kinetic
    # range is three jumps, where a state can be closer to the solute than every two-jump state it is reached from
    c_, chem_, cut_ = sc.lowsym_demo()
    corpus.append(("lowsym-demo", c_, chem_, cut_))
    nlow = 0
    for _ in range(ck.n(12, 60)):
        if nlow >= ck.n(3, 16): break
        r = sc.lowsym_crystal(rng, 3 if rng.random() < 0.8 else 2)
        if r is None: continue
        net = sc.lowsym_network(r[1], r[2], rng, maxjumps=ck.n(24, 36))
        if net is None: continue
        nlow += 1
        corpus.append((r[0], r[1], r[2], net[0]))
    # networks with a jump v AND the collinear 2v (user-selected classes out to twice the shortest jump): the vacancy hop from a
    # to -a across the fixed solute is a swing jump like any other
    for nm in (("sc", "square") if ck.quick else ("sc", "square", "fcc", "bcc", "tria")):
        c_, chem_ = gen.named(nm)
        cn = sc.collinear_network(c_, chem_)
        if cn is not None: corpus.append(("collinear-" + nm, c_, chem_, cn))
    # noisy positions analysed with a loosened symmetry threshold (relaxed coordinates): everything must work with the
    # crystal's own tolerance
    for nm in (("hcp",) if ck.quick else ("hcp", "honeycomb", "polar")):
        r = sc.noisy_crystal(nm, rng)
        if r is not None: corpus.append((r[0], r[1], r[2], gen.shells(r[3], r[2])[0] + 1e-2))
    ncr = 0
    for label, crys, chem, fixedcut in itertools.chain(corpus, ((a, b, c, None) for a, b, c in gen.pool(rng, ncrys, random_frac=0.55))):
        ncr += 1
        in_corpus = ncr <= len(corpus)
        light = ck.quick and label.startswith(("chiral-", "collinear-", "noisy-"))     # quick: Nthermo = 1 only, one history sequence
        try:
            if in_corpus:
                sh = gen.shells(crys, chem)
                sl = crys.sitelist(chem)
                if isinstance(fixedcut, tuple):                                  # user-selected sub-network (description, network)
                    cut, jn = fixedcut
                else:
                    cut = fixedcut if fixedcut is not None else sh[0] + 1e-4     # nearest-neighbour network unless given
                    jn = crys.jumpnetwork(chem, cut)
            else:
                net = gen.percolating_network(crys, chem, rng, maxjumps=ck.n(30, 60))
                if net is None:
                    skipped["nonpercolating"] += 1; continue
                cut, sl, jn = net
        except Exception:
            skipped["construct-failed"] += 1; continue
        try:
            jumps = sc.latt_jumps(crys, chem, jn)
            ops = sc.ops_of(crys, chem)
        except sc.GeometryError:
            skipped["geometry"] += 1; continue
        nsites = len(crys.basis[chem])
        cid = len(defs)
        defs.append("Definition J%d : list (ps * nat) := [%s].\nDefinition G%d : list op := [%s].\n" % (
            cid, "; ".join("(%s, %d%%nat)" % (sc.c_ps((i, j, R)), t) for (i, j, R, t) in jumps), cid, "; ".join(sc.c_op(g) for g in ops)))
        info0 = {"crystal": repr(crys), "label": label, "chem": chem, "cutoff": cut}

        def judge(src, Nth, K, korigin, prune, j1, t1, j2, t2, d, extra=None, fresh=None):
            """evaluate one (state list, omega1 classes, omega2 classes) of the implementation: brute force now, Coq later"""
            info = dict(info0, Nthermo=Nth, source=src, originstates=korigin)
            info.update(extra or {})
            try:
                sts = [sc.ps_of(s) for s in K.states]
                expected = sc.reach_bruteforce(jumps, Nth + 1, nsites, korigin)
                thermo = sc.reach_bruteforce(jumps, Nth, nsites, False)
                bad = []
                if set(sts) != expected or len(set(sts)) != len(sts):
                    bad.append(("states", "kinetic state list is not the set reachable in Nthermo+1 jumps", {}))
                v1, v2, missing = brute(sts, jumps, thermo if prune else None)
                if missing:
                    bad.append(("states", "reverse of a first-shell state missing from the state list", {"state": missing[0]}))
                c1, r1 = to_tr(crys, chem, K, j1)
                c2, r2 = to_tr(crys, chem, K, j2)
                if max(r1, r2) > max(1e-8, crys.threshold):        # noisy positions: equivalent jumps carry the rotated dx
                    bad.append(("dx", "a jump displacement differs from the vacancy displacement by %.3g" % max(r1, r2), {}))
                bad += eval_classes(c1, t1, v1, sts, ops, "omega1")
                bad += eval_classes(c2, t2, v2, sts, ops, "omega2")
                if d is not None:
                    for idx, (cj, ct) in ((1, (j1, t1)), (2, (j2, t2))):
                        ol, ojt = d.omegalist(idx)
                        ok = len(ol) == len(cj) and list(ojt) == list(ct) and all(
                            sc.ps_of(a) == sts[cl[0][0][0]] and sc.ps_of(b) == sts[cl[0][0][1]] for (a, b), cl in zip(ol, cj))
                        if not ok: bad.append(("omegalist", "omegalist(%d) inconsistent with om%d_jn" % (idx, idx), {}))
                if fresh is not None:
                    (Kf, f1, ft1, f2, ft2) = fresh
                    if canon(K, j1, t1) != canon(Kf, f1, ft1):
                        bad.append(("fresh-omega1", "omega1 network of the regenerated object differs from a freshly built one", {}))
                    if canon(K, j2, t2) != canon(Kf, f2, ft2):
                        bad.append(("fresh-omega2", "omega2 network of the regenerated object differs from a freshly built one", {}))
            except sc.GeometryError:
                skipped["geometry"] += 1; return
            except Exception as e:
                violation(("history-" if src.startswith("history") else "") + "exception",
                          "%s evaluation raised %s: %s" % (src, type(e).__name__, e), info); return
            pre = "history-" if src.startswith("history") else ""
            for key, msg, detail in bad:
                violation(pre + key, msg, info, detail)
            ntr = sum(len(c) for c in c1)
            ck.case(key=(label, repr(crys), (round(cut, 5) if isinstance(cut, float) else str(cut)), Nth, src, korigin, json.dumps(extra, sort_keys=True, default=str)),
                    nontrivial=len(c1) >= 2, kind="%s:%dD-Nth%d" % (src, crys.dim, Nth),
                    sample={"source": src, "crystal": label, "cutoff": cut, "Nthermo": Nth, "kinetic_states": len(sts),
                            "omega1_classes": len(c1), "omega1_transitions": ntr, "omega2_classes": len(c2), "G": len(ops),
                            "history": (extra or {}).get("history")}
                    if ((cid % 4 == 0 and Nth == 1) or (src.startswith("history") and cid < 2)) and len(ck.samples) < 6 else None)
            cost = float(ntr + 40) * len(ops) * len(sts) + float(ntr) * ntr
            if cost <= coq_case_max and state["spent"] + cost <= coq_cost_budget:
                state["spent"] += cost
                runs.append("run_omega J%d %d%%nat %d%%nat %s %s G%d %s %s %s %s %s" % (
                    cid, nsites, Nth + 1, "true" if korigin else "false", "true" if prune else "false", cid, sc.c_pslist(sts),
                    c_classes(c1), sc.c_natlist(t1), c_classes(c2), sc.c_natlist(t2)))
                meta.append(info); wts.append(cost)
            else:
                skipped["coq-budget"] += 1

        freshvm = {}
        vmcap = max(vm_max_states, 270) if in_corpus else vm_max_states
        for Nth in ((1,) if light else (1, 2)):
            # (a) the StarSet methods, unpruned
            origin = rng.random() < 0.7
            try:
                S = crystalStars.StarSet(jn, crys, chem, Nth + 1, originstates=origin)
                j1, t1, sp1 = S.jumpnetwork_omega1()
                j2, t2, sp2 = S.jumpnetwork_omega2()
            except Exception as e:
                violation("exception", "StarSet.jumpnetwork_omega1/2 raised %s: %s" % (type(e).__name__, e), dict(info0, Nthermo=Nth))
                continue
            judge("starset", Nth, S, origin, False, j1, t1, j2, t2, None)
            # (b) the calculator (pruned), when affordable
            if S.Nstates + (0 if origin else nsites) <= vmcap and not (ck.quick and Nth == 2 and label.startswith("lowsym")):
                try:
                    d = OnsagerCalc.VacancyMediated(crys, chem, sl, jn, Nth)
                    freshvm[Nth] = d
                    judge("vacancymediated", Nth, d.kinetic, True, True, d.om1_jn, d.om1_jt, d.om2_jn, d.om2_jt, d)
                except Exception as e:
                    violation("exception", "VacancyMediated raised %s: %s" % (type(e).__name__, e), dict(info0, Nthermo=Nth))
            else:
                skipped["vacancymediated-too-large"] += 1
        # ---- history tier: the SAME objects asked again after their range changed (grown and shrunk) --------------------
        if (in_corpus and (not ck.quick or label in ("fcc", "bcc", "honeycomb") or label.startswith("chiral-"))) \
                or (not in_corpus and ncr - len(corpus) <= ck.n(2, 16)):
            def fresh_starset(N, o):
                Sf = crystalStars.StarSet(jn, crys, chem, N, originstates=o)
                f1, ft1, _ = Sf.jumpnetwork_omega1(); f2, ft2, _ = Sf.jumpnetwork_omega2()
                return (Sf, f1, ft1, f2, ft2)
            big3 = crystalStars.StarSet(jn, crys, chem, 3, originstates=True).Nstates <= ck.n(270, 520)
            seqs = [[2, 3, 2], [1, 2, 1]] if big3 else [[1, 2, 1, 2]]
            seqs.append([rng.choice([1, 2, 3] if big3 else [1, 2]) for _ in range(3)])
            if light: seqs = [[1, 2, 1]]
            for seq in seqs:
                o = rng.random() < 0.7
                hinfo = {"history": seq, "route": "StarSet.generate + jumpnetwork_omega1/2 on one object"}
                try:
                    S = crystalStars.StarSet(jn, crys, chem, seq[0], originstates=o)
                    S.jumpnetwork_omega1(); S.jumpnetwork_omega2()          # first request (may be cached by the object)
                    for k, N in enumerate(seq[1:], 1):
                        S.generate(N, originstates=o)
                        j1, t1, _ = S.jumpnetwork_omega1(); j2, t2, _ = S.jumpnetwork_omega2()
                        hstats["regenerations"] += 1
                        judge("history-starset", N - 1, S, o, False, j1, t1, j2, t2, None, dict(hinfo, step=k),
                              fresh=fresh_starset(N, o) if N != seq[k - 1] else None)
                except Exception as e:
                    violation("history-exception", "regenerated StarSet raised %s: %s" % (type(e).__name__, e), dict(info0, **hinfo))
            if 1 in freshvm and 2 in freshvm:
                hinfo = {"history": [1, 2, 1], "route": "VacancyMediated(...,1).generate(2).generate(1)"}
                try:
                    d = OnsagerCalc.VacancyMediated(crys, chem, sl, jn, 1)
                    for k, Nth in enumerate((2, 1), 1):
                        d.generate(Nth)
                        hstats["regenerations"] += 1
                        f = freshvm[Nth]
                        judge("history-vacancymediated", Nth, d.kinetic, True, True, d.om1_jn, d.om1_jt, d.om2_jn, d.om2_jt, d,
                              dict(hinfo, step=k), fresh=(f.kinetic, f.om1_jn, f.om1_jt, f.om2_jn, f.om2_jt))
                except Exception as e:
                    violation("history-exception", "regenerated VacancyMediated raised %s: %s" % (type(e).__name__, e), dict(info0, **hinfo))
            else:
                hstats["vacancymediated-too-large"] += 1
    codes = []
    try:
        codes = sc.run_chunks(ck, "omega", defs, runs, OMEGA_IMPORTS, chunk=12, workers=6, weights=wts, wmax=WMAX)
    except CoqFailure as e:
        ck.broken_proof = "correspondence Model/OmegaNet.run_omega: %s" % e
    for info, c in zip(meta, codes):
        if c != 0:
            ck.violation("model correspondence: %s" % MEANING.get(c, c), dict(info, model_code=c), key="c26-model-%d" % c)
    ck.extra["model_cases"] = len(codes)
    ck.extra["skipped"] = skipped
    ck.extra["history_tier"] = hstats
    ck.extra["traces_validated_against_impl"] = len(codes)
