"""C33  Monte Carlo sampler state is a function of the occupation.

Proof: Proofs/Sampler_proofs.v about the Gallina transcription Model/Sampler.v of
MonteCarloSampler.start/E/transitions/deltaE_trial/update (all table sizes, all rings of energies, all
histories, arbitrary argument lists).
Tie: (a) the same generated histories are executed by the implementation and replayed by the model inside
Coq (Model/SamplerCheck.check_trace compares clustercount, both sets, E, deltaE_trial, transitions after
every call, exactly, energies being integers); (b) direct evaluation of the property on the implementation:
exhaustive over all occupations x all single-site and many multi-site updates on small supercells, random
long histories on larger ones, with/without vacancy, jump network, spectators."""
META = dict(
    level="proof",
    text=("Theorems (every interaction table, every commutative ring of energies, every history of start/update calls with "
          "arbitrary argument lists): clustercount[m] = number of unoccupied sites of interaction m (with multiplicity), "
          "occupied/unoccupied sets = the sites with occ 1/0, the rest is the vacancy; hence the state after any history "
          "equals the state of a fresh start on the current occupation (same E, deltaE_trial, transitions); updates never "
          "raise in reachable states; deltaE_trial = E(after update) - E(before) for duplicate-free disjoint arguments, and "
          "two refutation witnesses show that hypothesis is needed. Tie: implementation histories replayed by the model "
          "inside Coq (exact, integer energies) + exhaustive/random direct evaluation on the implementation."),
    note=("Trusted: Coq kernel/vm_compute; the hand transcription Model/Sampler.v (validated on every run by the trace "
          "correspondence); harness. Python sets are modelled as duplicate-free lists compared as sets; float rounding and "
          "summation order are not modelled (energies live in a ring; the correspondence uses integer energies so the "
          "comparison is exact). The sampler aliases the caller's occ array (no copy): histories here never mutate it "
          "from outside. A start() that raises leaves the object half-initialised: histories continue with a valid start."),
    technique="Coq proof (state-machine invariant, induction over histories) + in-Coq trace correspondence",
)

import copy
import numpy as np
from . import mcsys
from .lib import CoqFailure

FTOL = 1e-9


# ---------------------------------------------------------------------------------------------
def scratch_counts(MC, occ):
    """clustercount from the definition: unoccupied sites per interaction, with multiplicity"""
    cc = np.zeros(len(MC.interactvalue), dtype=int)
    for i, o in enumerate(occ):
        if o == 0:
            for m in MC.siteinteract[i][:MC.Ninteract[i]]:
                cc[m] += 1
    return cc


def state_diff(MC, F, occ, exact=True):
    """None if sampler MC (after a history) is in the state of F (fresh start on occ); else a description"""
    if not np.array_equal(np.asarray(MC.occ), np.asarray(occ)): return "occ array differs from the tracked occupation"
    if not np.array_equal(MC.clustercount, F.clustercount): return "clustercount differs from a fresh start"
    if not np.array_equal(MC.clustercount, scratch_counts(MC, occ)): return "clustercount differs from the definition"
    if MC.occupied_set != F.occupied_set: return "occupied_set differs from a fresh start"
    if MC.unoccupied_set != F.unoccupied_set: return "unoccupied_set differs from a fresh start"
    if MC.occupied_set != set(i for i, o in enumerate(occ) if o == 1): return "occupied_set is not {i: occ_i = 1}"
    if MC.unoccupied_set != set(i for i, o in enumerate(occ) if o == 0): return "unoccupied_set is not {i: occ_i = 0}"
    e1, e2 = MC.E(), F.E()
    if not mcsys.eqf(e1, e2): return "E() = %r differs from fresh E() = %r" % (e1, e2)
    if getattr(MC, "_verif_kind", "float") != "float":
        ex = mcsys.exact_E(MC, scratch_counts(MC, occ))
        if not mcsys.consistent(e1, ex):
            return ("E() = %r but the interactions that are switched on sum to %s (a switched-off interaction contributes nothing, "
                    "whatever its value)" % (e1, "inf" if abs(ex) >= mcsys.INF_Z // 2 else ex))
    if MC.jumps is not None:
        t1, t2 = MC.transitions(), F.transitions()
        if t1[0] != t2[0] or not np.array_equal(t1[1], t2[1]): return "transitions() differ from a fresh start"
    return None


def make_probes(rng, S, n=5):
    """fixed trial moves (site tuples) that are asked again and again during a history: single swaps, a multi-site move, a sloppy one"""
    free = [i for i in range(S.Nsites) if i != S.vacancy]
    if not free: return []
    pr = []
    for _ in range(n):
        k = rng.randint(1, min(3, len(free)))
        a = rng.sample(free, k)
        rest = [i for i in free if i not in a]
        b = rng.sample(rest, min(len(rest), rng.randint(0, 2)))
        pr.append((a, b) if rng.random() < 0.5 else (b, a))
    pr.append(([free[0]], [free[-1]]))
    return pr


def query_diff(MC, F, probes):
    """query results (trial energy changes of the fixed probe moves, asked twice) against the fresh sampler: None or a description.
    Both run the same arithmetic in the same order, so equality is exact also for float energies."""
    for a, b in probes:
        for rep in (0, 1):
            d1, d2 = MC.deltaE_trial(a, b), F.deltaE_trial(a, b)
            if not mcsys.eqf(d1, d2):
                return "deltaE_trial(%s, %s) = %r but a sampler freshly started on the same occupation gives %r" % (a, b, d1, d2)
    return None


def apply_to_occ(occ, a, b):
    """the occupation update(a, b) is meant to produce (sequential semantics of the code)"""
    o = occ.copy()
    for i in a:
        if o[i] == 0: o[i] = 1
    for i in b:
        if o[i] == 1: o[i] = 0
    return o


def proper(a, b):
    return len(set(a)) == len(a) and len(set(b)) == len(b) and not (set(a) & set(b))


def gen_args(rng, S, occ, kind=None):
    """(a, b, kind) argument lists for update / deltaE_trial"""
    free = [i for i in range(S.Nsites) if i != S.vacancy]
    un = [i for i in free if occ[i] == 0]
    oc = [i for i in free if occ[i] == 1]
    kind = kind or rng.choice(["occ1", "unocc1", "swap", "swap", "multi", "multi", "sloppy", "noop", "dup", "overlap"])
    if kind == "occ1" and un: return [rng.choice(un)], [], kind
    if kind == "unocc1" and oc: return [], [rng.choice(oc)], kind
    if kind == "swap" and un and oc: return [rng.choice(un)], [rng.choice(oc)], kind
    if kind == "multi" and free:
        k = rng.randint(1, min(4, len(free)))
        a = rng.sample(un, min(len(un), rng.randint(0, k)))
        b = rng.sample(oc, min(len(oc), rng.randint(0, k)))
        return a, b, kind
    if kind == "noop" and free:
        return rng.sample(oc, min(len(oc), 2)), rng.sample(un, min(len(un), 2)), kind
    if kind == "dup" and free:
        i = rng.choice(free)
        return ([i, i], []) + (kind,) if rng.random() < 0.5 else ([], [i, i], kind)
    if kind == "overlap" and free:
        i = rng.choice(free)
        return [i] + rng.sample(free, min(len(free), 1)), [i], kind
    if free:
        return ([rng.choice(free) for _ in range(rng.randint(0, 3))], [rng.choice(free) for _ in range(rng.randint(0, 3))], "sloppy")
    return [], [], "empty"


def trial_ok(MC, dE, occ, occ2):
    """is the reported trial energy change the change of the energy-from-the-definition (exact, extended values)?"""
    ne = MC.Nenergy
    cb, ca = scratch_counts(MC, occ), scratch_counts(MC, occ2)
    Eb, Ea = mcsys.exact_E(MC, cb), mcsys.exact_E(MC, ca)
    d = Ea - Eb
    big = mcsys.INF_Z // 2
    dE = float(dE)
    changed = (cb[:ne] == 0) != (ca[:ne] == 0)
    huge_changed = bool(np.any(np.abs(np.asarray(MC.interactvalue[:ne], dtype=float)[changed]) >= 1e299))
    def show(x): return "inf" if abs(x) >= big else x
    if dE != dE:            # inf - inf: an infinite interaction goes off while another comes on; the difference of two infinite energies
        ok = abs(Eb) >= big and abs(Ea) >= big
    elif abs(d) >= big:
        ok = np.isinf(dE) and (dE > 0) == (d > 0)
    elif huge_changed:
        ok = np.isfinite(dE) and abs(dE - float(d) / mcsys.HUGE_Z * 1e300) <= 1e-9 * 1e300 * max(1., abs(d) / mcsys.HUGE_Z)
    else:
        try: ok = np.isfinite(dE) and mcsys.intval(dE) == d
        except AssertionError: ok = False
    return ok, show(Eb), show(Ea)


class Violation(Exception):
    def __init__(self, what, key, detail):
        Exception.__init__(self, what)
        self.what, self.key, self.detail = what, key, detail


def do_update(ck, S, MC, occ, a, b, kind, hist, exact=True, scale=1.0, probes=()):
    """one checked update on the implementation; returns the new tracked occupation"""
    E0 = MC.E()
    try:
        dE = MC.deltaE_trial(a, b)
        MC.update(a, b)
    except Exception as e:
        raise Violation("update/deltaE_trial raised %s: %s" % (type(e).__name__, e), "c33-exception",
                        dict(args=[list(map(int, a)), list(map(int, b))]))
    occ2 = apply_to_occ(occ, a, b)
    F = mcsys.fresh(MC, occ2)
    d = state_diff(MC, F, occ2)
    if d is not None:
        raise Violation("after update%s: %s" % ((list(map(int, a)), list(map(int, b))), d), "c33-state-differs-from-fresh",
                        dict(args=[list(map(int, a)), list(map(int, b))], kind=kind))
    d = query_diff(MC, F, probes)
    if d is not None:
        raise Violation("after update%s: %s" % ((list(map(int, a)), list(map(int, b))), d), "c33-query-differs-from-fresh",
                        dict(args=[list(map(int, a)), list(map(int, b))], kind=kind))
    E1 = MC.E()
    if proper(a, b):
        if exact and getattr(MC, "_verif_kind", "float") != "float":
            ok, E0, E1 = trial_ok(MC, dE, occ, occ2)
        else:
            ok = (dE == E1 - E0) if exact else (abs(dE - (E1 - E0)) <= FTOL * scale)
        if not ok:
            raise Violation("deltaE_trial%s = %r but E(after) = %s, E(before) = %s" % ((list(map(int, a)), list(map(int, b))), dE, E1, E0),
                            "c33-deltaE-mismatch", dict(args=[list(map(int, a)), list(map(int, b))], dE=float(dE), E0=str(E0), E1=str(E1)))
        # the fresh sampler predicts the same trial changes
    return occ2, bool(dE != 0 or not np.array_equal(occ, occ2))


def report(ck, S, v, occ0, hist):
    ck.violation("%s [%s]" % (v.what, S.label),
                 dict(system=S.label, crystal=repr(S.crys), superlatt=S.superlatt.tolist(), cutoff=S.cutoff, order=S.order,
                      vacancy=S.vacancy, jump_cutoff=S.jcut if S.jumpnetwork is not None else None,
                      values=np.asarray(S.values).tolist(), spectator_occ=S.socc.tolist(),
                      start_occ=np.asarray(occ0).tolist(), history=hist, **v.detail), key=v.key)


def exhaustive(ck, rng, S, max_multi):
    """every occupation x every single-site update (+ sampled multi-site updates), each followed by the inverse update"""
    MC = S.MC
    free = [i for i in range(S.Nsites) if i != S.vacancy]
    probes = make_probes(rng, S)
    n = 0
    prev = None
    for occ0 in mcsys.all_occs(S):
        occ = occ0.copy()
        hist = []
        try:
            if prev is not None:
                # re-start WITHOUT an update in between, the same queries before and after
                MC.start(prev.copy()); hist.append(["start", prev.tolist()])
                d = query_diff(MC, mcsys.fresh(MC, prev), probes)
                if d: raise Violation("after start: " + d, "c33-query-differs-from-fresh", {})
            prev = occ0.copy()
            MC.start(occ.copy()); hist.append(["start", occ.tolist()])
            F = mcsys.fresh(MC, occ)
            d = state_diff(MC, F, occ) or query_diff(MC, F, probes)
            if d: raise Violation("after start: " + d, "c33-start-state" if "deltaE_trial" not in d else "c33-query-differs-from-fresh", {})
            ups = [([i], [], "occ1") if occ[i] == 0 else ([], [i], "unocc1") for i in free]
            ups += [([i], [j], "swap") for i in free for j in free if occ[i] == 0 and occ[j] == 1][:max_multi]
            for _ in range(max_multi):
                ups.append(gen_args(rng, S, occ, rng.choice(["multi", "sloppy", "noop"])))
            for a, b, kind in ups:
                hist.append([list(map(int, a)), list(map(int, b))])
                occ1, nt = do_update(ck, S, MC, occ, a, b, kind, hist, probes=probes if n % 7 == 0 else ())
                ck.case(key=(S.label, occ.tolist(), a, b), nontrivial=nt, kind="exhaustive:" + kind,
                        sample={"system": S.label, "occ": occ.tolist(), "update": [a, b], "E": float(MC.E())} if n == 0 else None)
                n += 1
                # inverse update brings the occupation back; the state must be the fresh state again
                ia = [i for i in free if occ1[i] == 0 and occ[i] == 1]
                ib = [i for i in free if occ1[i] == 1 and occ[i] == 0]
                hist.append([ia, ib])
                occ_back, _ = do_update(ck, S, MC, occ1, ia, ib, "inverse", hist)
                if not np.array_equal(occ_back, occ): raise RuntimeError("harness: inverse update wrong")
        except Violation as v:
            report(ck, S, v, occ0, hist)
            return n
    return n


def random_history(ck, rng, S, nops, exact=True):
    MC = S.MC
    scale = float(np.abs(MC.interactvalue).sum()) + 1.0
    occ0 = mcsys.random_occ(rng, S)
    occ = occ0.copy()
    hist = []
    probes = make_probes(rng, S)
    try:
        MC.start(occ.copy())
        d = query_diff(MC, mcsys.fresh(MC, occ), probes)
        if d: raise Violation("after start: " + d, "c33-query-differs-from-fresh", {})
        for k in range(nops):
            r = rng.random()
            if r < 0.12:
                # re-start (often right after another start or a query, with no update in between)
                occ = mcsys.random_occ(rng, S)
                hist.append(["start", occ.tolist()])
                MC.start(occ.copy())
                F = mcsys.fresh(MC, occ)
                d = state_diff(MC, F, occ)
                if d: raise Violation("after restart: " + d, "c33-start-state", {})
                d = query_diff(MC, F, probes)
                if d: raise Violation("after restart: " + d, "c33-query-differs-from-fresh", {})
                ck.case(key=(S.label, "restart", occ.tolist()), nontrivial=True, kind=("random:" if exact else "random-float:") + "restart+queries")
                continue
            a, b, kind = gen_args(rng, S, occ)
            hist.append([list(map(int, a)), list(map(int, b))])
            occ1, nt = do_update(ck, S, MC, occ, a, b, kind, hist[-30:], exact=exact, scale=scale, probes=probes if k % 3 == 0 else ())
            ck.case(key=(S.label, occ.tolist(), a, b), nontrivial=nt, kind=("random:" if exact else "random-float:") + kind)
            occ = occ1
    except Violation as v:
        report(ck, S, v, occ0, hist[-200:])


# ---------------------------------------------------------------------------------------------
# correspondence with the model inside Coq
def obs_term(MC):
    # E(): the exact (coded) energy of the interactions that are on, after checking that the float E() represents it
    ex = mcsys.exact_E(MC, MC.clustercount)
    if not mcsys.consistent(MC.E(), ex):
        raise Violation("E() = %r but the interactions that are switched on sum to %s" % (MC.E(), "inf" if abs(ex) >= mcsys.INF_Z // 2 else ex),
                        "c33-energy", dict(occ=np.asarray(MC.occ).tolist()))
    return "(OB %s %s %s %s)" % (mcsys.zl(MC.clustercount), mcsys.zl(sorted(MC.occupied_set)), mcsys.zl(sorted(MC.unoccupied_set)), mcsys.zz(ex))


def trans_term(MC):
    ij, Q, dx = MC.transitions()
    # jump number of every reported transition: transitions() keeps the order of MC.jumps
    rows, n = [], 0
    for (i, j) in ij:
        while MC.jumps[n][0] != (i, j): n += 1
        rows.append("(%d,%d,%d,%s)" % (n, i, j, mcsys.zz(mcsys.intval(Q[len(rows)], "barrier"))))
        n += 1
    return "(ETrans (K:=Zring) (Some (TR [%s])))" % ";".join(rows)


def trace(ck, rng, S, nev, exhaustive_tiny=False):
    """run a history on the implementation, return the list of Coq event terms"""
    MC = S.MC
    ev = []

    def start(occ, bad=False):
        try:
            MC.start(occ.copy())
            ev.append("(EStart (K:=Zring) %s %s)" % (mcsys.zl(occ), obs_term(MC)))
            return True
        except (RuntimeError, RuntimeWarning):
            ev.append("(EStart (K:=Zring) %s None)" % mcsys.zl(occ))
            return False

    def update(a, b):
        try:
            MC.update(a, b)
            ev.append("(EUpdate (K:=Zring) (NL %s) (NL %s) %s)" % (mcsys.zl(a), mcsys.zl(b), obs_term(MC)))
        except ValueError:
            ev.append("(EUpdate (K:=Zring) (NL %s) (NL %s) None)" % (mcsys.zl(a), mcsys.zl(b)))
        except Exception as e:
            raise Violation("update raised %s: %s" % (type(e).__name__, e), "c33-exception",
                            dict(args=[list(map(int, a)), list(map(int, b))], events=ev[-40:]))

    def trial(a, b):
        try:
            dE = MC.deltaE_trial(a, b)
            if np.isfinite(dE):
                ev.append("(ETrial (K:=Zring) (NL %s) (NL %s) (Some %s))" % (mcsys.zl(a), mcsys.zl(b), mcsys.zz(mcsys.intval(dE, "deltaE"))))
            elif proper(a, b):
                # infinite / undefined (inf - inf) change: checked against the definition here, the model gets the exact coded value
                occ1 = np.asarray(MC.occ); occ2 = apply_to_occ(occ1, a, b)
                ok, Eb, Ea = trial_ok(MC, dE, occ1, occ2)
                if not ok:
                    raise Violation("deltaE_trial(%s, %s) = %r but E(after) = %s, E(before) = %s" % (a, b, dE, Ea, Eb), "c33-deltaE-mismatch",
                                    dict(args=[list(map(int, a)), list(map(int, b))], occ=occ1.tolist()))
                d = mcsys.exact_E(MC, scratch_counts(MC, occ2)) - mcsys.exact_E(MC, scratch_counts(MC, occ1))
                ev.append("(ETrial (K:=Zring) (NL %s) (NL %s) (Some %s))" % (mcsys.zl(a), mcsys.zl(b), mcsys.zz(d)))
        except ValueError:
            ev.append("(ETrial (K:=Zring) (NL %s) (NL %s) None)" % (mcsys.zl(a), mcsys.zl(b)))
        except Exception as e:
            raise Violation("deltaE_trial raised %s: %s" % (type(e).__name__, e), "c33-exception",
                            dict(args=[list(map(int, a)), list(map(int, b))], events=ev[-40:]))

    if exhaustive_tiny:
        free = [i for i in range(S.Nsites) if i != S.vacancy]
        for occ in mcsys.all_occs(S):
            start(occ)
            for i in free:
                a, b = ([i], []) if MC.occ[i] == 0 else ([], [i])
                trial(a, b); update(a, b)
                if MC.jumps is not None and i == free[0]: ev.append(trans_term(MC))
            for i in free:               # a second sweep flips everything back, in another order
                j = free[-1 - free.index(i)]
                a, b = ([j], []) if MC.occ[j] == 0 else ([], [j])
                update(a, b)
        return ev
    occ = mcsys.random_occ(rng, S)
    start(occ)
    probes = make_probes(rng, S, 3)
    while len(ev) < nev:
        r = rng.random()
        cur = np.asarray(MC.occ)
        # the same few trial moves are asked again and again: before and after re-starts, repeatedly, between updates
        for a, b in probes:
            if rng.random() < 0.35: trial(list(a), list(b))
        if r < 0.12:
            start(mcsys.random_occ(rng, S))
        elif r < 0.08:
            # an occupation start() must reject, then a valid one (the object is half-initialised in between)
            bad = mcsys.random_occ(rng, S)
            cand = [i for i in range(S.Nsites) if i != S.vacancy]
            if S.vacancy >= 0 and (not cand or rng.random() < 0.5):
                bad[S.vacancy] = rng.choice((0, 1))
            else:
                bad[rng.choice(cand)] = rng.choice((-1, 2))
            if start(bad): raise RuntimeError("harness: invalid occupation accepted?")
            start(mcsys.random_occ(rng, S))
        elif r < 0.12 and S.vacancy >= 0:
            a, b, _ = gen_args(rng, S, cur, "sloppy")
            (a if rng.random() < 0.5 else b).append(S.vacancy)
            trial(a, b); update(a, b)
        elif r < 0.20 and MC.jumps is not None:
            ev.append(trans_term(MC))
        else:
            a, b, _ = gen_args(rng, S, cur)
            if rng.random() < 0.6: trial(a, b)
            update(a, b)
    return ev


def run_traces(ck, name, items):
    """items: list of (System, [event terms]); returns list of codes (0 = agree)"""
    codes = []
    # group so that a file stays small
    group, size = [], 0
    groups = []
    for S, ev in items:
        sz = sum(len(e) for e in ev)
        if group and size + sz > 1500000:
            groups.append(group); group, size = [], 0
        group.append((S, ev)); size += sz
    if group: groups.append(group)
    for gi, group in enumerate(groups):
        body = []
        for k, (S, ev) in enumerate(group):
            body.append("Definition sd%d := %s." % (k, mcsys.static_term(S.MC)))
            body.append("Definition ev%d : list (event Zring) := [%s]." % (k, ";\n".join(ev)))
        body.append("Eval vm_compute in [%s]." % "; ".join("check_trace sd%d ev%d" % (k, k) for k in range(len(group))))
        out = ck.coq_cases("%s_%d" % (name, gi), "\n".join(body), mcsys.PRELUDE)
        got = mcsys.parse_nat_list(out)
        if got is None or len(got) != len(group):
            raise CoqFailure("could not parse model output: " + out[-300:])
        codes += got
    return codes


def witness_replay(ck, rng):
    """the two refutation witnesses (repeated site / site in both lists) behave on the implementation as in the model"""
    S = mcsys.build(rng, "chain", (1.1, 2, 1.1), (4, 1, 1))
    MC = S.MC
    occ = np.zeros(S.Nsites, dtype=int)
    MC.start(occ.copy()); E0 = MC.E(); dE = MC.deltaE_trial([0, 0], []); MC.update([0, 0], []); d1 = (dE, MC.E() - E0)
    MC.start(occ.copy()); E0 = MC.E(); dE = MC.deltaE_trial([0], [0]); MC.update([0], [0]); d2 = (dE, MC.E() - E0)
    ck.note("documented precondition (not a finding): deltaE_trial([0,0],[]) = %r vs energy change %r; deltaE_trial([0],[0]) = %r vs %r  [%s]"
            % (d1[0], d1[1], d2[0], d2[1], S.label))
    ck.extra["precondition_witness_on_impl"] = {"dup": [float(d1[0]), float(d1[1])], "overlap": [float(d2[0]), float(d2[1])]}


def run(ck):
    ck.rule = ("systems: crystal pool (chain, ladder, sc, fcc, bcc, hcp, diamond, multi-site cells, B2/chain with spectators, two mobile "
               "species) x superlattice (incl. non-diagonal and self-wrapping 1x1x1) x cluster cutoff/order x {plain, jump network "
               "+ TS clusters, vacancy + jump network}; always included: samplers with mobile sites that carry no interaction (sublattice excluded "
               "from the expansion, empty expansion, clusters switched off by spectators) and samplers with extended interaction values (+inf hard-core "
               "exclusion, 0, 1e300) judged against the exact energy of the interactions that are on (nan/inf aware); integer energies. Direct: all occupations x all single-site updates "
               "+ swaps + sampled multi-site/sloppy updates (each undone again) on supercells with <= 8 (quick) / 11 (thorough) "
               "free sites; random histories (start, proper, duplicate, overlapping, no-op arguments) on larger ones. "
               "Correspondence: the same kind of histories (plus rejected starts, vacancy arguments, transitions) replayed by "
               "the Coq model. distinct = (system, occupation, arguments); non-trivial = the call changed the state or dE != 0")
    ck.trusted += ["harness/c33.py, mcsys.py (system construction as in test/test_cluster.py, trace printing)",
                   "Model/Sampler.v is a hand transcription of MonteCarloSampler (validated by the trace correspondence on every run)"]
    ck.theorems()
    rng = ck.rng
    witness_replay(ck, rng)
    names = list(mcsys.CRYSTALS)
    # ---- direct evaluation ------------------------------------------------------------------------
    nsys = 0
    maxfree = ck.n(8, 11)
    ex_done = 0
    combos = [(False, False, False), (False, True, True), (True, False, False), (True, True, True), (False, True, False)]
    plan = []
    for name in names:
        for setup in mcsys.SETUPS[name]:
            for sup in mcsys.SUPERS[name]:
                plan.append((name, setup, sup))
    rng.shuffle(plan)
    budget_ex = ck.n(6, 45)
    budget_rand = ck.n(7, 50)
    # always: samplers in which some mobile sites carry NO interaction (second mobile sublattice excluded from the expansion,
    # empty expansion, clusters switched off by the spectators) -- update() must keep occ, both sets and the counts in step there too
    always = []
    for name in mcsys.ZERO_INTERACTION:
        sups = mcsys.SUPERS[name]
        for k, combo in enumerate([(False, False, False), (True, False, False), (False, True, True)]):
            S = mcsys.build(rng, name, mcsys.SETUPS[name][0], sups[k % len(sups)] if not ck.quick else sups[0], vacancy=combo[0], jumps=combo[1], ts=combo[2])
            if S is None: continue
            always.append(S)
            nfree = S.Nsites - (1 if combo[0] else 0)
            if nfree <= maxfree: exhaustive(ck, rng, S, max_multi=ck.n(3, 8) if nfree > 6 else 12)
            else: random_history(ck, rng, S, ck.n(150, 600))
            random_history(ck, rng, S, ck.n(60, 200))
    ck.extra["zero_interaction_systems_always_run"] = len(always)
    # always: extended interaction values -- hard-core exclusion (+inf), 0, and (direct evaluator only) 1e300 -- on the clusters with
    # two or more mobile sites: a switched-off interaction contributes nothing whatever its value
    extsys = [("chain", (2.1, 3, 1.1), (6, 1, 1)), ("fcc", (0.8, 3, 0.8), (2, 2, 2)), ("ladder", (1.6, 3, 1.2), (3, 2, 1)),
              ("chain3", (0.75, 3, 0.45), (2, 1, 1))]
    if not ck.quick: extsys += [("sc", (1.5, 3, 1.01), (2, 2, 2)), ("hcp", (1.01, 3, 1.01), (2, 2, 1)), ("ladder", (1.6, 3, 1.2), (3, 3, 1))]
    if not ck.quick: extsys += [("bcc", (1.01, 3, 0.9), (2, 2, 2)), ("diamond", (0.72, 3, 0.45), (2, 2, 1)), ("chain", (2.1, 3, 1.1), (10, 1, 1))]
    next_ = 0
    for k, (name, setup, sup) in enumerate(extsys):
        for kind in (("ext", "huge") if (k % 2 == 0 or not ck.quick) else ("ext",)):
            S = mcsys.build(rng, name, setup, sup, vacancy=(k + (kind == "huge")) % 2 == 1, jumps=False, vals=kind)
            if S is None: continue
            next_ += 1
            if kind == "ext": always.append(S)
            nfree = S.Nsites - (S.vacancy >= 0)
            if nfree <= maxfree: exhaustive(ck, rng, S, max_multi=ck.n(3, 8) if nfree > 6 else 12)
            random_history(ck, rng, S, ck.n(80, 400))
    ck.extra["extended_value_systems_always_run"] = next_
    for name, setup, sup in plan:
        if ex_done >= budget_ex and nsys >= budget_ex + budget_rand: break
        vac, jn, ts = rng.choice(combos)
        S = mcsys.build(rng, name, setup, sup, vacancy=vac, jumps=jn, ts=ts)
        if S is None: continue
        nfree = S.Nsites - (1 if vac else 0)
        if len(S.MC.interactvalue) > ck.n(3000, 9000): continue
        nsys += 1
        if nfree <= maxfree and ex_done < budget_ex:
            exhaustive(ck, rng, S, max_multi=ck.n(3, 8) if nfree > 6 else 12)
            ex_done += 1
        else:
            random_history(ck, rng, S, ck.n(150, 600))
    # float energies: same property with a rounding tolerance (summation order differs between E and deltaE_trial)
    for _ in range(ck.n(3, 10)):
        name, setup, sup = rng.choice(plan)
        S = mcsys.build(rng, name, setup, sup, vacancy=rng.random() < 0.4, jumps=False, vals="float")
        if S is None or len(S.MC.interactvalue) > 3000: continue
        random_history(ck, rng, S, ck.n(100, 300), exact=False)
    ck.extra["exhaustive_systems"] = ex_done
    ck.extra["systems"] = nsys
    ck.extra["exhaustive"] = ex_done > 0
    # ---- correspondence with the Coq model ----------------------------------------------------------
    items = []
    tiny = [("chain", (2.1, 3, 1.1), (4, 1, 1)), ("chain", (1.1, 2, 1.1), (5, 1, 1)), ("chain2", (1.1, 3, 0.65), (2, 1, 1)),
            ("sc", (1.01, 2, 1.01), (2, 2, 1)), ("fcc", (0.8, 3, 0.8), (1, 1, 1)), ("chainspec", (1.1, 3, 1.1), (4, 1, 1)),
            ("chain", (2.1, 3, 2.1), (3, 1, 1))]
    for k, (name, setup, sup) in enumerate(tiny[:ck.n(4, 7)] if ck.quick else tiny):
        vac, jn, ts = combos[(k + ck.seed) % len(combos)]
        S = mcsys.build(rng, name, setup, sup, vacancy=vac, jumps=jn, ts=ts)
        if S is None or len(S.MC.interactvalue) > 200: continue
        try:
            items.append((S, trace(ck, rng, S, 0, exhaustive_tiny=True), "exhaustive"))
        except Violation as v:
            report(ck, S, v, [], [])
    for S in always:
        if len(S.MC.interactvalue) > 400: continue
        try:
            items.append((S, trace(ck, rng, S, ck.n(40, 200)), "random"))
            if S.Nsites <= 6: items.append((S, trace(ck, rng, S, 0, exhaustive_tiny=True), "exhaustive"))
        except Violation as v:
            report(ck, S, v, [], [])
    ntr = ck.n(5, 40) + len(items)
    tries = 0
    while sum(1 for it in items if it[2] == "random") < ntr and tries < 10 * ntr:
        tries += 1
        name, setup, sup = rng.choice(plan)
        vac, jn, ts = rng.choice(combos)
        S = mcsys.build(rng, name, setup, sup, vacancy=vac, jumps=jn, ts=ts)
        if S is None: continue
        nint = len(S.MC.interactvalue)
        if nint > 700: continue
        nev = max(20, min(ck.n(150, 400), 40000 // (nint + 20)))
        try:
            items.append((S, trace(ck, rng, S, nev), "random"))
        except Violation as v:
            report(ck, S, v, [], [])
    try:
        codes = run_traces(ck, "trace", [(S, ev) for S, ev, _ in items])
    except CoqFailure as e:
        ck.broken_proof = "correspondence Model/Sampler.check_trace: %s" % e
        codes = []
    nevents = 0
    for (S, ev, kind), c in zip(items, codes):
        nevents += len(ev)
        ck.case(key=("trace", S.label, kind, len(ev), hash(tuple(ev)) & 0xffffffff), nontrivial=len(ev) > 3, kind="trace:" + kind,
                sample={"system": S.label, "events": len(ev), "first_events": ev[:3]} if len(ck.samples) < 5 else None)
        if c != 0:
            ck.violation("model and implementation disagree at event %d of a %s history on %s: %s" % (c - 1, kind, S.label, ev[c - 1][:300]),
                         dict(system=S.label, crystal=repr(S.crys), superlatt=S.superlatt.tolist(), cutoff=S.cutoff, order=S.order,
                              vacancy=S.vacancy, values=np.asarray(S.values).tolist(), spectator_occ=S.socc.tolist(),
                              event_index=c - 1, events=ev[:c]), key="c33-model-correspondence")
    ck.extra["traces_validated_against_impl"] = len(codes)
    ck.extra["trace_events"] = nevents
